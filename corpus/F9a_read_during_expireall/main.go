package main

import (
	"context"
	"fmt"
	"sync"
	"sync/atomic"
	"time"

	"github.com/bool64/cache"
)

func main() {
	for _, mk := range []func() cache.ReadWriter{
		func() cache.ReadWriter { return cache.NewShardedMap(cache.Config{TimeToLive: cache.UnlimitedTTL}.Use) },
		func() cache.ReadWriter { return cache.NewSyncMap(cache.Config{TimeToLive: cache.UnlimitedTTL}.Use) },
	} {
		c := mk()
		ctx := context.Background()
		key := []byte("k")
		_ = c.Write(cache.WithTTL(ctx, -time.Hour, false), key, "born expired an hour ago")
		var hits, reads int64
		stop := make(chan struct{})
		var wg sync.WaitGroup
		for g := 0; g < 4; g++ {
			wg.Add(1)
			go func() {
				defer wg.Done()
				for {
					select {
					case <-stop:
						return
					default:
					}
					v, err := c.Read(ctx, key)
					atomic.AddInt64(&reads, 1)
					if err == nil {
						if atomic.AddInt64(&hits, 1) == 1 {
							fmt.Printf("  Read returned (%q, nil) for an entry that was never fresh\n", v)
						}
					}
				}
			}()
		}
		ea := c.(interface{ ExpireAll(context.Context) })
		for i := 0; i < 200000; i++ {
			ea.ExpireAll(ctx)
		}
		close(stop)
		wg.Wait()
		fmt.Printf("%T: %d of %d Reads concurrent with ExpireAll returned the expired value as a hit\n", c, hits, reads)
	}
}
