module repro

go 1.18

require github.com/bool64/cache v0.0.0

require github.com/cespare/xxhash/v2 v2.2.0 // indirect

replace github.com/bool64/cache => /repo
