// gofacts: a syntactic inventory of the shared-memory accesses of bool64/cache, with the lock that is held at each of them.
// One line of JSON per access: function (as the race detector names it, closures folded into their declaring function),
// location class, read/write, atomic?, lock held (by straight-line scan: Lock()/RLock() ... Unlock()/RUnlock(), defer Unlock
// holds to the end; the body of a `go` statement or a deferred closure starts with no lock; other closures inherit).
// bin/verif compares the inventory with the footprint table of the Lean model (C16): every access must be covered by a row
// with the same location, direction and guard.
package main

import (
	"encoding/json"
	"flag"
	"fmt"
	"go/ast"
	"go/parser"
	"go/token"
	"os"
	"path/filepath"
	"sort"
	"strings"
)

type fact struct {
	Fn     string `json:"fn"`
	Family string `json:"family"`
	Loc    string `json:"loc"`
	Write  bool   `json:"write"`
	Atomic bool   `json:"atomic"`
	Init   bool   `json:"init"`
	Lock   string `json:"lock"` // "" | "shard:R" | "shard:W" | "fLock:W" | "idxMu:W" | "invMu:W"
	Pos    string `json:"pos"`
}

var facts []fact

// maps / sync.Map: handing the reference around is not an access
var container = map[string]bool{"shardData": true, "syncData": true, "keyLocks": true, "idxOuter": true, "idxInner": true, "idxDeleters": true}
var fset = token.NewFileSet()

func recvName(fd *ast.FuncDecl) (string, bool) {
	if fd.Recv == nil || len(fd.Recv.List) == 0 {
		return "", false
	}
	t := fd.Recv.List[0].Type
	ptr := false
	if s, ok := t.(*ast.StarExpr); ok {
		t = s.X
		ptr = true
	}
	switch x := t.(type) {
	case *ast.Ident:
		return x.Name, ptr
	case *ast.IndexExpr:
		if id, ok := x.X.(*ast.Ident); ok {
			return id.Name, ptr
		}
	case *ast.IndexListExpr:
		if id, ok := x.X.(*ast.Ident); ok {
			return id.Name, ptr
		}
	}
	return "", ptr
}

func familyOf(recv string) []string {
	switch recv {
	case "shardedMap", "ShardedMap":
		return []string{"sharded"}
	case "shardedMapOf", "ShardedMapOf", "shardedMapLegacyWalkerOf", "TraitOf", "TraitEntryOf":
		return []string{"shardedOf"}
	case "syncMap", "SyncMap":
		return []string{"sync"}
	case "Trait", "TraitEntry":
		return []string{"sharded", "sync"}
	case "Failover", "FailoverOf", "InvalidationIndex", "Invalidator":
		return []string{"front"}
	}
	return nil
}

func lockName(recv string) string {
	switch recv {
	case "shardedMap", "shardedMapOf", "ShardedMap", "ShardedMapOf", "shardedMapLegacyWalkerOf":
		return "shard"
	case "Failover", "FailoverOf":
		return "fLock"
	case "InvalidationIndex":
		return "idxMu"
	case "Invalidator":
		return "invMu"
	}
	return ""
}

type ctx struct {
	fn, recv string
	held     string // current lock state
	deferred bool   // a defer Unlock was seen: the lock stays until the function ends
}

func exprText(e ast.Expr) string {
	switch x := e.(type) {
	case *ast.Ident:
		return x.Name
	case *ast.SelectorExpr:
		return exprText(x.X) + "." + x.Sel.Name
	case *ast.StarExpr:
		return "*" + exprText(x.X)
	case *ast.IndexExpr:
		return exprText(x.X) + "[]"
	case *ast.UnaryExpr:
		return x.Op.String() + exprText(x.X)
	case *ast.CallExpr:
		return exprText(x.Fun) + "()"
	case *ast.ParenExpr:
		return exprText(x.X)
	}
	return "?"
}

func (c *ctx) add(loc string, write, atomic, init bool, pos token.Pos) {
	for _, fam := range familyOf(c.recv) {
		p := fset.Position(pos)
		facts = append(facts, fact{Fn: c.fn, Family: fam, Loc: loc, Write: write, Atomic: atomic, Init: init, Lock: c.held,
			Pos: fmt.Sprintf("%s:%d", filepath.Base(p.Filename), p.Line)})
	}
}

// classify a selector / index expression as an access to a shared location
func (c *ctx) locOf(e ast.Expr) string {
	switch x := e.(type) {
	case *ast.SelectorExpr:
		switch x.Sel.Name {
		case "E":
			return "entryE"
		case "C":
			return "entryC"
		case "K", "V":
			return "entryKV"
		case "data":
			if strings.HasPrefix(strings.ToLower(c.recv), "syncmap") {
				return "syncData"
			}
			if lockName(c.recv) == "shard" {
				return "shardData"
			}
		case "keyLocks":
			return "keyLocks"
		case "labeledKeysByName":
			return "idxOuter"
		case "deleters":
			if c.recv == "InvalidationIndex" {
				return "idxDeleters"
			}
		case "lastRun":
			return "invLastRun"
		case "expirationsSet":
			return "expirationsSet"
		case "val", "err", "lock":
			if id, ok := x.X.(*ast.Ident); ok && (id.Name == "keyLock" || id.Name == "kl") {
				return "klFields"
			}
		}
	case *ast.Ident:
		if x.Name == "labeledKeys" && c.recv == "InvalidationIndex" {
			return "idxInner"
		}
	}
	return ""
}

// visit an expression in read position
func (c *ctx) read(e ast.Expr) {
	if e == nil {
		return
	}
	switch x := e.(type) {
	case *ast.FuncLit:
		c.block(x.Body) // a callback invoked synchronously: inherits the lock state
		return
	case *ast.CallExpr:
		fun := exprText(x.Fun)
		if strings.HasPrefix(fun, "atomic.") && len(x.Args) > 0 {
			if u, ok := x.Args[0].(*ast.UnaryExpr); ok && u.Op == token.AND {
				if loc := c.locOf(u.X); loc != "" {
					c.add(loc, !strings.HasPrefix(fun, "atomic.Load"), true, false, x.Pos())
					for _, a := range x.Args[1:] {
						c.read(a)
					}
					return
				}
			}
		}
		if fun == "delete" && len(x.Args) == 2 {
			if loc := c.locOf(x.Args[0]); loc != "" {
				c.add(loc, true, false, false, x.Pos())
				c.read(x.Args[1])
				return
			}
		}
		if sel, ok := x.Fun.(*ast.SelectorExpr); ok {
			if loc := c.locOf(sel.X); loc == "syncData" {
				w := sel.Sel.Name == "Store" || sel.Sel.Name == "Delete" || sel.Sel.Name == "LoadAndDelete" || sel.Sel.Name == "LoadOrStore"
				c.add("syncData", w, false, false, x.Pos())
				for _, a := range x.Args {
					c.read(a)
				}
				return
			}
		}
		if fun == "len" && len(x.Args) == 1 {
			if loc := c.locOf(x.Args[0]); loc != "" && container[loc] {
				c.add(loc, false, false, false, x.Pos())
				return
			}
		}
		if fun == "close" && len(x.Args) == 1 {
			if loc := c.locOf(x.Args[0]); loc != "" {
				c.add(loc, true, false, false, x.Pos())
				return
			}
		}
		c.read(x.Fun)
		for _, a := range x.Args {
			c.read(a)
		}
		return
	case *ast.CompositeLit:
		tn := exprText(x.Type)
		isEntry := strings.Contains(tn, "TraitEntry")
		for _, el := range x.Elts {
			if kv, ok := el.(*ast.KeyValueExpr); ok {
				if id, ok := kv.Key.(*ast.Ident); ok && isEntry {
					switch id.Name {
					case "E":
						c.add("entryE", true, false, true, kv.Pos())
					case "C":
						c.add("entryC", true, false, true, kv.Pos())
					case "K", "V":
						c.add("entryKV", true, false, true, kv.Pos())
					}
				}
				c.read(kv.Value)
			} else {
				c.read(el)
			}
		}
		return
	case *ast.SelectorExpr:
		if loc := c.locOf(x); loc != "" && !container[loc] {
			c.add(loc, false, false, false, x.Pos())
		}
		c.read(x.X)
		return
	case *ast.Ident:
		return
	case *ast.IndexExpr:
		if loc := c.locOf(x.X); loc != "" && container[loc] {
			c.add(loc, false, false, false, x.Pos())
			c.read(x.Index)
			return
		}
		c.read(x.X)
		c.read(x.Index)
		return
	case *ast.StarExpr:
		c.read(x.X)
		return
	case *ast.UnaryExpr:
		c.read(x.X)
		return
	case *ast.BinaryExpr:
		c.read(x.X)
		c.read(x.Y)
		return
	case *ast.ParenExpr:
		c.read(x.X)
		return
	case *ast.TypeAssertExpr:
		c.read(x.X)
		return
	case *ast.SliceExpr:
		c.read(x.X)
		c.read(x.Low)
		c.read(x.High)
		return
	case *ast.KeyValueExpr:
		c.read(x.Value)
		return
	}
}

// visit an expression in write position (left-hand side)
func (c *ctx) write(e ast.Expr) {
	switch x := e.(type) {
	case *ast.IndexExpr:
		if loc := c.locOf(x.X); loc != "" {
			c.add(loc, true, false, false, x.Pos())
			c.read(x.Index)
			return
		}
		c.read(x.X)
		c.read(x.Index)
	case *ast.SelectorExpr:
		if loc := c.locOf(x); loc != "" {
			c.add(loc, true, false, false, x.Pos())
			c.read(x.X)
			return
		}
		c.read(x.X)
	case *ast.Ident:
		// assignment to a local: `labeledKeys := ...` is a read of the right-hand side only
	case *ast.StarExpr:
		c.read(x.X)
	}
}

func (c *ctx) lockCall(call *ast.CallExpr) bool {
	sel, ok := call.Fun.(*ast.SelectorExpr)
	if !ok {
		return false
	}
	ln := lockName(c.recv)
	if ln == "" {
		return false
	}
	switch sel.Sel.Name {
	case "Lock":
		c.held = ln + ":W"
	case "RLock":
		c.held = ln + ":R"
	case "Unlock", "RUnlock":
		c.held = ""
	default:
		return false
	}
	return true
}

func (c *ctx) stmt(s ast.Stmt) {
	switch x := s.(type) {
	case nil:
	case *ast.ExprStmt:
		if call, ok := x.X.(*ast.CallExpr); ok && c.lockCall(call) {
			return
		}
		c.read(x.X)
	case *ast.DeferStmt:
		if sel, ok := x.Call.Fun.(*ast.SelectorExpr); ok && (sel.Sel.Name == "Unlock" || sel.Sel.Name == "RUnlock") {
			c.deferred = true
			return
		}
		if fl, ok := x.Call.Fun.(*ast.FuncLit); ok {
			sub := &ctx{fn: c.fn, recv: c.recv}
			sub.block(fl.Body)
			return
		}
		c.read(x.Call)
	case *ast.GoStmt:
		if fl, ok := x.Call.Fun.(*ast.FuncLit); ok {
			sub := &ctx{fn: c.fn, recv: c.recv}
			sub.block(fl.Body)
			return
		}
		c.read(x.Call)
	case *ast.AssignStmt:
		for _, r := range x.Rhs {
			c.read(r)
		}
		for _, l := range x.Lhs {
			if x.Tok == token.DEFINE {
				continue
			}
			c.write(l)
		}
	case *ast.IncDecStmt:
		c.write(x.X)
	case *ast.ReturnStmt:
		for _, r := range x.Results {
			c.read(r)
		}
	case *ast.IfStmt:
		c.stmt(x.Init)
		c.read(x.Cond)
		c.block(x.Body)
		c.stmt(x.Else)
	case *ast.BlockStmt:
		c.block(x)
	case *ast.ForStmt:
		c.stmt(x.Init)
		c.read(x.Cond)
		c.block(x.Body)
		c.stmt(x.Post)
	case *ast.RangeStmt:
		if loc := c.locOf(x.X); loc != "" && container[loc] {
			c.add(loc, false, false, false, x.Pos())
		} else {
			c.read(x.X)
		}
		c.block(x.Body)
	case *ast.SwitchStmt:
		c.stmt(x.Init)
		c.read(x.Tag)
		c.block(x.Body)
	case *ast.TypeSwitchStmt:
		c.stmt(x.Init)
		c.stmt(x.Assign)
		c.block(x.Body)
	case *ast.CaseClause:
		for _, e := range x.List {
			c.read(e)
		}
		for _, st := range x.Body {
			c.stmt(st)
		}
	case *ast.SelectStmt:
		c.block(x.Body)
	case *ast.CommClause:
		c.stmt(x.Comm)
		for _, st := range x.Body {
			c.stmt(st)
		}
	case *ast.SendStmt:
		c.read(x.Chan)
		c.read(x.Value)
	case *ast.DeclStmt:
		if gd, ok := x.Decl.(*ast.GenDecl); ok {
			for _, sp := range gd.Specs {
				if vs, ok := sp.(*ast.ValueSpec); ok {
					for _, v := range vs.Values {
						c.read(v)
					}
				}
			}
		}
	case *ast.LabeledStmt:
		c.stmt(x.Stmt)
	}
}

func (c *ctx) block(b *ast.BlockStmt) {
	if b == nil {
		return
	}
	for _, s := range b.List {
		c.stmt(s)
	}
}

func main() {
	repo := flag.String("repo", "/repo", "checkout of bool64/cache")
	flag.Parse()
	files, _ := filepath.Glob(filepath.Join(*repo, "*.go"))
	sort.Strings(files)
	for _, f := range files {
		if strings.HasSuffix(f, "_test.go") {
			continue
		}
		src, err := os.ReadFile(f)
		if err != nil {
			fmt.Fprintln(os.Stderr, err)
			os.Exit(1)
		}
		if strings.Contains(string(src[:min(len(src), 400)]), "go:build verif") {
			continue
		}
		af, err := parser.ParseFile(fset, f, src, 0)
		if err != nil {
			fmt.Fprintln(os.Stderr, err)
			os.Exit(1)
		}
		for _, d := range af.Decls {
			fd, ok := d.(*ast.FuncDecl)
			if !ok || fd.Body == nil {
				continue
			}
			recv, ptr := recvName(fd)
			if familyOf(recv) == nil {
				continue
			}
			c := &ctx{fn: "(*" + recv + ")." + fd.Name.Name, recv: recv}
			if !ptr && (recv == "TraitEntry" || recv == "TraitEntryOf") {
				// a value receiver: calling the method copies the whole entry struct with plain reads
				c.add("entryE", false, false, false, fd.Pos())
				c.add("entryC", false, false, false, fd.Pos())
				c.add("entryKV", false, false, false, fd.Pos())
			}
			c.block(fd.Body)
		}
	}
	// one line per distinct fact (positions merged)
	type key struct {
		Fn, Family, Loc, Lock string
		Write, Atomic, Init   bool
	}
	merged := map[key][]string{}
	for _, f := range facts {
		k := key{f.Fn, f.Family, f.Loc, f.Lock, f.Write, f.Atomic, f.Init}
		merged[k] = append(merged[k], f.Pos)
	}
	var out []fact
	for k, ps := range merged {
		sort.Strings(ps)
		out = append(out, fact{Fn: k.Fn, Family: k.Family, Loc: k.Loc, Write: k.Write, Atomic: k.Atomic, Init: k.Init, Lock: k.Lock, Pos: strings.Join(ps, ",")})
	}
	sort.Slice(out, func(i, j int) bool {
		a, b := out[i], out[j]
		return fmt.Sprint(a.Family, a.Fn, a.Loc, a.Write, a.Atomic, a.Lock) < fmt.Sprint(b.Family, b.Fn, b.Loc, b.Write, b.Atomic, b.Lock)
	})
	enc := json.NewEncoder(os.Stdout)
	for _, f := range out {
		_ = enc.Encode(f)
	}
}

func min(a, b int) int {
	if a < b {
		return a
	}
	return b
}
