module gofacts

go 1.21
