// opmut lists small syntactic mutations of the package in -repo (non-test, non-verif files): one JSON object per line with
// byte offsets, so that a driver can apply each to a scratch copy. It is a measuring instrument for the checks, not a check.
package main

import (
	"encoding/json"
	"flag"
	"fmt"
	"go/ast"
	"go/parser"
	"go/token"
	"os"
	"path/filepath"
	"sort"
	"strings"
)

type Mut struct {
	ID    string `json:"id"`
	File  string `json:"file"`
	Line  int    `json:"line"`
	Fn    string `json:"fn"`
	Kind  string `json:"kind"`
	Start int    `json:"start"`
	End   int    `json:"end"`
	Orig  string `json:"orig"`
	Repl  string `json:"repl"`
}

func main() {
	repo := flag.String("repo", "/repo", "")
	flag.Parse()
	files, _ := filepath.Glob(filepath.Join(*repo, "*.go"))
	sort.Strings(files)
	var out []Mut
	for _, f := range files {
		base := filepath.Base(f)
		if strings.HasSuffix(base, "_test.go") || strings.HasPrefix(base, "verif_") || base == "doc.go" || base == "noop.go" || base == "log.go" {
			continue
		}
		src, err := os.ReadFile(f)
		if err != nil {
			panic(err)
		}
		fset := token.NewFileSet()
		af, err := parser.ParseFile(fset, f, src, parser.ParseComments)
		if err != nil {
			panic(err)
		}
		off := func(p token.Pos) int { return fset.Position(p).Offset }
		for _, d := range af.Decls {
			fd, ok := d.(*ast.FuncDecl)
			if !ok || fd.Body == nil {
				continue
			}
			name := fd.Name.Name
			if fd.Recv != nil && len(fd.Recv.List) > 0 {
				t := fd.Recv.List[0].Type
				if s, ok := t.(*ast.StarExpr); ok {
					t = s.X
				}
				if ix, ok := t.(*ast.IndexExpr); ok {
					t = ix.X
				}
				if id, ok := t.(*ast.Ident); ok {
					name = id.Name + "." + name
				}
			}
			add := func(kind string, s, e int, repl string) {
				out = append(out, Mut{File: base, Line: fset.Position(token.Pos(fset.File(fd.Pos()).Base() + s)).Line, Fn: name, Kind: kind, Start: s, End: e, Orig: string(src[s:e]), Repl: repl})
			}
			ast.Inspect(fd.Body, func(n ast.Node) bool {
				switch x := n.(type) {
				case *ast.BinaryExpr:
					var repls []string
					switch x.Op {
					case token.EQL:
						repls = []string{"!="}
					case token.NEQ:
						repls = []string{"=="}
					case token.LSS:
						repls = []string{"<=", ">="}
					case token.LEQ:
						repls = []string{"<", ">"}
					case token.GTR:
						repls = []string{">=", "<="}
					case token.GEQ:
						repls = []string{">", "<"}
					case token.LAND:
						repls = []string{"||"}
					case token.LOR:
						repls = []string{"&&"}
					case token.ADD:
						if _, isStr := x.X.(*ast.BasicLit); !isStr {
							if _, isStr2 := x.Y.(*ast.BasicLit); !isStr2 {
								repls = []string{"-"}
							}
						}
					case token.SUB:
						repls = []string{"+"}
					}
					s := off(x.OpPos)
					for _, r := range repls {
						add("binop", s, s+len(x.Op.String()), r)
					}
				case *ast.UnaryExpr:
					if x.Op == token.NOT {
						add("unnot", off(x.OpPos), off(x.OpPos)+1, "")
					}
				case *ast.ExprStmt:
					if _, ok := x.X.(*ast.CallExpr); ok {
						add("delcall", off(x.Pos()), off(x.End()), "")
					}
				case *ast.DeferStmt:
					add("deldefer", off(x.Pos()), off(x.End()), "")
				case *ast.IncDecStmt:
					add("delincdec", off(x.Pos()), off(x.End()), "")
				case *ast.AssignStmt:
					if x.Tok == token.ADD_ASSIGN {
						add("assignop", off(x.TokPos), off(x.TokPos)+2, "-=")
					}
					if x.Tok == token.ASSIGN && len(x.Lhs) == 1 {
						// drop a plain store to a field / variable (x.f = v)
						if _, isSel := x.Lhs[0].(*ast.SelectorExpr); isSel {
							add("delstore", off(x.Pos()), off(x.End()), "")
						}
					}
				case *ast.IfStmt:
					if x.Init == nil {
						add("iftrue", off(x.Cond.Pos()), off(x.Cond.End()), "true")
						add("iffalse", off(x.Cond.Pos()), off(x.Cond.End()), "false")
					}
				}
				return true
			})
		}
	}
	for i := range out {
		out[i].ID = fmt.Sprintf("M%04d", i)
		b, _ := json.Marshal(out[i])
		fmt.Println(string(b))
	}
}
