module opmut

go 1.18
