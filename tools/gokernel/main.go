// gokernel (L1): regenerates the decision kernels of the Lean model from the Go source of bool64/cache.
//
// It finds a fixed list of EXPRESSIONS in /repo/*.go by structural selectors (function + receiver + "the if-condition
// that mentions X", never line numbers), translates a small whitelisted expression language into Lean and prints
// lean/CacheModel/Gen.lean. A kernel that cannot be found or translated falls back to the checked-in snapshot and is
// reported as such; nothing else is guessed.
package main

import (
	"bytes"
	"encoding/json"
	"flag"
	"fmt"
	"go/ast"
	"go/parser"
	"go/printer"
	"go/token"
	"os"
	"path/filepath"
	"regexp"
	"sort"
	"strconv"
	"strings"
)

type kernel struct {
	name                 string
	file                 string
	recv                 string // receiver type name without * and type params ("" = plain function)
	fn                   string
	kind                 string   // ifcond | assign | return | constdecl | defaultval | callarg
	must                 []string // the expression text must contain all of these
	mustNo               []string
	lhs                  string            // assign/defaultval: text of the left-hand side
	vars                 map[string]string // Go sub-expression text -> Lean term
	sig                  string            // Lean binder list and result type
	unit                 string            // defaultval/constdecl: "dur" (nanoseconds) | "int" | "ratN" | "ratD"
	also                 []kernel          // further sites that must yield the very same Lean text (or its syntactic negation: a guard clause)
	noSiblings           bool              // internal: do not search sibling functions
	trueMeansReturnsTrue bool              // the kernel is "the function returns true as its last result": an if whose body returns false holds its negation
	doc                  string
}

var fset = token.NewFileSet()
var files = map[string]*ast.File{}

// package-level constants (name -> value expression): a literal replaced by a named constant keeps its kernel
var consts = map[string]ast.Expr{}

// locals of the function being translated that are assigned exactly once (name -> right-hand side): a condition given a
// name (`sameKey := found && bytes.Equal(..)`; `if !sameKey`) is translated through its definition
var locals = map[string]ast.Expr{}

func collectConsts() {
	for _, f := range files {
		for _, d := range f.Decls {
			if gd, ok := d.(*ast.GenDecl); ok && gd.Tok == token.CONST {
				for _, sp := range gd.Specs {
					vs := sp.(*ast.ValueSpec)
					for i, n := range vs.Names {
						if i < len(vs.Values) {
							consts[n.Name] = vs.Values[i]
						}
					}
				}
			}
		}
	}
}

// where things happen in the function being translated (for value aliases, see expand)
var (
	fnWrites []posText   // every assignment / inc-dec: text of its left-hand side
	fnCalls  []token.Pos // every call expression
)

type posText struct {
	pos token.Pos
	txt string
}

func collectLocals(fd *ast.FuncDecl) {
	locals = map[string]ast.Expr{}
	fnWrites, fnCalls = nil, nil
	count := map[string]int{}
	ast.Inspect(fd.Body, func(n ast.Node) bool {
		switch x := n.(type) {
		case *ast.CallExpr:
			fnCalls = append(fnCalls, x.Pos())
		case *ast.AssignStmt:
			for _, l := range x.Lhs {
				fnWrites = append(fnWrites, posText{x.Pos(), text(l)})
			}
			for i, l := range x.Lhs {
				if id, ok := l.(*ast.Ident); ok {
					count[id.Name]++
					if len(x.Lhs) == len(x.Rhs) {
						locals[id.Name] = x.Rhs[i]
					} else {
						count[id.Name] += 10 // multi-value assignment: not a definition we can inline
					}
				}
			}
		case *ast.IncDecStmt:
			fnWrites = append(fnWrites, posText{x.Pos(), text(x.X)})
			if id, ok := x.X.(*ast.Ident); ok {
				count[id.Name] += 10
			}
		case *ast.ValueSpec:
			for i, n := range x.Names {
				count[n.Name]++
				if i < len(x.Values) {
					locals[n.Name] = x.Values[i]
				}
			}
		}
		return true
	})
	for n, c := range count {
		if c != 1 {
			delete(locals, n)
		}
	}
}

func text(n ast.Node) string {
	var b bytes.Buffer
	_ = printer.Fprint(&b, fset, n)
	return strings.Join(strings.Fields(b.String()), " ")
}

func recvName(fd *ast.FuncDecl) string {
	if fd.Recv == nil || len(fd.Recv.List) == 0 {
		return ""
	}
	t := fd.Recv.List[0].Type
	for {
		switch x := t.(type) {
		case *ast.StarExpr:
			t = x.X
			continue
		case *ast.IndexExpr:
			t = x.X
			continue
		case *ast.IndexListExpr:
			t = x.X
			continue
		case *ast.Ident:
			return x.Name
		}
		return ""
	}
}

func findFunc(file, recv, fn string) (*ast.FuncDecl, error) {
	f, ok := files[file]
	if !ok {
		return nil, fmt.Errorf("file %s not parsed", file)
	}
	for _, d := range f.Decls {
		if fd, ok := d.(*ast.FuncDecl); ok && fd.Name.Name == fn && recvName(fd) == recv && fd.Body != nil {
			return fd, nil
		}
	}
	return nil, fmt.Errorf("function %s.%s not found in %s", recv, fn, file)
}

// embeddedFields lists the embedded fields of struct type `name` declared in file (they would promote methods).
func embeddedFields(file, name string) string {
	f := files[file]
	out := ""
	if f == nil {
		return "?"
	}
	for _, d := range f.Decls {
		gd, ok := d.(*ast.GenDecl)
		if !ok {
			continue
		}
		for _, sp := range gd.Specs {
			ts, ok := sp.(*ast.TypeSpec)
			if !ok || ts.Name.Name != name {
				continue
			}
			st, ok := ts.Type.(*ast.StructType)
			if !ok {
				return "not-a-struct"
			}
			for _, fl := range st.Fields.List {
				if len(fl.Names) == 0 {
					out += text(fl.Type) + " "
				}
			}
		}
	}
	return strings.TrimSpace(out)
}

func matches(t string, k kernel) bool {
	for _, m := range k.must {
		if !strings.Contains(t, m) {
			return false
		}
	}
	for _, m := range k.mustNo {
		if strings.Contains(t, m) {
			return false
		}
	}
	return true
}

func isBoolExpr(e ast.Expr) bool {
	switch x := e.(type) {
	case *ast.ParenExpr:
		return isBoolExpr(x.X)
	case *ast.BinaryExpr:
		switch x.Op {
		case token.LAND, token.LOR, token.EQL, token.NEQ, token.LSS, token.LEQ, token.GTR, token.GEQ:
			return true
		}
	case *ast.UnaryExpr:
		return x.Op == token.NOT
	}
	return false
}

// expand is the text of an expression with the function's single-assignment locals replaced by their definitions: a branch
// condition that was given a name (`sameKey := found && bytes.Equal(..)`; `if !sameKey`) is recognised by what it tests,
// with the polarity it is used with.
func expand(e ast.Expr) string {
	t := text(e)
	for i := 0; i < 3; i++ {
		changed := false
		for name, def := range locals {
			if !isBoolExpr(def) && !isFreshAlias(def, e.Pos()) {
				continue // only named CONDITIONS are looked through; other locals (now, beforeTS, ttl ..) are what kernels are about
				// - and VALUE ALIASES: a local defined once as a plain read (`current := *existing`), when nothing between its
				// definition and the condition can have changed what it read (no write to that expression, no call at all)
			}
			re := regexp.MustCompile(`\b` + regexp.QuoteMeta(name) + `\b`)
			if re.MatchString(t) && !strings.Contains(text(def), name) {
				t = re.ReplaceAllString(t, "("+text(def)+")")
				changed = true
			}
		}
		if !changed {
			break
		}
	}
	return t
}

// isFreshAlias: def is a pure read (identifier / selector / dereference chain) and between def and use there is neither a
// write to that very expression nor any call.
func isFreshAlias(def ast.Expr, use token.Pos) bool {
	var pure func(e ast.Expr) bool
	pure = func(e ast.Expr) bool {
		switch x := e.(type) {
		case *ast.Ident:
			return true
		case *ast.SelectorExpr:
			return pure(x.X)
		case *ast.StarExpr:
			return pure(x.X)
		case *ast.ParenExpr:
			return pure(x.X)
		}
		return false
	}
	if _, isIdent := def.(*ast.Ident); isIdent || !pure(def) {
		return false // (a bare identifier is a rename of a local: leave those to the kernels' own variable maps)
	}
	dt := text(def)
	for _, w := range fnWrites {
		if w.pos > def.End() && w.pos < use && w.txt == dt {
			return false
		}
	}
	for _, c := range fnCalls {
		if c > def.End() && c < use {
			return false
		}
	}
	return true
}

// locate returns the Go expression a kernel refers to.
func locate(k kernel) (ast.Expr, error) {
	if k.kind == "constdecl" {
		f := files[k.file]
		if f == nil {
			return nil, fmt.Errorf("file %s not parsed", k.file)
		}
		for _, d := range f.Decls {
			if gd, ok := d.(*ast.GenDecl); ok && gd.Tok == token.CONST {
				for _, s := range gd.Specs {
					vs := s.(*ast.ValueSpec)
					for i, n := range vs.Names {
						if n.Name == k.lhs && i < len(vs.Values) {
							return vs.Values[i], nil
						}
					}
				}
			}
		}
		return nil, fmt.Errorf("const %s not found", k.lhs)
	}
	fd, err := findFunc(k.file, k.recv, k.fn)
	if err != nil {
		return nil, err
	}
	collectLocals(fd)
	var found []ast.Expr
	ast.Inspect(fd.Body, func(n ast.Node) bool {
		switch x := n.(type) {
		case *ast.IfStmt:
			if k.kind == "ifcond" && (matches(text(x.Cond), k) || matches(expand(x.Cond), k)) {
				found = append(found, x.Cond)
			}
		case *ast.AssignStmt:
			if (k.kind == "assign" || k.kind == "defaultval") && len(x.Lhs) == 1 && len(x.Rhs) == 1 && text(x.Lhs[0]) == k.lhs && matches(text(x.Rhs[0]), k) {
				found = append(found, x.Rhs[0])
			}
		case *ast.ReturnStmt:
			if k.kind == "return" {
				for _, r := range x.Results {
					if matches(text(r), k) {
						found = append(found, r)
					}
				}
			}
		case *ast.CallExpr:
			if k.kind == "callarg" && matches(text(x), k) {
				found = append(found, x)
			}
		}
		return true
	})
	if k.trueMeansReturnsTrue && len(found) == 0 {
		// the decision handed back directly: `return .., <expr>, ..` (possibly through a named local) where <expr> mentions what
		// the kernel is about - same polarity as `if <expr> { return .., true }`
		ast.Inspect(fd.Body, func(n ast.Node) bool {
			if rs, ok := n.(*ast.ReturnStmt); ok {
				for _, r := range rs.Results {
					if t := text(r); t != "true" && t != "false" && (matches(t, k) || matches(expand(r), k)) {
						if _, isCall := r.(*ast.CallExpr); !isCall {
							found = append(found, r)
						}
					}
				}
			}
			return true
		})
	}
	if k.trueMeansReturnsTrue && len(found) == 0 {
		// ctxSync-shaped functions: `if cond { return .., false }` followed by a final `return .., true` holds the negation
		last := fd.Body.List[len(fd.Body.List)-1]
		if rs, ok := last.(*ast.ReturnStmt); ok && len(rs.Results) > 0 && text(rs.Results[len(rs.Results)-1]) == "true" {
			ast.Inspect(fd.Body, func(n ast.Node) bool {
				if is, ok := n.(*ast.IfStmt); ok && is.Else == nil && (matches(text(is.Cond), k) || matches(expand(is.Cond), k)) && len(is.Body.List) > 0 {
					if r2, ok := is.Body.List[len(is.Body.List)-1].(*ast.ReturnStmt); ok && len(r2.Results) > 0 && text(r2.Results[len(r2.Results)-1]) == "false" {
						found = append(found, negate(is.Cond))
					}
				}
				return true
			})
		}
	}
	if len(found) == 0 && !k.noSiblings && len(k.must) > 0 {
		// the code may have been moved into a helper: look for a unique match in the other functions of the same receiver / file
		var hits []ast.Expr
		for _, d := range files[k.file].Decls {
			other, ok := d.(*ast.FuncDecl)
			if !ok || other.Body == nil || other == fd || recvName(other) != k.recv {
				continue
			}
			k2 := k
			k2.fn, k2.noSiblings = other.Name.Name, true
			if e, err := locate(k2); err == nil {
				hits = append(hits, e)
			}
		}
		same := len(hits) > 0
		for _, h := range hits {
			if text(h) != text(hits[0]) {
				same = false
			}
		}
		if same {
			return hits[0], nil
		}
		collectLocals(fd)
	}
	if len(found) == 0 {
		return nil, fmt.Errorf("no %s matching %v in %s.%s", k.kind, k.must, k.recv, k.fn)
	}
	// all matches must be textually identical (e.g. the same guard used at several sites of one function)
	for _, e := range found[1:] {
		if text(e) != text(found[0]) {
			return nil, fmt.Errorf("ambiguous %s in %s.%s: %q vs %q", k.kind, k.recv, k.fn, text(found[0]), text(e))
		}
	}
	return found[0], nil
}

var durUnits = map[string]int64{"time.Nanosecond": 1, "time.Microsecond": 1e3, "time.Millisecond": 1e6, "time.Second": 1e9, "time.Minute": 60e9, "time.Hour": 3600e9}

// evalInt evaluates integer / duration constant expressions.
func evalInt(e ast.Expr) (int64, error) {
	if id, ok := e.(*ast.Ident); ok {
		if def, ok := consts[id.Name]; ok {
			return evalInt(def)
		}
	}
	switch x := e.(type) {
	case *ast.BasicLit:
		if x.Kind == token.INT {
			return strconv.ParseInt(x.Value, 0, 64)
		}
	case *ast.ParenExpr:
		return evalInt(x.X)
	case *ast.UnaryExpr:
		if x.Op == token.SUB {
			v, err := evalInt(x.X)
			return -v, err
		}
	case *ast.SelectorExpr:
		if u, ok := durUnits[text(x)]; ok {
			return u, nil
		}
	case *ast.CallExpr:
		if t := text(x.Fun); (t == "time.Duration" || t == "int64" || t == "int") && len(x.Args) == 1 {
			return evalInt(x.Args[0])
		}
	case *ast.BinaryExpr:
		l, err := evalInt(x.X)
		if err != nil {
			return 0, err
		}
		r, err := evalInt(x.Y)
		if err != nil {
			return 0, err
		}
		switch x.Op {
		case token.MUL:
			return l * r, nil
		case token.ADD:
			return l + r, nil
		case token.SUB:
			return l - r, nil
		}
	}
	return 0, fmt.Errorf("not a constant integer expression: %s", text(e))
}

// toLean translates the whitelisted expression language.
func toLean(e ast.Expr, vars map[string]string) (string, error) {
	if v, ok := vars[text(e)]; ok {
		return v, nil
	}
	for pat, v := range vars {
		if strings.HasPrefix(pat, "re:") && regexp.MustCompile("^(?:"+pat[3:]+")$").MatchString(text(e)) {
			return v, nil
		}
	}
	if id, ok := e.(*ast.Ident); ok {
		if def, ok := locals[id.Name]; ok {
			delete(locals, id.Name) // no cycles
			s, err := toLean(def, vars)
			locals[id.Name] = def
			if err == nil {
				return "(" + s + ")", nil
			}
		}
		if def, ok := consts[id.Name]; ok {
			if s, err := toLean(def, vars); err == nil {
				return s, nil
			}
		}
	}
	switch x := e.(type) {
	case *ast.ParenExpr:
		s, err := toLean(x.X, vars)
		return "(" + s + ")", err
	case *ast.BasicLit:
		if x.Kind == token.INT {
			return x.Value, nil
		}
	case *ast.Ident:
		switch x.Name {
		case "true", "false":
			return x.Name, nil
		case "DefaultTTL":
			return "0", nil
		case "UnlimitedTTL":
			return "-1", nil
		}
	case *ast.UnaryExpr:
		s, err := toLean(x.X, vars)
		if err != nil {
			return "", err
		}
		switch x.Op {
		case token.NOT:
			return "!" + s, nil
		case token.SUB:
			return "-" + s, nil
		}
	case *ast.BinaryExpr:
		l, err := toLean(x.X, vars)
		if err != nil {
			return "", err
		}
		r, err := toLean(x.Y, vars)
		if err != nil {
			return "", err
		}
		switch x.Op {
		case token.LAND:
			return l + " && " + r, nil
		case token.LOR:
			return l + " || " + r, nil
		case token.EQL:
			return l + " == " + r, nil
		case token.NEQ:
			return l + " != " + r, nil
		case token.LSS:
			return l + " < " + r, nil
		case token.LEQ:
			return l + " <= " + r, nil
		case token.GTR:
			return l + " > " + r, nil
		case token.GEQ:
			return l + " >= " + r, nil
		case token.ADD:
			return l + " + " + r, nil
		case token.SUB:
			return l + " - " + r, nil
		case token.MUL:
			return l + " * " + r, nil
		}
	}
	if v, err := evalInt(e); err == nil {
		return fmt.Sprint(v), nil
	}
	return "", fmt.Errorf("untranslatable expression %q", text(e))
}

func ratOf(lit string) (int64, int64, error) {
	// decimal literal -> exact fraction
	if !regexp.MustCompile(`^[0-9]*\.?[0-9]+$`).MatchString(lit) {
		return 0, 0, fmt.Errorf("not a decimal literal: %s", lit)
	}
	parts := strings.SplitN(lit, ".", 2)
	if len(parts) == 1 {
		n, err := strconv.ParseInt(parts[0], 10, 64)
		return n, 1, err
	}
	n, err := strconv.ParseInt(parts[0]+parts[1], 10, 64)
	d := int64(1)
	for range parts[1] {
		d *= 10
	}
	for _, p := range []int64{2, 5} {
		for n%p == 0 && d%p == 0 && d > 1 {
			n, d = n/p, d/p
		}
	}
	return n, d, err
}

// negate returns the syntactic negation of a comparison / boolean expression (comparisons flipped, De Morgan).
func negate(e ast.Expr) ast.Expr {
	switch x := e.(type) {
	case *ast.ParenExpr:
		return negate(x.X)
	case *ast.UnaryExpr:
		if x.Op == token.NOT {
			return x.X
		}
	case *ast.BinaryExpr:
		flip := map[token.Token]token.Token{token.EQL: token.NEQ, token.NEQ: token.EQL, token.LSS: token.GEQ, token.GEQ: token.LSS, token.GTR: token.LEQ, token.LEQ: token.GTR}
		if op, ok := flip[x.Op]; ok {
			return &ast.BinaryExpr{X: x.X, Op: op, Y: x.Y}
		}
		if x.Op == token.LAND {
			return &ast.BinaryExpr{X: negate(x.X), Op: token.LOR, Y: negate(x.Y)}
		}
		if x.Op == token.LOR {
			return &ast.BinaryExpr{X: negate(x.X), Op: token.LAND, Y: negate(x.Y)}
		}
	}
	return &ast.UnaryExpr{Op: token.NOT, X: e}
}

// render produces the Lean definition line(s) of a kernel.
// fact evaluates a structural fact of a function's text (the skeleton the model is written against) to a Bool.
func fact(k kernel) (bool, string, error) {
	fd, err := findFunc(k.file, k.recv, k.fn)
	if err != nil {
		return false, "", err
	}
	switch k.unit {
	case "keylocks-by-key":
		// every access to the key-lock table is indexed by string(key) of the function's own key parameter
		n, bad := 0, ""
		ast.Inspect(fd.Body, func(x ast.Node) bool {
			switch y := x.(type) {
			case *ast.IndexExpr:
				if strings.HasSuffix(text(y.X), ".keyLocks") {
					n++
					if text(y.Index) != "string(key)" {
						bad = text(y)
					}
				}
			case *ast.CallExpr:
				if text(y.Fun) == "delete" && len(y.Args) == 2 && strings.HasSuffix(text(y.Args[0]), ".keyLocks") {
					n++
					if text(y.Args[1]) != "string(key)" {
						bad = text(y)
					}
				}
			}
			return true
		})
		if n == 0 {
			return false, "", fmt.Errorf("no access to keyLocks in %s.%s", k.recv, k.fn)
		}
		return bad == "", fmt.Sprintf("%d accesses to keyLocks, all indexed by string(key): %v %s", n, bad == "", bad), nil
	case "bg-key-copied":
		// `key = append([]byte(nil), key...)` is a statement of the function body that precedes the `go` statement, and the
		// goroutine's body does not mention any other slice holding the key
		copied, goSeen, ok := false, false, false
		for _, st := range fd.Body.List {
			if as, isA := st.(*ast.AssignStmt); isA && (text(as) == "key = append([]byte(nil), key...)" || text(as) == "key = bytes.Clone(key)") {
				copied = true
			}
			if _, isGo := st.(*ast.GoStmt); isGo {
				goSeen = true
				ok = copied
			}
		}
		if !goSeen {
			return false, "", fmt.Errorf("no go statement at the top level of %s.%s", k.recv, k.fn)
		}
		return ok, fmt.Sprintf("key copied before the go statement: %v", ok), nil
	case "stored-key-copied":
		// the entry literal stores a slice made and filled in this function: `key := make([]byte, len(k)); copy(key, k)` ... `K: key`
		mk, cp, lit := false, false, false
		ast.Inspect(fd.Body, func(x ast.Node) bool {
			switch y := x.(type) {
			case *ast.AssignStmt:
				switch text(y) {
				case "key := make([]byte, len(k))":
					mk = true
				case "key := append([]byte(nil), k...)", "key := bytes.Clone(k)", "key := append(make([]byte, 0, len(k)), k...)":
					mk, cp = true, true // other spellings of "a fresh slice with the key's bytes"
				}
			case *ast.CallExpr:
				if text(y) == "copy(key, k)" {
					cp = true
				}
			case *ast.KeyValueExpr:
				if text(y.Key) == "K" && text(y.Value) == "key" {
					lit = true
				}
			}
			return true
		})
		return mk && cp && lit, fmt.Sprintf("make=%v copy=%v literal-stores-the-copy=%v", mk, cp, lit), nil
	case "returns":
		// the function body is a single `return r1, r2, ..` with exactly these result texts ("re:" = regular expression); for
		// methods of a struct type the type must have no embedded field (an embedded field would contribute promoted methods)
		if len(fd.Body.List) != 1 {
			return false, fmt.Sprintf("body has %d statements, expected a single return", len(fd.Body.List)), nil
		}
		rs, isRet := fd.Body.List[0].(*ast.ReturnStmt)
		if !isRet || len(rs.Results) != len(k.must) {
			return false, "body is not `return` of " + fmt.Sprint(len(k.must)) + " results: " + text(fd.Body.List[0]), nil
		}
		ok := true
		for i, want := range k.must {
			got := text(rs.Results[i])
			if strings.HasPrefix(want, "re:") {
				if !regexp.MustCompile("^(?:" + want[3:] + ")$").MatchString(got) {
					ok = false
				}
			} else if got != want {
				ok = false
			}
		}
		emb := embeddedFields(k.file, k.recv)
		return ok && emb == "", fmt.Sprintf("`%s` embedded fields of %s: %q", text(rs), k.recv, emb), nil
	case "ctxsync-returns":
		// ctxSync hands the caller's own context to a synchronous build and `detachedContext{ctx}` to a background one:
		// its return statements are exactly `return ctx, true` and `return detachedContext{ctx}, false`
		var rets []string
		ast.Inspect(fd.Body, func(x ast.Node) bool {
			if r, isR := x.(*ast.ReturnStmt); isR {
				parts := []string{}
				for _, e := range r.Results {
					parts = append(parts, text(e))
				}
				rets = append(rets, strings.Join(parts, ", "))
			}
			return true
		})
		sort.Strings(rets)
		got := strings.Join(rets, " | ")
		return got == "ctx, true | detachedContext{ctx}, false" || got == "ctx, true | detachedContext{parent: ctx}, false", "return statements: " + got, nil
	case "backendcfg-passthrough", "backendcfg-identity":
		// the constructor hands cfg.BackendConfig to the default backend (`cfg.BackendConfig.Use`); the only fields of it that it
		// writes are Name, Logger and Stats (passthrough), and Name / Stats are taken from the failover's own (identity)
		written := map[string]string{}
		other := ""
		uses := false
		ast.Inspect(fd.Body, func(x ast.Node) bool {
			switch y := x.(type) {
			case *ast.AssignStmt:
				for i, l := range y.Lhs {
					lt := text(l)
					if strings.HasPrefix(lt, "cfg.BackendConfig.") && len(y.Lhs) == len(y.Rhs) && y.Tok == token.ASSIGN {
						written[strings.TrimPrefix(lt, "cfg.BackendConfig.")] = text(y.Rhs[i])
					} else if strings.HasPrefix(lt, "cfg.BackendConfig") {
						other = text(y)
					}
				}
			case *ast.IncDecStmt:
				if strings.HasPrefix(text(y.X), "cfg.BackendConfig") {
					other = text(y)
				}
			case *ast.UnaryExpr:
				if y.Op == token.AND && strings.HasPrefix(text(y.X), "cfg.BackendConfig") {
					other = text(y) // (its address escapes: anything may write it)
				}
			case *ast.CallExpr:
				if len(y.Args) == 1 && text(y.Args[0]) == "cfg.BackendConfig.Use" && strings.HasPrefix(text(y.Fun), "NewShardedMap") {
					uses = true
				}
			}
			return true
		})
		fields := []string{}
		for f := range written {
			fields = append(fields, f)
		}
		sort.Strings(fields)
		if k.unit == "backendcfg-passthrough" {
			ok := uses && other == ""
			for _, f := range fields {
				if f != "Name" && f != "Logger" && f != "Stats" {
					ok = false
				}
			}
			return ok, fmt.Sprintf("default backend built from cfg.BackendConfig.Use: %v; fields of BackendConfig written: %v %s", uses, fields, other), nil
		}
		ok := uses && written["Name"] == "cfg.Name" && written["Stats"] == "cfg.Stats"
		return ok, fmt.Sprintf("BackendConfig.Name = %q, BackendConfig.Stats = %q", written["Name"], written["Stats"]), nil
	}
	return false, "", fmt.Errorf("unknown fact %q", k.unit)
}

func render(k kernel) (string, string, error) {
	if k.kind == "fact" {
		v, why, err := fact(k)
		if err != nil {
			return "", "", err
		}
		recv := k.recv
		if recv != "" {
			recv += "."
		}
		return fmt.Sprintf("/-- %s %s%s: %s -/\ndef %s : Bool := %v", k.file, recv, k.fn, why, k.name, v), why, nil
	}
	e, err := locate(k)
	if err != nil {
		return "", "", err
	}
	goText := text(e)
	var body string
	switch k.kind {
	case "ifcond", "assign", "return":
		body, err = toLean(e, k.vars)
		if err != nil {
			return "", "", err
		}
		body = "(" + strings.TrimSuffix(strings.TrimPrefix(body, "("), ")") + ")"
		if strings.Count(body, "(") != strings.Count(body, ")") || strings.HasPrefix(strings.TrimPrefix(body, "("), ")") {
			body, _ = toLean(e, k.vars)
			body = "(" + body + ")"
		}
	case "constdecl", "defaultval":
		switch k.unit {
		case "ratN", "ratD":
			if id, isId := e.(*ast.Ident); isId {
				if def, ok := consts[id.Name]; ok {
					e = def
				}
			}
			lit, ok := e.(*ast.BasicLit)
			if !ok {
				return "", "", fmt.Errorf("%s: not a literal: %s", k.name, goText)
			}
			n, d, err := ratOf(lit.Value)
			if err != nil {
				return "", "", err
			}
			if k.unit == "ratN" {
				body = fmt.Sprint(n)
			} else {
				body = fmt.Sprint(d)
			}
		default:
			v, err := evalInt(e)
			if err != nil {
				return "", "", err
			}
			body = fmt.Sprint(v)
		}
	case "callarg":
		call := e.(*ast.CallExpr)
		switch k.unit {
		case "arg3bool": // WithTTL(ctx, ttl, <bool literal>)
			if len(call.Args) != 3 {
				return "", "", fmt.Errorf("%s: expected 3 arguments in %s", k.name, goText)
			}
			body = text(call.Args[2])
			if body != "true" && body != "false" {
				return "", "", fmt.Errorf("%s: third argument is not a literal: %s", k.name, body)
			}
		case "ctxreset": // X.Write(<ctx expr>, key, err): does the context expression reset the ttl?
			if len(call.Args) < 1 {
				return "", "", fmt.Errorf("%s: no arguments in %s", k.name, goText)
			}
			switch a := text(call.Args[0]); a {
			case "WithTTL(ctx, DefaultTTL, false)", "WithTTL(ctx, 0, false)":
				body = "true"
			case "ctx":
				body = "false"
			default:
				return "", "", fmt.Errorf("%s: unrecognised context argument %q", k.name, a)
			}
		}
	}
	for _, a := range k.also {
		a2 := a
		a2.name, a2.sig, a2.vars, a2.unit = k.name, k.sig, k.vars, k.unit
		if a2.kind == "" {
			a2.kind = k.kind
		}
		if a2.must == nil {
			a2.must = k.must
		}
		other, _, err := render(a2)
		if err != nil {
			return "", "", fmt.Errorf("site %s.%s: %v", a.recv, a.fn, err)
		}
		mine := fmt.Sprintf("def %s %s := %s", k.name, k.sig, body)
		if !strings.HasSuffix(other, mine) {
			// the same decision written as a guard clause (`if !(cond) { return }`) is the same decision
			negOK := false
			if eo, err := locate(a2); err == nil {
				if nb, err := toLean(negate(eo), k.vars); err == nil {
					nb = "(" + strings.TrimSuffix(strings.TrimPrefix(nb, "("), ")") + ")"
					negOK = nb == body || strings.ReplaceAll(nb, " ", "") == strings.ReplaceAll(body, " ", "")
				}
			}
			if !negOK {
				return "", "", fmt.Errorf("sites disagree: %s.%s has a different expression", a.recv, a.fn)
			}
		}
	}
	recv := k.recv
	if recv != "" {
		recv += "."
	}
	doc := fmt.Sprintf("/-- %s %s%s: `%s` -/", k.file, recv, k.fn, goText)
	if k.kind == "constdecl" {
		doc = fmt.Sprintf("/-- %s: `const %s = %s` -/", k.file, k.lhs, goText)
	}
	return doc + "\n" + fmt.Sprintf("def %s %s := %s", k.name, k.sig, body), goText, nil
}

func main() {
	repo := flag.String("repo", "/repo", "path of bool64/cache")
	snapshot := flag.String("snapshot", "", "GenSnapshot.lean.txt (fallback definitions)")
	flag.Parse()
	matchesGo, _ := filepath.Glob(filepath.Join(*repo, "*.go"))
	for _, p := range matchesGo {
		if strings.HasSuffix(p, "_test.go") {
			continue
		}
		f, err := parser.ParseFile(fset, p, nil, 0)
		if err != nil {
			fmt.Fprintf(os.Stderr, "gokernel: %v\n", err)
			os.Exit(1)
		}
		files[filepath.Base(p)] = f
	}
	collectConsts()
	snap := map[string]string{}
	if *snapshot != "" {
		if b, err := os.ReadFile(*snapshot); err == nil {
			lines := strings.Split(string(b), "\n")
			re := regexp.MustCompile(`^def (\w+) `)
			for i, l := range lines {
				if m := re.FindStringSubmatch(l); m != nil {
					d := l
					if i > 0 && strings.HasPrefix(lines[i-1], "/--") {
						d = lines[i-1] + "\n" + l
					}
					snap[m[1]] = d
				}
			}
		}
	}
	tie := map[string]string{}
	var out strings.Builder
	out.WriteString("/-\n  GENERATED by tools/gokernel from the Go source of bool64/cache on every run. Do not edit.\n" +
		"  Each definition is the translation of one decision expression (or constant / call argument) of the code.\n-/\nnamespace Cache.Gen\n-- BEGIN KERNELS\n")
	for _, k := range kernels() {
		def, _, err := render(k)
		if err != nil {
			if s, ok := snap[k.name]; ok {
				out.WriteString(s + "\n")
				tie[k.name] = "fallback(" + err.Error() + ")"
				continue
			}
			fmt.Fprintf(os.Stderr, "gokernel: kernel %s: %v (and no snapshot definition)\n", k.name, err)
			os.Exit(1)
		}
		defLine := def[strings.LastIndex(def, "\n")+1:]
		if s, ok := snap[k.name]; ok && s[strings.LastIndex(s, "\n")+1:] == defLine {
			def = s // same definition (only the quoted Go text in the doc comment moved): keep Gen.lean byte-identical
		}
		out.WriteString(def + "\n")
		if s, ok := snap[k.name]; ok && s == def {
			tie[k.name] = "regenerated-equal"
		} else if ok {
			tie[k.name] = "regenerated-CHANGED"
		} else {
			tie[k.name] = "regenerated-new"
		}
	}
	out.WriteString("-- END KERNELS\nend Cache.Gen\n")
	fmt.Print(out.String())
	j, _ := json.Marshal(tie)
	fmt.Printf("-- TIE-REPORT %s\n", j)
}
