package main

func kernels() []kernel {
	// entry fields are recognised whatever the variable holding the entry is called
	expVars := map[string]string{`re:\w+\.E`: "e", "now": "now"}
	mmVarsRead := map[string]string{"found": "found", `re:bytes\.Equal\(\w+\.K, \w+\)`: "keyEq"}
	mmVarsDel := map[string]string{"found": "found", `re:bytes\.Equal\(\w+\.K, \w+\)`: "keyEq"}
	delVars := map[string]string{`re:\w+\.E`: "e", "beforeTS": "before"}
	fresh := map[string]string{"f.config.MaxStaleness": "maxStaleness", "time.Since(errExpired.ExpiredAt())": "since"}
	sync := map[string]string{"f.config.SyncUpdate": "syncUpdate", "err != nil": "errNonNil", "err == nil": "(!errNonNil)"}
	ec := map[string]string{"f.config.FailedUpdateTTL": "failedUpdateTTL", "cfg.FailedUpdateTTL": "failedUpdateTTL"}
	return []kernel{
		{name: "isExpired", file: "trait.go", recv: "Trait", fn: "PrepareRead", kind: "ifcond", must: []string{".E", "now"}, vars: expVars, sig: "(e now : Int) : Bool"},
		{name: "isExpiredOf", file: "trait_go1.18.go", recv: "TraitOf", fn: "PrepareRead", kind: "ifcond", must: []string{".E", "now"}, vars: expVars, sig: "(e now : Int) : Bool"},
		{name: "keyMismatchRead", file: "sharded_map.go", recv: "shardedMap", fn: "Read", kind: "ifcond", must: []string{"bytes.Equal"}, vars: mmVarsRead, sig: "(found keyEq : Bool) : Bool"},
		{name: "keyMismatchDelete", file: "sharded_map.go", recv: "shardedMap", fn: "Delete", kind: "ifcond", must: []string{"bytes.Equal"}, vars: mmVarsDel, sig: "(found keyEq : Bool) : Bool"},
		{name: "keyMismatchReadOf", file: "sharded_map_go1.18.go", recv: "shardedMapOf", fn: "Read", kind: "ifcond", must: []string{"bytes.Equal"}, vars: mmVarsRead, sig: "(found keyEq : Bool) : Bool"},
		{name: "keyMismatchDeleteOf", file: "sharded_map_go1.18.go", recv: "shardedMapOf", fn: "Delete", kind: "ifcond", must: []string{"bytes.Equal"}, vars: mmVarsDel, sig: "(found keyEq : Bool) : Bool"},
		{name: "deleteExpiredCond", file: "sharded_map.go", recv: "shardedMap", fn: "deleteExpired", kind: "ifcond", must: []string{"beforeTS"}, vars: delVars, sig: "(e before : Int) : Bool"},
		{name: "deleteExpiredCondOf", file: "sharded_map_go1.18.go", recv: "shardedMapOf", fn: "deleteExpired", kind: "ifcond", must: []string{"beforeTS"}, vars: delVars, sig: "(e before : Int) : Bool"},
		{name: "deleteExpiredCondSync", file: "sync_map.go", recv: "syncMap", fn: "deleteExpired", kind: "ifcond", must: []string{"beforeTS"}, vars: delVars, sig: "(e before : Int) : Bool"},
		{name: "ttlIsDefault", file: "trait.go", recv: "Trait", fn: "TTL", kind: "ifcond", must: []string{"DefaultTTL"}, vars: map[string]string{"ttl": "ttl"}, sig: "(ttl : Int) : Bool"},
		{name: "cfgIsUnlimited", file: "trait.go", recv: "Trait", fn: "TTL", kind: "ifcond", must: []string{"UnlimitedTTL"}, mustNo: []string{"&&"}, vars: map[string]string{"c.Config.TimeToLive": "cfgTTL"}, sig: "(cfgTTL : Int) : Bool"},
		{name: "jitterOn", file: "trait.go", recv: "Trait", fn: "TTL", kind: "ifcond", must: []string{"ExpirationJitter"}, vars: map[string]string{"c.Config.ExpirationJitter": "jitter"}, sig: "(jitter : Int) : Bool"},
		{name: "bumpExpirationsSet", file: "trait.go", recv: "Trait", fn: "TTL", kind: "ifcond", must: []string{"UnlimitedTTL", "&&"}, vars: map[string]string{"c.Config.TimeToLive": "cfgTTL", "ttl": "ttl"}, sig: "(cfgTTL ttl : Int) : Bool"},
		{name: "expireAtNonZero", file: "trait.go", recv: "Trait", fn: "expireAt", kind: "ifcond", must: []string{"ttl"}, vars: map[string]string{"ttl": "ttl"}, sig: "(ttl : Int) : Bool"},
		{name: "scanEnabled", file: "trait.go", recv: "Trait", fn: "invokeCleanup", kind: "ifcond", must: []string{"c.DeleteExpired != nil"},
			vars: map[string]string{"c.DeleteExpired != nil": "hasDeleteExpired", "c.Config.TimeToLive": "cfgTTL", "atomic.LoadInt64(&c.expirationsSet)": "expirationsSet"},
			sig:  "(hasDeleteExpired : Bool) (cfgTTL expirationsSet : Int) : Bool"},
		{name: "evictTrigger", file: "trait.go", recv: "Trait", fn: "invokeCleanup", kind: "ifcond", must: []string{"EvictionNeeded"},
			vars: map[string]string{"ho": "ho", "so": "so", "co": "co", "c.Config.EvictionNeeded != nil": "hasNeeded", "c.Config.EvictionNeeded()": "needed"},
			sig:  "(ho so co hasNeeded needed : Bool) : Bool"},
		{name: "countOverflowOff", file: "trait.go", recv: "Trait", fn: "countOverflow", kind: "ifcond", must: []string{"CountSoftLimit"},
			vars: map[string]string{"c.Config.CountSoftLimit": "limit", "c.Len == nil": "lenNil"}, sig: "(limit : Int) (lenNil : Bool) : Bool"},
		{name: "countOver", file: "trait.go", recv: "Trait", fn: "countOverflow", kind: "return", must: []string{"cnt", "CountSoftLimit"},
			vars: map[string]string{"cnt": "cnt", "int(c.Config.CountSoftLimit)": "limit"}, sig: "(cnt limit : Int) : Bool"},
		{name: "fracIsDefault", file: "trait.go", recv: "Trait", fn: "invokeCleanup", kind: "ifcond", must: []string{"frac == 0"}, vars: map[string]string{"frac": "frac"}, sig: "(frac : Int) : Bool"},
		{name: "withTTLShouldUpdate", file: "context.go", fn: "WithTTL", kind: "ifcond", must: []string{"*existing"}, vars: map[string]string{"*existing": "existing", "ttl": "ttl"}, sig: "(existing ttl : Int) : Bool"},
		{name: "freshEnoughCond", file: "failover.go", recv: "Failover", fn: "valueFromError", kind: "ifcond", must: []string{"MaxStaleness"}, trueMeansReturnsTrue: true, vars: fresh, sig: "(maxStaleness since : Int) : Bool"},
		{name: "freshEnoughCondOf", file: "failover_go1.18.go", recv: "FailoverOf", fn: "freshEnough", kind: "ifcond", must: []string{"MaxStaleness"}, trueMeansReturnsTrue: true, vars: fresh, sig: "(maxStaleness since : Int) : Bool"},
		{name: "syncUpdateCond", file: "failover.go", recv: "Failover", fn: "ctxSync", kind: "assign", lhs: "syncUpdate", must: []string{"SyncUpdate"}, trueMeansReturnsTrue: true, vars: sync, sig: "(syncUpdate errNonNil : Bool) : Bool"},
		{name: "syncUpdateCondOf", file: "failover_go1.18.go", recv: "FailoverOf", fn: "ctxSync", kind: "assign", lhs: "syncUpdate", must: []string{"SyncUpdate"}, trueMeansReturnsTrue: true, vars: sync, sig: "(syncUpdate errNonNil : Bool) : Bool"},
		{name: "fallbackCond", file: "failover.go", recv: "Failover", fn: "Get", kind: "ifcond", must: []string{"FailHard"},
			vars: map[string]string{"value != nil": "haveStale", "f.config.FailHard": "failHard"}, sig: "(haveStale failHard : Bool) : Bool"},
		{name: "fallbackCondOf", file: "failover_go1.18.go", recv: "FailoverOf", fn: "Get", kind: "ifcond", must: []string{"FailHard"},
			vars: map[string]string{"hasStale": "haveStale", "f.config.FailHard": "failHard"}, sig: "(haveStale failHard : Bool) : Bool"},
		{name: "errCacheEnabled", file: "failover.go", recv: "Failover", fn: "doBuild", kind: "ifcond", must: []string{"FailedUpdateTTL"}, vars: ec, sig: "(failedUpdateTTL : Int) : Bool",
			also: []kernel{{file: "failover.go", recv: "Failover", fn: "recentlyFailed"}, {file: "failover.go", fn: "NewFailover", must: []string{"FailedUpdateTTL >"}}}},
		{name: "errCacheEnabledOf", file: "failover_go1.18.go", recv: "FailoverOf", fn: "doBuild", kind: "ifcond", must: []string{"FailedUpdateTTL"}, vars: ec, sig: "(failedUpdateTTL : Int) : Bool",
			also: []kernel{{file: "failover_go1.18.go", recv: "FailoverOf", fn: "recentlyFailed"}, {file: "failover_go1.18.go", fn: "NewFailoverOf", must: []string{"FailedUpdateTTL >"}}}},
		{name: "invalidatorSkip", file: "invalidator.go", recv: "Invalidator", fn: "Invalidate", kind: "ifcond", must: []string{"time.Since"},
			vars: map[string]string{"time.Since(i.lastRun)": "since", "i.SkipInterval": "skipInterval"}, sig: "(since skipInterval : Int) : Bool"},
		{name: "nothingToInvalidate", file: "invalidator.go", recv: "Invalidator", fn: "Invalidate", kind: "ifcond", must: []string{"Callbacks"},
			vars: map[string]string{"len(i.Callbacks)": "ncb", "i.Callbacks == nil": "(ncb < 0)"}, sig: "(ncb : Int) : Bool"},
		{name: "skipIntervalIsDefault", file: "invalidator.go", recv: "Invalidator", fn: "Invalidate", kind: "ifcond", must: []string{"i.SkipInterval == 0"},
			vars: map[string]string{"i.SkipInterval": "skipInterval"}, sig: "(skipInterval : Int) : Bool"},
		{name: "syncDeleteMisses", file: "sync_map.go", recv: "syncMap", fn: "Delete", kind: "ifcond", must: []string{"loaded"}, vars: map[string]string{"loaded": "loaded"}, sig: "(loaded : Bool) : Bool"},
		{name: "syncDeleteAllCounts", file: "sync_map.go", recv: "syncMap", fn: "DeleteAll", kind: "ifcond", must: []string{"loaded"}, vars: map[string]string{"loaded": "loaded"}, sig: "(loaded : Bool) : Bool"},
		// structural facts of the skeleton the machine is written against (C09)
		{name: "keyLocksByKey", file: "failover.go", recv: "Failover", fn: "Get", kind: "fact", unit: "keylocks-by-key"},
		{name: "keyLocksByKeyOf", file: "failover_go1.18.go", recv: "FailoverOf", fn: "Get", kind: "fact", unit: "keylocks-by-key"},
		{name: "bgKeyCopied", file: "failover.go", recv: "Failover", fn: "Get", kind: "fact", unit: "bg-key-copied"},
		{name: "bgKeyCopiedOf", file: "failover_go1.18.go", recv: "FailoverOf", fn: "Get", kind: "fact", unit: "bg-key-copied"},
		{name: "storedKeyCopied", file: "sharded_map.go", recv: "shardedMap", fn: "Write", kind: "fact", unit: "stored-key-copied"},
		{name: "storedKeyCopiedOf", file: "sharded_map_go1.18.go", recv: "shardedMapOf", fn: "Write", kind: "fact", unit: "stored-key-copied"},
		{name: "storedKeyCopiedSync", file: "sync_map.go", recv: "syncMap", fn: "Write", kind: "fact", unit: "stored-key-copied"},
		// constructors: the default backend of a Failover is the backend BackendConfig describes (C11), reporting under the failover's name (C18)
		{name: "backendCfgPassthrough", file: "failover.go", fn: "NewFailover", kind: "fact", unit: "backendcfg-passthrough"},
		{name: "backendCfgPassthroughOf", file: "failover_go1.18.go", fn: "NewFailoverOf", kind: "fact", unit: "backendcfg-passthrough"},
		{name: "backendCfgIdentity", file: "failover.go", fn: "NewFailover", kind: "fact", unit: "backendcfg-identity"},
		{name: "backendCfgIdentityOf", file: "failover_go1.18.go", fn: "NewFailoverOf", kind: "fact", unit: "backendcfg-identity"},
		// the detached context of a background build (C06): constant answers, values forwarded, no promoted methods
		{name: "detachedNoDeadline", file: "context.go", recv: "detachedContext", fn: "Deadline", kind: "fact", unit: "returns", must: []string{"time.Time{}", "false"}},
		{name: "detachedNeverDone", file: "context.go", recv: "detachedContext", fn: "Done", kind: "fact", unit: "returns", must: []string{"nil"}},
		{name: "detachedNoErr", file: "context.go", recv: "detachedContext", fn: "Err", kind: "fact", unit: "returns", must: []string{"nil"}},
		{name: "detachedForwardsValues", file: "context.go", recv: "detachedContext", fn: "Value", kind: "fact", unit: "returns", must: []string{`re:\w+\.\w+\.Value\(\w+\)`}},
		{name: "ctxSyncDetaches", file: "failover.go", recv: "Failover", fn: "ctxSync", kind: "fact", unit: "ctxsync-returns"},
		{name: "ctxSyncDetachesOf", file: "failover_go1.18.go", recv: "FailoverOf", fn: "ctxSync", kind: "fact", unit: "ctxsync-returns"},
		// constants
		{name: "shards", file: "sharded_map.go", kind: "constdecl", lhs: "shards", sig: ": Int", unit: "int"},
		{name: "defaultSkipInterval", file: "invalidator.go", recv: "Invalidator", fn: "Invalidate", kind: "defaultval", lhs: "i.SkipInterval", sig: ": Int", unit: "dur"},
		{name: "defaultDeleteExpiredAfter", file: "trait.go", recv: "Trait", fn: "init", kind: "defaultval", lhs: "config.DeleteExpiredAfter", sig: ": Int", unit: "dur"},
		{name: "defaultTimeToLive", file: "trait.go", recv: "Trait", fn: "init", kind: "defaultval", lhs: "config.TimeToLive", sig: ": Int", unit: "dur"},
		{name: "defaultUpdateTTL", file: "failover.go", fn: "NewFailover", kind: "defaultval", lhs: "cfg.UpdateTTL", sig: ": Int", unit: "dur"},
		{name: "defaultFailedUpdateTTL", file: "failover.go", fn: "NewFailover", kind: "defaultval", lhs: "cfg.FailedUpdateTTL", sig: ": Int", unit: "dur"},
		{name: "defaultUpdateTTLOf", file: "failover_go1.18.go", fn: "NewFailoverOf", kind: "defaultval", lhs: "cfg.UpdateTTL", sig: ": Int", unit: "dur"},
		{name: "defaultFailedUpdateTTLOf", file: "failover_go1.18.go", fn: "NewFailoverOf", kind: "defaultval", lhs: "cfg.FailedUpdateTTL", sig: ": Int", unit: "dur"},
		{name: "defaultJitterN", file: "trait.go", recv: "Trait", fn: "init", kind: "defaultval", lhs: "config.ExpirationJitter", sig: ": Int", unit: "ratN"},
		{name: "defaultJitterD", file: "trait.go", recv: "Trait", fn: "init", kind: "defaultval", lhs: "config.ExpirationJitter", sig: ": Nat", unit: "ratD"},
		{name: "defaultEvictFracN", file: "trait.go", recv: "Trait", fn: "invokeCleanup", kind: "defaultval", lhs: "frac", must: []string{"0."}, sig: ": Nat", unit: "ratN"},
		{name: "defaultEvictFracD", file: "trait.go", recv: "Trait", fn: "invokeCleanup", kind: "defaultval", lhs: "frac", must: []string{"0."}, sig: ": Nat", unit: "ratD"},
		// call-argument facts
		{name: "refreshUpdateExisting", file: "failover.go", recv: "Failover", fn: "refreshStale", kind: "callarg", must: []string{"WithTTL(", "UpdateTTL"}, mustNo: []string{"backend.Write"}, sig: ": Bool", unit: "arg3bool"},
		{name: "refreshUpdateExistingOf", file: "failover_go1.18.go", recv: "FailoverOf", fn: "refreshStale", kind: "callarg", must: []string{"WithTTL(", "UpdateTTL"}, mustNo: []string{"backend.Write"}, sig: ": Bool", unit: "arg3bool"},
		{name: "errsWriteResetsTTL", file: "failover.go", recv: "Failover", fn: "doBuild", kind: "callarg", must: []string{"f.Errors.Write("}, sig: ": Bool", unit: "ctxreset"},
		{name: "errsWriteResetsTTLOf", file: "failover_go1.18.go", recv: "FailoverOf", fn: "doBuild", kind: "callarg", must: []string{"f.Errors.Write("}, sig: ": Bool", unit: "ctxreset"},
	}
}
