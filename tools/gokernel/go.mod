module gokernel

go 1.18
