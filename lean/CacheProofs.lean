import CacheProofs.Props.C07
import CacheProofs.Props.C09
import CacheProofs.Props.C10
import CacheProofs.Props.C11
import CacheProofs.Props.C12
import CacheProofs.Props.C18
