import CacheProofs.Props.C07
