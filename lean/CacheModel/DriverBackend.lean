import Std.Data.HashMap
import CacheModel.Backend
import CacheModel.Janitor
import CacheModel.Spec
import CacheModel.DriverUtil

/-
  Backend engine of the driver (E1).  The harness performs each operation on the REAL cache first and sends
  what it did together with what it observed for the non-deterministic parts (clock bracket, stored expiry,
  LRU stamp, evicted slots).  The driver checks the observation is admissible for the model, steps the model
  with it, and prints the model's output and the reference (`Spec`) output for the harness to compare.
-/
namespace Cache.Drv
open Cache

structure Inst where
  kind : Kind
  cfg : Cfg
  store : Store := {}
  spec : Spec.SMap := []
  totals : Totals := {}
  hashTab : Std.TreeMap Nat Nat := {}     -- key ↦ slot, learned from the lines

def Inst.hash (i : Inst) : Key → Nat := fun k => i.hashTab.getD k 0

def parseKind : String → Option Kind
  | "sharded" => some .sharded
  | "shardedOf" => some .shardedOf
  | "sync" => some .sync
  | _ => none

def parseStrategy : Nat → Option Strategy
  | 0 => some .mostExpired
  | 1 => some .lru
  | 2 => some .lfu
  | _ => none

def newInst (args : List (String × String)) : Option Inst := do
  let kind ← kv args "kind" >>= parseKind
  let ttl ← kvInt args "ttl"
  let jn ← kvInt args "jn"
  let jd ← kvNat args "jd"
  let strat ← kvNat args "strat" >>= parseStrategy
  let dea ← kvInt args "dea"
  let csl ← kvNat args "csl"
  let efn ← kvNat args "efn"
  let efd ← kvNat args "efd"
  if jd == 0 || efd == 0 then none
  pure { kind, cfg := Cfg.normalize { ttl, jn, jd, strategy := strat, deleteExpiredAfter := dea, countSoftLimit := csl, efn, efd } }

def showRead : ReadOut → String
  | .miss => "miss"
  | .hit v => s!"hit {showOptVal v}"
  | .expired v e => s!"exp {showOptVal v} {e}"

def showSpecRead : Spec.ROut → String
  | .miss => "miss"
  | .hit v => s!"hit {showOptVal v}"
  | .expired v e => s!"exp {showOptVal v} {e}"

/-- Interval the stored expiry must lie in: `[t0 + T - |T|·J/2 - slack, t1 + T + |T|·J/2 + slack]`, `0` iff no ttl.
    `slack` absorbs float64 rounding of the jitter product (see DESIGN §4.1).
    This is the STATEMENT of C10, spelled with literals (0 = no context ttl, -1 = UnlimitedTTL): it does not follow the
    decision kernels regenerated from the source, so a change of those is measured against it, not absorbed by it. -/
def expiryBounds (cfg : Cfg) (ctxTTL : Int) (t0 t1 : Time) : Option (Time × Time) :=
  if ctxTTL == 0 && cfg.ttl == -1 then none
  else
    let T := if ctxTTL == 0 then cfg.ttl else ctxTTL
    if cfg.jn > 0 then
      let half : Int := (T.natAbs * cfg.jn.natAbs) / (2 * cfg.jd) + 1
      let slack : Int := T.natAbs / (2 ^ 40) + 1
      some (t0 + T - half - slack, t1 + T + half + slack)
    else some (t0 + T, t1 + T)

def admissibleE (cfg : Cfg) (ctxTTL : Int) (t0 t1 E : Time) : Bool :=
  match expiryBounds cfg ctxTTL t0 t1 with
  | none => E == 0
  | some (lo, hi) => E != 0 && lo ≤ E && E ≤ hi

/-! The statement of C12's trigger and amount, spelled with literals (0 = option unset, 1/10 = default EvictFraction): what
    JUDGES an observed cleanup cycle does not follow the decision kernels regenerated from the source
    (`C12_oracle_is_the_model` proves it equal to the model's plan for the kernels of the unchanged tree). -/
def specCountOver (cfg : Cfg) (n : Nat) : Bool := cfg.countSoftLimit != 0 && n > cfg.countSoftLimit

def specShouldEvict (cfg : Cfg) (n : Nat) (env : CleanupEnv) : Bool :=
  env.ho || env.so || specCountOver cfg n || (env.hasNeeded && env.needed)

def specAmount (cfg : Cfg) (n : Nat) : Nat × Nat :=
  let (fn, fd) := if cfg.efn == 0 then (1, 10) else (cfg.efn, cfg.efd)
  if specCountOver cfg n then (n * fd - cfg.countSoftLimit * (fd - fn), fd) else (n * fn, fd)

def showEntry (e : Entry) : String := s!"{e.K}:{showOptVal e.V}:{e.E}:{e.C}"

def dumpStore (s : Store) : String :=
  let es := s.walk.mergeSort (fun a b => a.K ≤ b.K)
  if es.isEmpty then "-" else " ".intercalate (es.map showEntry)

def dumpSpec (m : Spec.SMap) : String :=
  let es := m.mergeSort (fun a b => a.1 ≤ b.1)
  if es.isEmpty then "-" else " ".intercalate (es.map fun p => s!"{p.1}:{showOptVal p.2.V}:{p.2.E}")

def learn (i : Inst) (k slot : Nat) : Inst := { i with hashTab := i.hashTab.insert k slot }

/-- evicted count admissible for exact amount `p/q`: the floor, or one off when `p/q` is within 2⁻²⁰ of an integer
    (float64 rounding of `float64(n)*frac`). -/
def admissibleCount (p q k : Nat) : Bool :=
  let fl := p / q
  let r := p % q
  k == fl || (r * 1048576 < q && k + 1 == fl) || ((q - r) * 1048576 < q && k == fl + 1)

/-- One backend line (without the leading `be <op> <id>`). Returns the new instance and the reply. -/
def stepInst (i : Inst) (op : String) (a : List String) : Option (Inst × String) :=
  match op, a with
  | "w", [k, slot, v, cttl, t0, t1, e] => do
    let k ← parseNat k; let slot ← parseNat slot; let v ← parseOptVal v
    let cttl ← parseInt cttl; let t0 ← parseInt t0; let t1 ← parseInt t1; let e ← parseInt e
    let i := learn i k slot
    if !admissibleE i.cfg cttl t0 t1 e then
      pure (i, s!"bad-E bounds={repr (expiryBounds i.cfg cttl t0 t1)} got={e}")
    else
      let bump := Gen.bumpExpirationsSet i.cfg.ttl (if e == 0 then 0 else 1)
      let st := i.store.writeCore i.hash k v e bump
      pure ({ i with store := st, spec := Spec.write i.spec k v e, totals := i.totals.add .write }, "ok")
  | "r", [k, slot, skip, t0, t1, cobs] => do
    let k ← parseNat k; let slot ← parseNat slot; let skip ← parseBool skip
    let t0 ← parseInt t0; let t1 ← parseInt t1
    let i := learn i k slot
    -- LRU stores the very `now` it compares with: when observed, it pins the clock reading.
    let (t0, t1) := match i.cfg.strategy, parseInt cobs with
      | .lru, some c => if t0 ≤ c && c ≤ t1 then (c, c) else (t0, t1)
      | _, _ => (t0, t1)
    let (s0, o0, m0) := i.store.read i.hash i.kind i.cfg k skip t0
    let (_, o1, _) := i.store.read i.hash i.kind i.cfg k skip t1
    let sp0 := Spec.read i.spec k skip t0
    let sp1 := Spec.read i.spec k skip t1
    if o0 != o1 || sp0 != sp1 then
      -- outcome depends on where inside the bracket the clock was read: not compared; state still advances
      pure ({ i with store := s0 }, "ambig")
    else
      pure ({ i with store := s0, totals := i.totals.addAll m0 }, s!"{showRead o0} | {showSpecRead sp0}")
  | "d", [k, slot] => do
    let k ← parseNat k; let slot ← parseNat slot
    let i := learn i k slot
    let (st, ok, ms) := i.store.delete i.hash i.kind k
    let (sp, sok) := Spec.delete i.spec k
    pure ({ i with store := st, spec := sp, totals := i.totals.addAll ms },
          s!"{if ok then "ok" else "notfound"} | {if sok then "ok" else "notfound"}")
  | "xa", [t0, t1, eobs] => do
    let t0 ← parseInt t0; let t1 ← parseInt t1
    -- the stamp ExpireAll wrote is observed through Walk ("-" when the cache was empty)
    let now := match parseInt eobs with
      | some e => e
      | none => t0
    if !(t0 ≤ now && now ≤ t1) then pure (i, s!"bad-stamp {now} not in [{t0},{t1}]")
    else
      let (st, ms) := i.store.expireAll now
      pure ({ i with store := st, spec := Spec.expireAll i.spec now, totals := i.totals.addAll ms }, "ok")
  | "da", [] =>
    let (st, ms) := i.store.deleteAll
    pure ({ i with store := st, spec := Spec.deleteAll i.spec, totals := i.totals.addAll ms }, "ok")
  | "len", [] => pure (i, s!"{i.store.len} | {Spec.len i.spec}")
  | "dump", [] => pure (i, dumpStore i.store)
  | "specdump", [] => pure (i, dumpSpec i.spec)
  | "stats", [] =>
    let t := i.totals
    pure (i, s!"hit={t.hit} miss={t.miss} expired={t.expired} write={t.write} delete={t.delete} evict={t.evict}")
  | "restore", [k, slot, v, e, c] => do
    let k ← parseNat k; let slot ← parseNat slot; let v ← parseOptVal v; let e ← parseInt e; let c ← parseInt c
    let i := learn i k slot
    pure ({ i with store := i.store.restoreOne i.hash { K := k, V := v, E := e, C := c },
                   spec := Spec.write i.spec k v e }, "ok")
  | "cleanupq", [t0, _t1, rm] => do
    -- pure query: would a scan at t0 delete exactly the slots in `removed`?
    let t0 ← parseInt t0
    let removed ← kv (kvArgs [rm]) "removed" >>= parseNatList
    let sA := i.store.cleanupScan i.kind i.cfg t0
    let scanned := (i.store.walk.filter (fun e => !(sA.walk.contains e))).map (fun e => i.hash e.K)
    if scanned.all (removed.contains ·) && removed.all (scanned.contains ·) then
      pure (i, s!"ok scanned={scanned.length}")
    else pure (i, s!"no model-deletes={showNatList scanned} impl-removed={showNatList removed}")
  | "cleanup", t0 :: t1 :: rest => do
    -- cleanup <t0> <t1> ho=… so=… hn=… needed=… removed=<slots> evicted=<n|->
    let t0 ← parseInt t0; let t1 ← parseInt t1
    let args := kvArgs rest
    let ho ← kvBool args "ho"; let so ← kvBool args "so"
    let hn ← kvBool args "hn"; let needed ← kvBool args "needed"
    let removed ← kv args "removed" >>= parseNatList
    let evictedObs := kvNat args "evicted"
    -- 1. scan: must give the same result for every clock reading in the bracket, else not compared
    let sA := i.store.cleanupScan i.kind i.cfg t0
    let sB := i.store.cleanupScan i.kind i.cfg t1
    if sA.walk != sB.walk then
      -- adopt the observation: remove what was observed removed
      pure ({ i with store := i.store.evict removed,
                     spec := removed.foldl (fun m h => m.filter (fun p => i.hash p.1 != h)) i.spec }, "ambig")
    else
      let scanned := (i.store.walk.filter (fun e => !(sA.walk.contains e))).map (fun e => i.hash e.K)
      let rest := removed.filter (fun h => !scanned.contains h)
      let missingScan := scanned.filter (fun h => !removed.contains h)
      let env : CleanupEnv := { now := t0, ho, so, hasNeeded := hn, needed }
      let plan := evictPlan i.cfg sA.len env
      let finish (k : Nat) : Inst :=
        let st := sA.evict rest
        { i with store := st,
                 spec := removed.foldl (fun m h => m.filter (fun p => i.hash p.1 != h)) i.spec,
                 totals := match plan with
                   | some _ => i.totals.add (.evict k)
                   | none => i.totals }
      if !missingScan.isEmpty then
        pure (finish 0, s!"bad-scan model-deletes={showNatList scanned} impl-removed={showNatList removed}")
      else match specShouldEvict i.cfg sA.len env with
        | false =>
          if rest.isEmpty then pure (finish 0, s!"ok scanned={scanned.length} evicted=none")
          else pure (finish 0, s!"bad-evict no-breach-but-removed={showNatList rest}")
        | true =>
          let (p, q) := specAmount i.cfg sA.len
          let k := match evictedObs with
            | some k => k
            | none => rest.length
          if !admissibleCount p q k then
            pure (finish k, s!"bad-amount exact={p}/{q} observed={k}")
          else if rest.length != k then
            pure (finish k, s!"bad-amount reported={k} removed={rest.length}")
          else if !sA.validEviction i.cfg.strategy rest then
            pure (finish k, s!"bad-order removed={showNatList rest}")
          else pure (finish k, s!"ok scanned={scanned.length} evicted={k}")
  | _, _ => none

end Cache.Drv
