import CacheModel.Gen

/-
  SyncMap at the granularity of `sync.Map` primitives (C18, the "under any interleaving" half of the delete counter).
  Each primitive is atomic (assumed of `sync.Map`); a public operation is one primitive (`Write` = `Store`, `Delete` =
  `LoadAndDelete`) or a sequence of them (`DeleteAll` = one `LoadAndDelete` per key its `Range` yields — in any order, for
  keys that may have appeared or disappeared meanwhile). An execution is therefore ANY sequence of primitives; whether a
  primitive reports a removal to the stats tracker is decided by the regenerated kernels
  (`Gen.syncDeleteMisses`, `Gen.syncDeleteAllCounts`), i.e. by the code as it is now.
-/
namespace Cache.Prims

abbrev K := Nat

inductive Prim
  | store (k : K)      -- Write
  | delete (k : K)     -- Delete
  | sweep (k : K)      -- one Range callback of DeleteAll
  deriving Repr, DecidableEq

structure St where
  present : K → Bool := fun _ => false
  created : K → Nat := fun _ => 0     -- entries that came into existence under the key (a Store over an existing entry replaces it)
  removed : K → Nat := fun _ => 0     -- entries that ceased to exist by a delete primitive
  counted : Nat := 0                  -- what cache_delete was incremented by
  removedTotal : Nat := 0

def upd {α : Type} (f : K → α) (k : K) (v : α) : K → α := fun k' => if k' = k then v else f k'

def step (s : St) : Prim → St
  | .store k =>
    if s.present k then s
    else { s with present := upd s.present k true, created := upd s.created k (s.created k + 1) }
  | .delete k =>
    let loaded := s.present k
    { s with present := upd s.present k false,
             removed := upd s.removed k (s.removed k + (if loaded then 1 else 0)),
             removedTotal := s.removedTotal + (if loaded then 1 else 0),
             counted := s.counted + (if Gen.syncDeleteMisses loaded then 0 else 1) }
  | .sweep k =>
    let loaded := s.present k
    { s with present := upd s.present k false,
             removed := upd s.removed k (s.removed k + (if loaded then 1 else 0)),
             removedTotal := s.removedTotal + (if loaded then 1 else 0),
             counted := s.counted + (if Gen.syncDeleteAllCounts loaded then 1 else 0) }

def run (s : St) (ps : List Prim) : St := ps.foldl step s

/-- The code before repair F15: the sweep counted whatever key it visited. -/
def stepBlind (s : St) : Prim → St
  | .sweep k =>
    let loaded := s.present k
    { s with present := upd s.present k false,
             removed := upd s.removed k (s.removed k + (if loaded then 1 else 0)),
             removedTotal := s.removedTotal + (if loaded then 1 else 0),
             counted := s.counted + 1 }
  | p => step s p

end Cache.Prims
