import CacheModel.Basic

/-
  Memory-access footprints of the public operations and background activities, with the lock (or other ordering) that
  protects each access — the model behind C16. An access is named by the Go function that performs it, exactly as the
  race detector prints it (type parameters stripped), so predicted races and detector reports are comparable.
  The table is hand-written from the source (every access to `entry.E`, `entry.C`, `entry.K/V`, the shard maps, `sync.Map`,
  `keyLocks`, the lock records, the label index, `lastRun`); it is tied to the code by the race-detector engine only.
-/
namespace Cache.FP

inductive Loc
  | shardData      -- hashedBucket.data (Go map)
  | syncData       -- syncMap.data (sync.Map: internally synchronised)
  | entryE | entryC | entryKV
  | expirationsSet
  | keyLocks | klFields
  | idxOuter | idxInner | idxDeleters
  | invLastRun
  deriving Repr, DecidableEq

inductive Lock | shard | fLock | idxMu | invMu
  deriving Repr, DecidableEq

/-- How an access is ordered with respect to conflicting ones. -/
inductive Guard
  | lock (l : Lock) (exclusive : Bool)   -- performed while holding the lock (RLock = not exclusive)
  | atomic                               -- sync/atomic operation
  | internal                             -- inside sync.Map / channel operations (synchronised by the runtime library)
  | initOnly                             -- write before the object is published; all later accesses are reads
  | beforeClose | afterReceive           -- lock record: owner writes before close(ch), waiters read after <-ch
  | none                                 -- plain access with no lock held
  deriving Repr, DecidableEq

structure Access where
  fn : String
  family : String        -- "sharded" | "shardedOf" | "sync" | "front": accesses of different families never share memory
  loc : Loc
  write : Bool
  guard : Guard
  lruOnly : Bool := false   -- happens only under EvictLeastRecentlyUsed / EvictLeastFrequentlyUsed
  deriving Repr, DecidableEq

def conflicting (a b : Access) : Bool :=
  a.family == b.family && a.loc == b.loc && (a.write || b.write)

/-- Is a conflicting pair ordered by happens-before in every execution? -/
def protectedPair (a b : Access) : Bool :=
  match a.guard, b.guard with
  | .lock l1 x1, .lock l2 x2 => l1 == l2 && (x1 || x2)
  | .atomic, .atomic => true
  | .internal, .internal => true
  | .initOnly, _ => true          -- the object is not reachable by anybody else before it is published (under a lock / sync.Map)
  | _, .initOnly => true
  | .beforeClose, .afterReceive => true
  | .afterReceive, .beforeClose => true
  | .afterReceive, .afterReceive => true       -- reads only
  | .beforeClose, .beforeClose => true         -- the single owner (and the background goroutine it spawned, ordered by `go`)
  | _, _ => false

def racy (a b : Access) : Bool := conflicting a b && !protectedPair a b

/-- All unprotected conflicting pairs of a table (each unordered pair once, self-pairs of writers included). -/
def racyPairs : List Access → List (Access × Access)
  | [] => []
  | a :: rest => (if racy a a then [(a, a)] else []) ++ (rest.filter (racy a)).map (fun b => (a, b)) ++ racyPairs rest

def locName : Loc → String
  | .shardData => "shardData" | .syncData => "syncData" | .entryE => "entryE" | .entryC => "entryC" | .entryKV => "entryKV"
  | .expirationsSet => "expirationsSet" | .keyLocks => "keyLocks" | .klFields => "klFields" | .idxOuter => "idxOuter"
  | .idxInner => "idxInner" | .idxDeleters => "idxDeleters" | .invLastRun => "invLastRun"

def sig (p : Access × Access) : String :=
  if p.1.fn ≤ p.2.fn then s!"race:{p.1.fn}|{p.2.fn}" else s!"race:{p.2.fn}|{p.1.fn}"

end Cache.FP
