import CacheModel.Basic
import CacheModel.Gen

/-
  `Failover.Get` / `FailoverOf.Get` as a small-step machine over an UNBOUNDED set of threads (`th : Nat → Thread`).
  One step = at most one shared action (election under `f.lock`, release = delete+close, failure-cache access) or the
  receipt of one call-out answer (backend Read/Write, builder) followed by thread-local computation — so the theorems
  cover every interleaving at least as fine as what the Go scheduler can produce (Lipton reduction: thread-local
  actions commute). The environment's answers (backend results, builder outcomes, clock) are the labels.
  Debug-log call-outs never influence control flow and are not steps; the stats counters are ghost fields.
-/
namespace Cache

inductive Variant | failover | failoverOf
  deriving Repr, DecidableEq, Inhabited

structure FCfg where
  variant : Variant
  syncUpdate : Bool
  syncRead : Bool
  failHard : Bool
  maxStaleness : Int
  failedUpdateTTL : Int      -- after the default (0 ↦ 20 s) was applied
  updateTTL : Int            -- after the default (0 ↦ 1 m) was applied
  deriving Repr, Inhabited

def FCfg.freshEnough (c : FCfg) (since : Int) : Bool :=
  match c.variant with
  | .failover => Gen.freshEnoughCond c.maxStaleness since
  | .failoverOf => Gen.freshEnoughCondOf c.maxStaleness since
def FCfg.syncCond (c : FCfg) (errNonNil : Bool) : Bool :=
  match c.variant with
  | .failover => Gen.syncUpdateCond c.syncUpdate errNonNil
  | .failoverOf => Gen.syncUpdateCondOf c.syncUpdate errNonNil
def FCfg.fallback (c : FCfg) (haveStale : Bool) : Bool :=
  match c.variant with
  | .failover => Gen.fallbackCond haveStale c.failHard
  | .failoverOf => Gen.fallbackCondOf haveStale c.failHard
def FCfg.errCache (c : FCfg) : Bool :=
  match c.variant with
  | .failover => Gen.errCacheEnabled c.failedUpdateTTL
  | .failoverOf => Gen.errCacheEnabledOf c.failedUpdateTTL
def FCfg.refreshUpdateExisting (c : FCfg) : Bool :=
  match c.variant with
  | .failover => Gen.refreshUpdateExisting
  | .failoverOf => Gen.refreshUpdateExistingOf
def FCfg.errsWriteResetsTTL (c : FCfg) : Bool :=
  match c.variant with
  | .failover => Gen.errsWriteResetsTTL
  | .failoverOf => Gen.errsWriteResetsTTLOf

/-- Answer of a backend `Read` call-out. `stale v since`: an expiry error carrying `v`, `since` = time since its expiry
    as `time.Since(ExpiredAt())` will evaluate it. `err e`: any other error than ErrNotFound. -/
inductive ReadAns
  | hit (v : Val)
  | miss
  | stale (v : Val) (since : Int)
  | err (e : Err)
  deriving Repr, DecidableEq, Inhabited

inductive WriteAns | ok | err (e : Err)
  deriving Repr, DecidableEq

/-- Builder outcome and the ttl updates it made through `WithTTL(ctx, ttl, true)`. -/
inductive BuildAns
  | ok (v : Val) (ttlUpdates : List Int)
  | err (e : Err) (ttlUpdates : List Int)
  deriving Repr, DecidableEq

/-- What `Get` returned: Go's `(value, error)`; `none` value = nil / zero. -/
structure GetResult where
  val : Option Val
  err : Option Err
  deriving Repr, DecidableEq, Inhabited

inductive Pc
  | idle | preRead | wantLock | lockedRead | classify | refreshing | checkErrs | decideSync
  | building | storeErr (e : Err) | storing (v : Val) | finish (r : GetResult) | waiting | done
  deriving Repr, DecidableEq, Inhabited

/-- `WithTTL(ctx, ttl, true)` on an existing cell. -/
def ttlUpdate (existing ttl : Int) : Int := if Gen.withTTLShouldUpdate existing ttl then ttl else existing

structure Thread where
  pc : Pc := .idle
  key : Key := 0                   -- captured BY VALUE at entry
  skipRead : Bool := false         -- caller context carries SkipRead
  cell : Option Int := none        -- the ttl cell of the caller's context (none: no WithTTL)
  owner : Bool := false
  lid : Nat := 0
  readRes : ReadAns := .miss
  stale : Option Val := none       -- value kept as failure fallback / served stale
  errNonNil : Bool := false        -- `err != nil` as `ctxSync` sees it
  bg : Bool := false               -- continuing in the background goroutine
  detached : Bool := false         -- builder context is the detached one
  returned : Option GetResult := none
  deriving Repr, Inhabited

structure KL where
  val : Option Val := none
  err : Option Err := none
  closed : Bool := false
  deriving Repr, Inhabited

/-- A call-out request the harness observes, with what C06 needs to know about its context. -/
inductive Req
  | read (key : Key) (skip : Bool)
  | write (key : Key) (v : Val) (ttl : Int)          -- ttl = cache.TTL(ctx) of the write's context
  | build (key : Key) (detached : Bool)
  | errWrite (key : Key) (e : Err) (ttl : Int)       -- the (internal) failure-cache write and the ttl its context carries
  deriving Repr, DecidableEq

structure Ghost where
  builtOk : List (Key × Val) := []        -- builder returned this value for this key
  buildErr : List (Key × Err) := []       -- builder returned this error for this key
  backendVals : List (Key × Val) := []    -- the backend returned this value (fresh or stale) for this key
  backendErrs : List (Key × Err) := []    -- the backend failed with this error on a call for this key
  builds : Nat := 0                        -- MetricBuild
  failed : Nat := 0                        -- MetricFailed
  refreshed : Nat := 0                     -- MetricRefreshed
  buildCalls : Nat := 0                    -- builder invocations started
  requests : List (Nat × Req) := []        -- call-out requests in issue order (thread, request), newest first
  deriving Repr

structure FState where
  th : Nat → Thread := fun _ => {}
  keyLocks : Key → Option Nat := fun _ => none
  kl : Nat → KL := fun _ => {}
  nextLid : Nat := 0
  errs : Key → Option (Err × Time) := fun _ => none     -- failure cache: error and its expiry
  g : Ghost := {}

def FState.setTh (s : FState) (t : Nat) (x : Thread) : FState :=
  { s with th := fun u => if u = t then x else s.th u }
def FState.setKL (s : FState) (l : Nat) (x : KL) : FState :=
  { s with kl := fun m => if m = l then x else s.kl m }
def FState.req (s : FState) (t : Nat) (r : Req) : FState :=
  { s with g := { s.g with requests := (t, r) :: s.g.requests } }

/-- Release: delete the key lock and close its channel (one critical section of `f.lock`). -/
def FState.release (s : FState) (k : Key) (l : Nat) : FState :=
  { s with keyLocks := fun k' => if k' = k then none else s.keyLocks k',
           kl := fun m => if m = l then { s.kl l with closed := true } else s.kl m }

/-- Publish a result into the lock record and release (the writes precede the close; waiters read after it). -/
def FState.publishRelease (s : FState) (k : Key) (l : Nat) (r : GetResult) : FState :=
  (s.setKL l { s.kl l with val := r.val, err := r.err }).release k l

def FState.finishThread (s : FState) (t : Nat) (x : Thread) (r : GetResult) : FState :=
  s.setTh t { x with pc := .done, returned := if x.bg then x.returned else some r }

/-- Ghost bookkeeping of a backend answer (provenance sets); control state untouched. -/
def FState.noteRead (s : FState) (k : Key) (a : ReadAns) : FState :=
  { s with g := match a with
      | .hit v => { s.g with backendVals := (k, v) :: s.g.backendVals }
      | .stale v _ => { s.g with backendVals := (k, v) :: s.g.backendVals }
      | .err e => { s.g with backendErrs := (k, e) :: s.g.backendErrs }
      | .miss => s.g }
def FState.noteWrite (s : FState) (k : Key) (a : WriteAns) : FState :=
  match a with
  | .err e => { s with g := { s.g with backendErrs := (k, e) :: s.g.backendErrs } }
  | .ok => s

inductive FLabel
  | begin (t : Nat) (key : Key) (skipRead : Bool) (cell : Option Int)
  | readAns (t : Nat) (a : ReadAns)
  | elect (t : Nat)
  | local (t : Nat)                       -- the next deterministic step of `t` (classify / decideSync / finish)
  | writeAns (t : Nat) (a : WriteAns)
  | errsRead (t : Nat) (now : Time)
  | buildAns (t : Nat) (a : BuildAns)
  | errsWrite (t : Nat) (E : Time)        -- the failure is stored with expiry E
  | wake (t : Nat)
  deriving Repr

def FLabel.thread : FLabel → Nat
  | .begin t .. | .readAns t _ | .elect t | .local t | .writeAns t _ | .errsRead t _ | .buildAns t _
  | .errsWrite t _ | .wake t => t

/-- ttl the final store / refresh / error write carries. -/
def Thread.storeTTL (x : Thread) : Int := x.cell.getD 0

def step (c : FCfg) (s : FState) : FLabel → Option FState
  | .begin t key skip cell =>
    let x := s.th t
    if x.pc != .idle then none else
    let x := { x with key := key, skipRead := skip, cell := cell }
    if c.syncRead then some (s.setTh t { x with pc := .wantLock })
    else some ((s.setTh t { x with pc := .preRead }).req t (.read key skip))
  | .readAns t a =>
    let x := s.th t
    let s := s.noteRead x.key a
    match x.pc with
    | .preRead =>
      match a with
      | .hit v => some (s.finishThread t x ⟨some v, none⟩)
      | _ => some (s.setTh t { x with pc := .wantLock, readRes := a })
    | .lockedRead =>
      match a with
      | .hit v =>
        let s := if x.owner then s.publishRelease x.key x.lid ⟨some v, none⟩ else s
        some (s.finishThread t x ⟨some v, none⟩)
      | _ => some (s.setTh t { x with pc := .classify, readRes := a })
    | _ => none
  | .elect t =>
    let x := s.th t
    if x.pc != .wantLock then none else
    let next := if c.syncRead then Pc.lockedRead else Pc.classify
    let s1 : FState := match s.keyLocks x.key with
      | some l => s.setTh t { x with pc := next, owner := false, lid := l }
      | none =>
        { (s.setTh t { x with pc := next, owner := true, lid := s.nextLid }) with
          keyLocks := fun k => if k = x.key then some s.nextLid else s.keyLocks k,
          kl := fun m => if m = s.nextLid then {} else s.kl m,
          nextLid := s.nextLid + 1 }
    if c.syncRead then some (s1.req t (.read x.key x.skipRead)) else some s1
  | .local t =>
    let x := s.th t
    match x.pc with
    | .classify =>
      if !x.owner then
        match x.readRes with
        | .stale v since =>
          if c.freshEnough since then some (s.finishThread t x ⟨some v, none⟩)
          else some (s.setTh t { x with pc := .waiting })
        | .err e =>
          match c.variant with
          | .failover => some (s.finishThread t x ⟨none, some e⟩)
          | .failoverOf => some (s.setTh t { x with pc := .waiting })
        | _ => some (s.setTh t { x with pc := .waiting })
      else
        match x.readRes with
        | .stale v since =>
          if c.freshEnough since then
            let ttl := if c.refreshUpdateExisting then (match x.cell with | some e => ttlUpdate e c.updateTTL | none => c.updateTTL) else c.updateTTL
            let x := if c.refreshUpdateExisting then { x with cell := x.cell.map (fun e => ttlUpdate e c.updateTTL) } else x
            some (({ s with g := { s.g with refreshed := s.g.refreshed + 1 } }.setTh t { x with pc := .refreshing, stale := some v }).req t (.write x.key v ttl))
          else some (s.setTh t { x with pc := .checkErrs, stale := some v, errNonNil := true })
        | .err e =>
          match c.variant with
          | .failover => some ((s.publishRelease x.key x.lid ⟨none, some e⟩).finishThread t x ⟨none, some e⟩)
          | .failoverOf => some (s.setTh t { x with pc := .checkErrs, stale := none, errNonNil := true })
        | _ => some (s.setTh t { x with pc := .checkErrs, stale := none, errNonNil := true })
    | .decideSync =>
      if c.syncCond x.errNonNil then
        some (({ s with g := { s.g with buildCalls := s.g.buildCalls + 1 } }.setTh t { x with pc := .building, detached := false }).req t (.build x.key false))
      else
        some (({ s with g := { s.g with buildCalls := s.g.buildCalls + 1 } }.setTh t
          { x with pc := .building, detached := true, bg := true, returned := some ⟨x.stale, none⟩ }).req t (.build x.key true))
    | .finish r =>
      let s1 := s.publishRelease x.key x.lid r
      if !x.bg && r.err.isSome && c.fallback x.stale.isSome then some (s1.finishThread t x ⟨x.stale, none⟩)
      else some (s1.finishThread t x r)
    | _ => none
  | .writeAns t a =>
    let x := s.th t
    let s := s.noteWrite x.key a
    match x.pc with
    | .refreshing =>
      match a with
      | .err e => some ((s.publishRelease x.key x.lid ⟨none, some e⟩).finishThread t x ⟨none, some e⟩)
      | .ok => some (s.setTh t { x with pc := .checkErrs, errNonNil := false })
    | .storing v =>
      let s := { s with g := { s.g with builds := s.g.builds + 1 } }
      match a with
      | .err e => some (s.setTh t { x with pc := .finish ⟨none, some e⟩ })
      | .ok => some (s.setTh t { x with pc := .finish ⟨some v, none⟩ })
    | _ => none
  | .errsRead t now =>
    let x := s.th t
    if x.pc != .checkErrs then none else
    let hit : Option Err :=
      if c.errCache && !x.skipRead then
        match s.errs x.key with
        | some (e, E) => if Gen.isExpired E now then none else some e
        | none => none
      else none
    match hit with
    | some e =>
      let v := match c.variant with | .failover => none | .failoverOf => x.stale
      some ((s.publishRelease x.key x.lid ⟨none, some e⟩).finishThread t x ⟨v, some e⟩)
    | none => some (s.setTh t { x with pc := .decideSync })
  | .buildAns t a =>
    let x := s.th t
    if x.pc != .building then none else
    match a with
    | .ok v ups =>
      let x := { x with cell := x.cell.map (fun e => ups.foldl ttlUpdate e) }
      some (({ s with g := { s.g with builtOk := (x.key, v) :: s.g.builtOk } }.setTh t { x with pc := .storing v }).req t (.write x.key v x.storeTTL))
    | .err e ups =>
      let x := { x with cell := x.cell.map (fun e => ups.foldl ttlUpdate e) }
      let s := { s with g := { s.g with buildErr := (x.key, e) :: s.g.buildErr, failed := s.g.failed + 1 } }
      if c.errCache then some (s.setTh t { x with pc := .storeErr e })
      else some ({ s with g := { s.g with builds := s.g.builds + 1 } }.setTh t { x with pc := .finish ⟨none, some e⟩ })
  | .errsWrite t E =>
    let x := s.th t
    match x.pc with
    | .storeErr e =>
      let ttl := if c.errsWriteResetsTTL then 0 else x.storeTTL
      some (({ s with errs := fun k => if k = x.key then some (e, E) else s.errs k,
                      g := { s.g with builds := s.g.builds + 1 } }.setTh t { x with pc := .finish ⟨none, some e⟩ }).req t (.errWrite x.key e ttl))
    | _ => none
  | .wake t =>
    let x := s.th t
    if x.pc != .waiting then none else
    if (s.kl x.lid).closed then some (s.finishThread t x ⟨(s.kl x.lid).val, (s.kl x.lid).err⟩) else none

def run (c : FCfg) : FState → List FLabel → Option FState
  | s, [] => some s
  | s, l :: ls => match step c s l with
    | some s' => run c s' ls
    | none => none

def FState.init : FState := {}

end Cache
