import CacheModel.Basic
import CacheModel.Gen

/-
  `Invalidator.Invalidate`: rate-limited callbacks. The mutex makes concurrent calls a sequence; each call reads the
  clock twice (`time.Since(lastRun)` at `tCheck`, then `lastRun = time.Now()` at `tStamp ≥ tCheck`).
-/
namespace Cache

structure Invalidator where
  lastRun : Option Time := none      -- none = zero time.Time (never ran)
  skipInterval : Int                 -- the field; 0 is replaced by the default on first locked use
  deriving Repr, DecidableEq

inductive InvResult
  | nothing                 -- ErrNothingToInvalidate
  | already                 -- ErrAlreadyInvalidated
  | ran (callbacks : List Nat)   -- nil error; indices of the callbacks invoked, in invocation order
  deriving Repr, DecidableEq

def Invalidator.invalidate (i : Invalidator) (ncb : Nat) (tCheck tStamp : Time) : Invalidator × InvResult :=
  if Gen.nothingToInvalidate ncb then (i, .nothing)
  else
    let skip := if Gen.skipIntervalIsDefault i.skipInterval then Gen.defaultSkipInterval else i.skipInterval
    let i := { i with skipInterval := skip }
    match i.lastRun with
    | some last =>
      if Gen.invalidatorSkip (tCheck - last) skip then (i, .already)
      else ({ i with lastRun := some tStamp }, .ran (List.range ncb))
    | none => ({ i with lastRun := some tStamp }, .ran (List.range ncb))

/-- A call as the environment schedules it. -/
structure InvCall where
  ncb : Nat
  tCheck : Time
  tStamp : Time
  deriving Repr

def Invalidator.run : Invalidator → List InvCall → Invalidator × List InvResult
  | i, [] => (i, [])
  | i, c :: rest =>
    let (i1, r) := i.invalidate c.ncb c.tCheck c.tStamp
    let (i2, rs) := Invalidator.run i1 rest
    (i2, r :: rs)

end Cache
