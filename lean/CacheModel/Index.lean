import CacheModel.Basic

/-
  `InvalidationIndex`: cache name → label → keys; deleters per name; label invalidation with put-back on failure.
  The model follows the Go control flow literally (cut under the lock, dedup set, per-deleter delete, put-back).
  Non-determinism made explicit: `order` = the visiting order of the cache names (Go map iteration), and the deleters'
  answers: a deleter is a set of keys (a cache) plus a fault oracle on the global delete-call counter.
-/
namespace Cache

abbrev Name := Nat
abbrev Label := Nat
abbrev Did := Nat     -- deleter (cache) identity

/-- label ↦ keys (append order kept, duplicates kept — `AddLabels` appends blindly). -/
abbrev LabeledKeys := List (Label × List Key)

structure IdxState where
  idx : List (Name × LabeledKeys) := []
  deleters : List (Name × List Did) := []
  caches : List (Did × List Key) := []        -- contents of each deleter's cache (set of keys, no duplicates)
  calls : Nat := 0                             -- number of Delete calls issued so far (fault oracle argument)
  deriving Repr, DecidableEq

def lkGet (lk : LabeledKeys) (l : Label) : List Key := ((lk.find? (·.1 == l)).map (·.2)).getD []
def lkHas (lk : LabeledKeys) (l : Label) : Bool := (lk.find? (·.1 == l)).isSome
def lkErase (lk : LabeledKeys) (l : Label) : LabeledKeys := lk.filter (·.1 != l)
def lkSet (lk : LabeledKeys) (l : Label) (ks : List Key) : LabeledKeys := (l, ks) :: lkErase lk l

def IdxState.labeled (s : IdxState) (n : Name) : LabeledKeys := ((s.idx.find? (·.1 == n)).map (·.2)).getD []
def IdxState.setLabeled (s : IdxState) (n : Name) (lk : LabeledKeys) : IdxState :=
  { s with idx := (n, lk) :: s.idx.filter (·.1 != n) }
def IdxState.deletersOf (s : IdxState) (n : Name) : List Did := ((s.deleters.find? (·.1 == n)).map (·.2)).getD []
def IdxState.cache (s : IdxState) (d : Did) : List Key := ((s.caches.find? (·.1 == d)).map (·.2)).getD []
def IdxState.setCache (s : IdxState) (d : Did) (ks : List Key) : IdxState :=
  { s with caches := (d, ks) :: s.caches.filter (·.1 != d) }

/-- `AddCache(name, deleter)` -/
def IdxState.addCache (s : IdxState) (n : Name) (d : Did) : IdxState :=
  { s with deleters := (n, s.deletersOf n ++ [d]) :: s.deleters.filter (·.1 != n) }

/-- `AddLabels(name, key, labels...)`: append the key under every label (in argument order). -/
def IdxState.addLabels (s : IdxState) (n : Name) (k : Key) (labels : List Label) : IdxState :=
  s.setLabeled n (labels.foldl (fun lk l => lkSet lk l (lkGet lk l ++ [k])) (s.labeled n))

/-- Answer of one `Delete` call. -/
inductive DelAns | ok | notFound | fail
  deriving Repr, DecidableEq

/-- One `d.Delete(k)`: the fault oracle decides failure by call number; otherwise the cache answers truthfully. -/
def IdxState.deleteCall (s : IdxState) (faults : Nat → Bool) (d : Did) (k : Key) : IdxState × DelAns :=
  let s1 := { s with calls := s.calls + 1 }
  if faults s.calls then (s1, .fail)
  else if (s.cache d).contains k then (s1.setCache d ((s.cache d).filter (· != k)), .ok)
  else (s1, .notFound)

/-- `cutKeys`: for each label in argument order (a repeated label is skipped), move its key list out of the index. -/
def cutKeys (lk : LabeledKeys) (labels : List Label) : LabeledKeys × LabeledKeys :=
  labels.foldl (fun (acc : LabeledKeys × LabeledKeys) l =>
    if lkHas acc.1 l then acc else (acc.1 ++ [(l, lkGet acc.2 l)], lkErase acc.2 l)) ([], lk)

/-- Delete `k` from every deleter of the name, in order; stop at the first real failure. -/
def deleteEverywhere (faults : Nat → Bool) : IdxState → List Did → Key → Nat → IdxState × Nat × Bool
  | s, [], _, cnt => (s, cnt, true)
  | s, d :: ds, k, cnt =>
    match s.deleteCall faults d k with
    | (s1, .fail) => (s1, cnt, false)
    | (s1, .ok) => deleteEverywhere faults s1 ds k (cnt + 1)
    | (s1, .notFound) => deleteEverywhere faults s1 ds k cnt

/-- The keys of one label: skip already deleted ones, delete the others everywhere. Returns `false` on failure. -/
def processKeys (faults : Nat → Bool) (ds : List Did) :
    IdxState → List Key → List Key → Nat → IdxState × List Key × Nat × Bool
  | s, [], deleted, cnt => (s, deleted, cnt, true)
  | s, k :: ks, deleted, cnt =>
    if deleted.contains k then processKeys faults ds s ks deleted cnt
    else
      match deleteEverywhere faults s ds k cnt with
      | (s1, cnt1, true) => processKeys faults ds s1 ks (k :: deleted) cnt1
      | (s1, cnt1, false) => (s1, deleted, cnt1, false)

/-- The label loop of `invalidateByLabels`: `cut` shrinks as labels complete. -/
def processLabels (faults : Nat → Bool) (ds : List Did) :
    IdxState → List Label → LabeledKeys → List Key → Nat → IdxState × LabeledKeys × List Key × Nat × Bool
  | s, [], cut, deleted, cnt => (s, cut, deleted, cnt, true)
  | s, l :: ls, cut, deleted, cnt =>
    match processKeys faults ds s (lkGet cut l) deleted cnt with
    | (s1, deleted1, cnt1, true) => processLabels faults ds s1 ls (lkErase cut l) deleted1 cnt1
    | (s1, deleted1, cnt1, false) => (s1, cut, deleted1, cnt1, false)

/-- The deferred put-back: what is left in `cut`, minus keys already deleted, is appended to the index again. -/
def putBack (lk : LabeledKeys) (cut : LabeledKeys) (deleted : List Key) : LabeledKeys :=
  cut.foldl (fun lk p => lkSet lk p.1 (lkGet lk p.1 ++ p.2.filter (fun k => !deleted.contains k))) lk

/-- `invalidateByLabels` for one cache name. -/
def IdxState.invalidateName (s : IdxState) (faults : Nat → Bool) (n : Name) (labels : List Label) : IdxState × Nat × Bool :=
  let (cut, rest) := cutKeys (s.labeled n) labels
  let s0 := s.setLabeled n rest
  match processLabels faults (s.deletersOf n) s0 labels cut [] 0 with
  | (s1, cut1, deleted, cnt, ok) =>
    let s2 := if cut1.isEmpty then s1 else s1.setLabeled n (putBack (s1.labeled n) cut1 deleted)
    (s2, cnt, ok)

/-- `InvalidateByLabels`: the names indexed at call time, visited in `order`; stops at the first failing name. -/
def IdxState.invalidate (faults : Nat → Bool) : IdxState → List Name → List Label → Nat → IdxState × Nat × Bool
  | s, [], _, cnt => (s, cnt, true)
  | s, n :: ns, labels, cnt =>
    match s.invalidateName faults n labels with
    | (s1, c, true) => IdxState.invalidate faults s1 ns labels (cnt + c)
    | (s1, c, false) => (s1, cnt + c, false)

end Cache
