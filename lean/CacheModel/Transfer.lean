import CacheModel.Backend

/-
  Dump / Restore and the gob types hash.
  `encoding/gob` is MODELLED (not verified) as the identity on `{K,V,E,C}` records decoded into fresh variables.
  `dump s order` = the entries in the order the source's map iteration yields them (any permutation of `walk`).
-/
namespace Cache

/-- `Restore`: every decoded record is stored under the hash of its key; returns the store and the record count. -/
def Store.restore (hash : Key → Nat) (s : Store) (recs : List Entry) : Store × Nat :=
  (recs.foldl (fun s e => s.restoreOne hash e) s, recs.length)

/-- `GobRegister` bookkeeping: a type already seen is skipped, otherwise its fingerprint is XOR-ed into the hash. -/
structure GobReg where
  seen : List Nat := []          -- type identities
  hash : BitVec 64 := 0#64

def GobReg.register (fp : Nat → BitVec 64) (r : GobReg) (t : Nat) : GobReg :=
  if r.seen.contains t then r else { seen := t :: r.seen, hash := r.hash ^^^ fp t }

def typesHash (fp : Nat → BitVec 64) (regs : List Nat) : BitVec 64 :=
  (regs.foldl (GobReg.register fp) {}).hash

/-- HTTP import of one named cache: imported iff the exporter knows the name and the hashes agree. -/
def importOne (hash : Key → Nat) (target : Store) (exporterHas : Bool) (hashE hashI : BitVec 64) (dump : List Entry) : Store :=
  if exporterHas && hashE == hashI then (target.restore hash dump).1 else target

end Cache
