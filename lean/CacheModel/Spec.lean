import CacheModel.Basic

/-
  The reference the statement of C07 speaks about: a plain map with per-entry expiry, written as an
  association list keyed by the key itself — no hashing, no slots, no kernels.  It is the monitor of the
  sequential engine and the abstract side of the refinement theorem.
-/
namespace Cache.Spec

structure SEntry where
  V : Option Val
  E : Time
  deriving Repr, DecidableEq

abbrev SMap := List (Key × SEntry)

def get (m : SMap) (k : Key) : Option SEntry := (m.find? (·.1 == k)).map (·.2)
def remove (m : SMap) (k : Key) : SMap := m.filter (·.1 != k)
def put (m : SMap) (k : Key) (e : SEntry) : SMap := (k, e) :: remove m k

inductive ROut | miss | hit (v : Option Val) | expired (v : Option Val) (e : Time)
  deriving Repr, DecidableEq

def read (m : SMap) (k : Key) (skip : Bool) (now : Time) : ROut :=
  if skip then .miss else
  match get m k with
  | none => .miss
  | some e => if e.E ≠ 0 ∧ e.E < now then .expired e.V e.E else .hit e.V

def write (m : SMap) (k : Key) (v : Option Val) (E : Time) : SMap := put m k ⟨v, E⟩
def delete (m : SMap) (k : Key) : SMap × Bool := (remove m k, (get m k).isSome)
def expireAll (m : SMap) (now : Time) : SMap := m.map (fun p => (p.1, { p.2 with E := now }))
def deleteAll (_ : SMap) : SMap := []
def len (m : SMap) : Nat := m.length
def keys (m : SMap) : List Key := m.map (·.1)

end Cache.Spec
