import CacheModel.Failover

/- A lone `Get`: the machine run with ONE thread, the environment's answers given up front (the decision-table cell). -/
namespace Cache

/-- The answers the environment gives to a lone Get. -/
structure LoneEnv where
  read : ReadAns                 -- what the backend answers to the (only) Read
  now : Time := 0                -- clock at the failure-cache lookup
  refreshWrite : WriteAns := .ok
  build : BuildAns
  storeWrite : WriteAns := .ok
  errE : Time := 0               -- expiry the cached failure gets

def loneLabel (a : LoneEnv) (s : FState) : Option FLabel :=
  match (s.th 0).pc with
  | .preRead | .lockedRead => some (.readAns 0 a.read)
  | .wantLock => some (.elect 0)
  | .classify | .decideSync | .finish _ => some (.local 0)
  | .refreshing => some (.writeAns 0 a.refreshWrite)
  | .storing _ => some (.writeAns 0 a.storeWrite)
  | .checkErrs => some (.errsRead 0 a.now)
  | .building => some (.buildAns 0 a.build)
  | .storeErr _ => some (.errsWrite 0 a.errE)
  | .waiting => some (.wake 0)
  | .idle | .done => none

def loneRun (c : FCfg) (a : LoneEnv) : Nat → FState → FState
  | 0, s => s
  | n + 1, s =>
    match loneLabel a s with
    | none => s
    | some l => match step c s l with
      | some s' => loneRun c a n s'
      | none => s

/-- A lone Get for `key`, with `cached` = the failure cache content for the key beforehand. -/
def loneGet (c : FCfg) (a : LoneEnv) (key : Key) (skip : Bool) (cached : Option (Err × Time)) : FState :=
  let s0 : FState := { errs := fun k => if k = key then cached else none }
  match step c s0 (.begin 0 key skip none) with
  | some s1 => loneRun c a 14 s1
  | none => s0

end Cache
