import CacheModel.Failover
import CacheModel.DriverBackend

/-
  Failover engine of the driver (E2/E3). The harness runs real `Get` calls under a deterministic scheduler that parks
  every backend / builder call-out; after each resume it tells the driver which answer the thread received. The driver
  applies that label, then lets the thread run — election, classification, failure-cache access, publish/release —
  up to its next call-out, block or return (exactly what the resumed goroutine did), wakes released waiters, and
  prints every thread's position for the harness to compare.
-/
namespace Cache.Drv
open Cache

structure FoInst where
  cfg : FCfg
  st : FState := {}
  nThreads : Nat := 0
  errCfg : Cfg                -- configuration of the failure cache (for the expiry admissibility check)

def showGet (r : GetResult) : String :=
  s!"{showOptVal r.val},{match r.err with | some e => toString e | none => "nil"}"

def showThread (s : FState) (t : Nat) : String :=
  let x := s.th t
  let lastReq := (s.g.requests.find? (·.1 == t)).map (·.2)
  let pos := match x.pc with
    | .idle => "idle"
    | .preRead | .lockedRead =>
      match lastReq with | some (.read k sk) => s!"read:{k}:{if sk then 1 else 0}" | _ => "read:?"
    | .refreshing | .storing _ =>
      match lastReq with | some (.write k v ttl) => s!"write:{k}:{v}:{ttl}" | _ => "write:?"
    | .building =>
      match lastReq with | some (.build k d) => s!"build:{k}:{if d then 1 else 0}" | _ => "build:?"
    | .waiting => "waiting"
    | .done => "done"
    | _ => "internal"
  match x.returned with
  | some r => s!"{t}={pos} ret={showGet r}"
  | none => s!"{t}={pos}"

/-- Run thread `t` through its non-call-out steps. `now0/now1`: clock bracket; `errE`: observed expiry of the failure entry.
    Returns `none` when the outcome depends on the position inside the bracket. -/
def advance (c : FCfg) (fuel : Nat) (s : FState) (t : Nat) (now0 now1 : Time) (errE : Option Time) : Option FState :=
  match fuel with
  | 0 => some s
  | fuel + 1 =>
    match (s.th t).pc with
    | .wantLock => (step c s (.elect t)).bind fun s' => advance c fuel s' t now0 now1 errE
    | .classify | .decideSync | .finish _ => (step c s (.local t)).bind fun s' => advance c fuel s' t now0 now1 errE
    | .checkErrs =>
      match step c s (.errsRead t now0), step c s (.errsRead t now1) with
      | some a, some b =>
        if (a.th t).pc == (b.th t).pc then advance c fuel a t now0 now1 errE else none
      | _, _ => none
    | .storeErr _ =>
      match errE with
      | some E => (step c s (.errsWrite t E)).bind fun s' => advance c fuel s' t now0 now1 errE
      | none => none
    | _ => some s

def wakeAll (c : FCfg) (s : FState) (n : Nat) : FState :=
  (List.range n).foldl (fun s t => match step c s (.wake t) with | some s' => s' | none => s) s

def foSummary (i : FoInst) : String :=
  " ".intercalate ((List.range i.nThreads).map (showThread i.st))

def parseCell (s : String) : Option (Option Int) := if s == "-" then some none else (parseInt s).map some
def parseIntList (s : String) : Option (List Int) := if s == "" || s == "-" then some [] else (s.splitOn ",").mapM parseInt

def foNew (args : List (String × String)) : Option FoInst := do
  let variant ← match kv args "variant" with | some "F" => some Variant.failover | some "Of" => some Variant.failoverOf | _ => none
  let su ← kvBool args "su"; let sr ← kvBool args "sr"; let fh ← kvBool args "fh"
  let ms ← kvInt args "ms"; let fut ← kvInt args "fut"; let ut ← kvInt args "ut"
  let fut' := if fut == 0 then (match variant with | .failover => Gen.defaultFailedUpdateTTL | .failoverOf => Gen.defaultFailedUpdateTTLOf) else fut
  let ut' := if ut == 0 then (match variant with | .failover => Gen.defaultUpdateTTL | .failoverOf => Gen.defaultUpdateTTLOf) else ut
  pure { cfg := { variant, syncUpdate := su, syncRead := sr, failHard := fh, maxStaleness := ms, failedUpdateTTL := fut', updateTTL := ut' },
         errCfg := Cfg.normalize { ttl := fut', jn := 0, jd := 1, strategy := .mostExpired, deleteExpiredAfter := 60000000000, countSoftLimit := 0, efn := 0, efd := 1 } }

def foFinish (i : FoInst) (s : Option FState) (t : Nat) (t0 t1 : Time) (errE : Option Time) : FoInst × String :=
  match s with
  | none => (i, "disabled")
  | some s =>
    match advance i.cfg 12 s t t0 t1 errE with
    | none => (i, "ambig")
    | some s' =>
      let i' := { i with st := wakeAll i.cfg s' i.nThreads }
      (i', foSummary i')

def foStep (i : FoInst) (op : String) (a : List String) : Option (FoInst × String) :=
  match op, a with
  | "begin", [t, key, skip, cell, t0, t1] => do
    let t ← parseNat t; let key ← parseNat key; let skip ← parseBool skip; let cell ← parseCell cell
    let t0 ← parseInt t0; let t1 ← parseInt t1
    let i := { i with nThreads := max i.nThreads (t + 1) }
    pure (foFinish i (step i.cfg i.st (.begin t key skip cell)) t t0 t1 none)
  | "read", t :: t0 :: t1 :: rest => do
    let t ← parseNat t; let t0 ← parseInt t0; let t1 ← parseInt t1
    let ans ← match rest with
      | ["hit", v] => (parseNat v).map ReadAns.hit
      | ["miss"] => some ReadAns.miss
      | ["stale", v, expiredAt] => do
        let v ← parseNat v; let e ← parseInt expiredAt
        -- the staleness test must not depend on the position inside the bracket
        if i.cfg.freshEnough (t0 - e) == i.cfg.freshEnough (t1 - e) then some (ReadAns.stale v (t0 - e)) else none
      | ["err", e] => (parseNat e).map ReadAns.err
      | _ => none
    pure (foFinish i (step i.cfg i.st (.readAns t ans)) t t0 t1 none)
  | "write", t :: t0 :: t1 :: rest => do
    let t ← parseNat t; let t0 ← parseInt t0; let t1 ← parseInt t1
    let ans ← match rest with
      | ["ok"] => some WriteAns.ok
      | ["err", e] => (parseNat e).map WriteAns.err
      | _ => none
    pure (foFinish i (step i.cfg i.st (.writeAns t ans)) t t0 t1 none)
  | "build", t :: t0 :: t1 :: kind :: x :: rest => do
    let t ← parseNat t; let t0 ← parseInt t0; let t1 ← parseInt t1; let x ← parseNat x
    let args := kvArgs rest
    let ups ← kv args "ups" >>= parseIntList
    let errE := kvInt args "errE"
    let ans ← match kind with
      | "ok" => some (BuildAns.ok x ups)
      | "err" => some (BuildAns.err x ups)
      | _ => none
    -- the stored failure must expire within FailedUpdateTTL(1 ± jitter/2) of the builder's return (C05)
    -- (a specification-level test: FailedUpdateTTL whatever ttl the caller's context carries, independent of the regenerated kernels)
    match kind, errE, i.cfg.errCache with
    | "err", some E, true =>
      if !admissibleE i.errCfg 0 t0 t1 E then
        pure (i, s!"bad-errE bounds={repr (expiryBounds i.errCfg 0 t0 t1)} got={E}")
      else pure (foFinish i (step i.cfg i.st (.buildAns t ans)) t t0 t1 errE)
    | "err", none, true => pure (i, "missing-errE")
    | _, _, _ => pure (foFinish i (step i.cfg i.st (.buildAns t ans)) t t0 t1 errE)
  | "seederr", [key, e, E] => do
    -- a failure already cached for the key before the scenario starts
    let key ← parseNat key; let e ← parseNat e; let E ← parseInt E
    pure ({ i with st := { i.st with errs := fun k => if k = key then some (e, E) else i.st.errs k } }, "ok")
  | "stats", [] =>
    let g := i.st.g
    let locks := ((List.range i.st.nextLid).filter (fun l => !(i.st.kl l).closed)).length
    pure (i, s!"build={g.builds} failed={g.failed} refreshed={g.refreshed} buildcalls={g.buildCalls} locks={locks}")
  | "summary", [] => pure (i, foSummary i)
  | "owner", [t] => do
    -- was goroutine t elected owner of its key lock (as opposed to finding the key locked and waiting)?
    let t ← parseNat t
    pure (i, if (i.st.th t).owner then "1" else "0")
  | _, _ => none

end Cache.Drv
