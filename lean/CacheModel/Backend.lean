import Std.Data.TreeMap
import CacheModel.Basic
import CacheModel.Gen

/-
  Backend model: a store keyed by *slot* (`hash k`; the 64-bit xxhash for the sharded maps, an injective
  numbering for SyncMap) holding at most one entry per slot BY CONSTRUCTION, exactly like
  `map[uint64]*TraitEntry`.  `hash` is a parameter: every theorem holds for every hash function,
  collisions included.  All sources of non-determinism are explicit arguments (`now`, the jitter
  random number `rn/rd`, the visiting order of Go map iteration where it matters).
-/
namespace Cache

structure Store where
  slots : Std.TreeMap Nat Entry := {}
  expirationsSet : Int := 0

def Store.empty : Store := {}

/-- The defaults `NewTrait` applies to a raw `Config`. -/
def Cfg.normalize (raw : Cfg) : Cfg :=
  { raw with
    ttl := if raw.ttl == 0 then Gen.defaultTimeToLive else raw.ttl
    deleteExpiredAfter := if raw.deleteExpiredAfter == 0 then Gen.defaultDeleteExpiredAfter else raw.deleteExpiredAfter
    jn := if raw.jn == 0 then Gen.defaultJitterN else raw.jn
    jd := if raw.jn == 0 then Gen.defaultJitterD else raw.jd }

inductive ReadOut
  | miss
  | hit (v : Option Val)
  | expired (v : Option Val) (e : Time)
  deriving Repr, DecidableEq

/-- Which copy of the duplicated kernels an instance uses. -/
inductive Kind | sharded | shardedOf | sync
  deriving Repr, DecidableEq, Inhabited

def Kind.isExpired : Kind → Int → Int → Bool
  | .shardedOf => Gen.isExpiredOf
  | _ => Gen.isExpired
def Kind.keyMismatchRead : Kind → Bool → Bool → Bool
  | .sharded => Gen.keyMismatchRead
  | .shardedOf => Gen.keyMismatchReadOf
  | .sync => fun found _ => !found           -- sync.Map.Load by string key
def Kind.keyMismatchDelete : Kind → Bool → Bool → Bool
  | .sharded => Gen.keyMismatchDelete
  | .shardedOf => Gen.keyMismatchDeleteOf
  | .sync => fun found _ => !found           -- sync.Map.LoadAndDelete by string key
def Kind.deleteExpiredCond : Kind → Int → Int → Bool
  | .sharded => Gen.deleteExpiredCond
  | .shardedOf => Gen.deleteExpiredCondOf
  | .sync => Gen.deleteExpiredCondSync

section ops
variable (hash : Key → Nat)

/-- What the lookup section of Read/Delete sees: the slot content and the two booleans of the kernel. -/
def Store.slot (s : Store) (k : Key) : Option Entry := s.slots[hash k]?

def slotKeyEq (slot : Option Entry) (k : Key) : Bool :=
  match slot with
  | some e => e.K == k
  | none => false

/-- `Read`: SkipRead short-circuit, lookup, key comparison, then `PrepareRead`. -/
def Store.read (kind : Kind) (cfg : Cfg) (s : Store) (k : Key) (skip : Bool) (now : Time) :
    Store × ReadOut × List Metric :=
  if skip then (s, .miss, [])
  else
    let slot := s.slot hash k
    -- Go's `!found || ...` short-circuits: for an empty slot the comparison is not evaluated, whatever its spelling
    if !slot.isSome || kind.keyMismatchRead true (slotKeyEq slot k) then (s, .miss, [.miss])
    else match slot with
      | none => (s, .miss, [.miss])      -- not reachable with the verified kernel (Go would dereference nil)
      | some e =>
        let c' := match cfg.strategy with
          | .mostExpired => e.C
          | .lru => now
          | .lfu => e.C + 1
        let s' := { s with slots := s.slots.insert (hash k) { e with C := c' } }
        if kind.isExpired e.E now then (s', .expired e.V e.E, [.expired 1])
        else (s', .hit e.V, [.hit])

/-- jitter displacement: `Duration(float64(ttl) * J * (r - 0.5))`, exact rationals, truncated toward zero. -/
def jitterDelta (cfg : Cfg) (T : Int) (rn rd : Nat) : Int :=
  Int.tdiv (T * cfg.jn * (2 * (rn : Int) - rd)) (2 * cfg.jd * rd)

/-- `Trait.TTL`: effective ttl with jitter, and whether `expirationsSet` is bumped. -/
def ttlOf (cfg : Cfg) (ctxTTL : Int) (rn rd : Nat) : Int × Bool :=
  if Gen.ttlIsDefault ctxTTL && Gen.cfgIsUnlimited cfg.ttl then (0, false)
  else
    let T := if Gen.ttlIsDefault ctxTTL then cfg.ttl else ctxTTL
    let T' := if Gen.jitterOn cfg.jn then T + jitterDelta cfg T rn rd else T
    (T', Gen.bumpExpirationsSet cfg.ttl T')

/-- `Trait.expireAt` -/
def expireAt (ttl : Int) (now : Time) : Time :=
  if Gen.expireAtNonZero ttl then now + ttl else 0

/-- The store update of `Write` once expiry and bump are known. A colliding key's entry is replaced. -/
def Store.writeCore (s : Store) (k : Key) (v : Option Val) (E : Time) (bump : Bool) : Store :=
  { slots := s.slots.insert (hash k) { K := k, V := v, E := E, C := 0 },
    expirationsSet := if bump then s.expirationsSet + 1 else s.expirationsSet }

def Store.write (cfg : Cfg) (s : Store) (k : Key) (v : Option Val) (ctxTTL : Int) (now : Time) (rn rd : Nat) :
    Store × List Metric :=
  let (ttl, bump) := ttlOf cfg ctxTTL rn rd
  (s.writeCore hash k v (expireAt ttl now) bump, [.write])

/-- `Delete`: `true` = deleted, `false` = ErrNotFound. -/
def Store.delete (kind : Kind) (s : Store) (k : Key) : Store × Bool × List Metric :=
  let slot := s.slot hash k
  if !slot.isSome || kind.keyMismatchDelete true (slotKeyEq slot k) then (s, false, [])
  else ({ s with slots := s.slots.erase (hash k) }, true, [.delete 1])

end ops

/-- `ExpireAll`: every entry (never-expiring ones included) gets `E := now`. -/
def Store.expireAll (s : Store) (now : Time) : Store × List Metric :=
  let n := s.slots.size
  ({ slots := s.slots.map (fun _ e => { e with E := now }),
     expirationsSet := if n > 0 then s.expirationsSet + 1 else s.expirationsSet },
   [.expired n])

def Store.deleteAll (s : Store) : Store × List Metric :=
  ({ s with slots := {} }, [.delete s.slots.size])

def Store.len (s : Store) : Nat := s.slots.size

/-- `Walk` in canonical (slot) order; the implementation's order is a permutation of it. -/
def Store.walk (s : Store) : List Entry := s.slots.toList.map (·.2)

/-- `deleteExpired(before)` -/
def Store.deleteExpired (kind : Kind) (s : Store) (before : Time) : Store :=
  { s with slots := s.slots.filter (fun _ e => !kind.deleteExpiredCond e.E before) }

/-- `Restore` of one decoded record. -/
def Store.restoreOne (hash : Key → Nat) (s : Store) (e : Entry) : Store :=
  { slots := s.slots.insert (hash e.K) e,
    expirationsSet := if e.E != 0 then s.expirationsSet + 1 else s.expirationsSet }

end Cache
