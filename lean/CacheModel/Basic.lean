/-
  Vocabulary of the model.  Keys, values and errors are opaque tokens minted by the harness:
  two byte strings get the same `Key` iff they are equal (the harness owns that injective map),
  so `bytes.Equal(a,b)` in Go is `a == b` here.  Time is unix nanoseconds.
-/
namespace Cache

-- Pure notations (not definitions): `omega`, `simp` and `decide` see `Nat` / `Int` directly.
notation "Key" => Nat
notation "Val" => Nat
notation "Err" => Nat
notation "Time" => Int

/-- A stored entry: key, value (`none` = Go nil / zero value written as such), expiry (0 = never), usage metric. -/
structure Entry where
  K : Key
  V : Option Val
  E : Time
  C : Int
  deriving Repr, DecidableEq, Inhabited

inductive Strategy | mostExpired | lru | lfu
  deriving Repr, DecidableEq, Inhabited

/-- Backend configuration *after* the defaults of `NewTrait` were applied. -/
structure Cfg where
  ttl : Int                 -- Config.TimeToLive (never 0 after defaults); -1 = UnlimitedTTL
  jn : Int                  -- ExpirationJitter = jn/jd (jn ≤ 0: disabled)
  jd : Nat
  strategy : Strategy
  deleteExpiredAfter : Int
  countSoftLimit : Nat
  efn : Nat                 -- EvictFraction = efn/efd (0 is defaulted by the cleanup itself)
  efd : Nat
  deriving Repr, Inhabited

/-- Metric events emitted by backend operations (C18). -/
inductive Metric
  | hit | miss | expired (n : Nat) | write | delete (n : Nat) | evict (n : Nat)
  deriving Repr, DecidableEq

structure Totals where
  hit : Nat := 0
  miss : Nat := 0
  expired : Nat := 0
  write : Nat := 0
  delete : Nat := 0
  evict : Nat := 0
  deriving Repr, DecidableEq, Inhabited

def Totals.add (t : Totals) : Metric → Totals
  | .hit => { t with hit := t.hit + 1 }
  | .miss => { t with miss := t.miss + 1 }
  | .expired n => { t with expired := t.expired + n }
  | .write => { t with write := t.write + 1 }
  | .delete n => { t with delete := t.delete + n }
  | .evict n => { t with evict := t.evict + n }

def Totals.addAll (t : Totals) (ms : List Metric) : Totals := ms.foldl Totals.add t

end Cache
