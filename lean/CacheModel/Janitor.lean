import CacheModel.Backend

/-  The cleanup cycle (`Trait.invokeCleanup`): delete long-expired entries, then evict on a soft-limit breach. -/
namespace Cache

structure CleanupEnv where
  now : Time
  ho : Bool          -- heap-in-use soft limit exceeded (runtime.MemStats: an input)
  so : Bool          -- sys-memory soft limit exceeded
  hasNeeded : Bool   -- Config.EvictionNeeded != nil
  needed : Bool      -- its answer
  deriving Repr, Inhabited

def countOverflow (cfg : Cfg) (n : Nat) : Bool :=
  if Gen.countOverflowOff cfg.countSoftLimit false then false else Gen.countOver n cfg.countSoftLimit

/-- `n * frac` as an exact rational `(p, q)`; for a count breach `frac` is first rescaled to
    `1 - CountSoftLimit*(1-frac)/n`. -/
def evictAmount (cfg : Cfg) (n : Nat) (co : Bool) : Nat × Nat :=
  let (fn, fd) := if Gen.fracIsDefault cfg.efn then (Gen.defaultEvictFracN, Gen.defaultEvictFracD) else (cfg.efn, cfg.efd)
  if co then (n * fd - cfg.countSoftLimit * (fd - fn), fd) else (n * fn, fd)

def metricOf (st : Strategy) (e : Entry) : Int :=
  match st with
  | .mostExpired => e.E
  | _ => e.C

def eraseAll (m : Std.TreeMap Nat Entry) (hs : List Nat) : Std.TreeMap Nat Entry :=
  hs.foldl (fun m h => m.erase h) m

/-- The slots `evictLeast` removes: the `k` first in metric order (ties: by slot; the implementation's
    tie order is unspecified, the theorems cover every valid choice through `ValidEviction`). -/
def Store.victims (st : Strategy) (s : Store) (k : Nat) : List Nat :=
  ((s.slots.toList.mergeSort (fun a b => decide (metricOf st a.2 ≤ metricOf st b.2))).take k).map (·.1)

def Store.evict (s : Store) (victims : List Nat) : Store :=
  { s with slots := eraseAll s.slots victims }

def Store.evictLeast (st : Strategy) (s : Store) (k : Nat) : Store := s.evict (s.victims st k)

/-- Executable validity of an observed eviction: `removed` are distinct occupied slots and every removed
    entry ranks no higher than every kept one. -/
def Store.validEviction (st : Strategy) (s : Store) (removed : List Nat) : Bool :=
  removed.Nodup && removed.all (fun h => s.slots.contains h) &&
  removed.all (fun h => match s.slots[h]? with
    | none => false
    | some r => s.slots.toList.all (fun p => removed.contains p.1 || metricOf st r ≤ metricOf st p.2))

def Store.cleanupScan (kind : Kind) (cfg : Cfg) (s : Store) (now : Time) : Store :=
  if Gen.scanEnabled true cfg.ttl s.expirationsSet then s.deleteExpired kind (now - cfg.deleteExpiredAfter) else s

/-- Does the cycle evict, and how many (exact floor)? -/
def evictPlan (cfg : Cfg) (n : Nat) (env : CleanupEnv) : Option Nat :=
  let co := countOverflow cfg n
  if Gen.evictTrigger env.ho env.so co env.hasNeeded env.needed then
    let (p, q) := evictAmount cfg n co
    some (p / q)
  else none

def Store.cleanup (kind : Kind) (cfg : Cfg) (s : Store) (env : CleanupEnv) : Store × List Metric :=
  let s1 := s.cleanupScan kind cfg env.now
  match evictPlan cfg s1.len env with
  | some k => (s1.evictLeast cfg.strategy k, [.evict k])
  | none => (s1, [])

end Cache
