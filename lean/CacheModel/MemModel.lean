/-
  A small trace semantics of the part of the Go memory model the cache relies on (C16): sequentially consistent
  interleavings of events of several goroutines; `sync.RWMutex` (Lock/Unlock = exclusive, RLock/RUnlock = shared),
  `sync/atomic`, channel close / receive-after-close. Happens-before is the transitive closure of program order and the
  synchronisation edges the Go memory model document lists:

    * call n of `l.Unlock()` is synchronized before call m>n of `l.Lock()` returns; an `RLock` is synchronized after the
      preceding `Unlock`, and the matching `RUnlock` is synchronized before the next `Lock`
      (so: release → later acquire of the same lock whenever at least one of the two is exclusive);
    * atomic operations on one location behave sequentially consistently (an atomic access is synchronized before
      later atomic accesses of the same location);
    * the closing of a channel is synchronized before a receive that returns because the channel is closed.

  A data race is a pair of conflicting accesses (same location, different goroutines, at least one write, not both atomic)
  not ordered by happens-before. The lockset theorem (CacheProofs/Lemmas/Lockset.lean) is proved over ALL legal traces.
-/
namespace Cache.MM

inductive Mode | sh | ex
  deriving DecidableEq, Repr

inductive Ev
  | acc (t l : Nat) (w atomic : Bool)      -- goroutine t accesses location l
  | acq (t k : Nat) (m : Mode)             -- Lock (ex) / RLock (sh) returns
  | rel (t k : Nat) (m : Mode)             -- Unlock (ex) / RUnlock (sh)
  | close (t c : Nat)                      -- close(ch)
  | recv (t c : Nat)                       -- <-ch returning because ch is closed
  deriving DecidableEq, Repr

def Ev.tid : Ev → Nat
  | .acc t .. => t
  | .acq t .. => t
  | .rel t .. => t
  | .close t _ => t
  | .recv t _ => t

/-- Which goroutine holds which lock in which mode. -/
abbrev Held := Nat → Nat → Option Mode

def Held.set (h : Held) (t k : Nat) (v : Option Mode) : Held :=
  fun t' k' => if t' = t ∧ k' = k then v else h t' k'

def stepH (h : Held) : Ev → Held
  | .acq t k m => h.set t k (some m)
  | .rel t k _ => h.set t k none
  | _ => h

/-- What `sync.RWMutex` allows: an exclusive acquire needs the lock free, a shared acquire needs no exclusive holder (and no
    recursive read locking by the same goroutine, which the Go documentation prohibits), a release needs the matching hold. -/
def legalEv (h : Held) : Ev → Prop
  | .acq _ k .ex => ∀ t', h t' k = none
  | .acq t k .sh => h t k = none ∧ ∀ t', h t' k ≠ some .ex
  | .rel t k m => h t k = some m
  | _ => True

def heldAfter (tr : List Ev) : Held := tr.foldl stepH (fun _ _ => none)

/-- Lock state just before event number n. -/
def heldAt (tr : List Ev) (n : Nat) : Held := heldAfter (tr.take n)

def Legal (tr : List Ev) : Prop := ∀ n (h : n < tr.length), legalEv (heldAt tr n) tr[n]

inductive HB (tr : List Ev) : Nat → Nat → Prop
  | po {i j : Nat} {e e' : Ev} : i < j → tr[i]? = some e → tr[j]? = some e' → e.tid = e'.tid → HB tr i j
  | lock {i j t t' k : Nat} {m m' : Mode} : i < j → tr[i]? = some (Ev.rel t k m) → tr[j]? = some (Ev.acq t' k m') →
      (m = .ex ∨ m' = .ex) → HB tr i j
  | atomic {i j t t' l : Nat} {w w' : Bool} : i < j → tr[i]? = some (Ev.acc t l w true) → tr[j]? = some (Ev.acc t' l w' true) → HB tr i j
  | chan {i j t t' c : Nat} : i < j → tr[i]? = some (Ev.close t c) → tr[j]? = some (Ev.recv t' c) → HB tr i j
  | trans {i j k : Nat} : HB tr i j → HB tr j k → HB tr i k

/-- Events i < j are a data race on location l. -/
def Race (tr : List Ev) (l i j : Nat) : Prop :=
  i < j ∧ ∃ (t t' : Nat) (w w' a a' : Bool), tr[i]? = some (Ev.acc t l w a) ∧ tr[j]? = some (Ev.acc t' l w' a') ∧
    t ≠ t' ∧ (w = true ∨ w' = true) ∧ ¬ (a = true ∧ a' = true) ∧ ¬ HB tr i j

/-- Lock discipline for a location: every access happens while the accessing goroutine holds lock k, writes exclusively. -/
def LockDisciplined (tr : List Ev) (l k : Nat) : Prop :=
  ∀ (p t : Nat) (w a : Bool), tr[p]? = some (Ev.acc t l w a) → ∃ m, heldAt tr p t k = some m ∧ (w = true → m = .ex)

/-- Atomic discipline: every access to the location is a sync/atomic operation. -/
def AtomicDisciplined (tr : List Ev) (l : Nat) : Prop :=
  ∀ (p t : Nat) (w a : Bool), tr[p]? = some (Ev.acc t l w a) → a = true

end Cache.MM
