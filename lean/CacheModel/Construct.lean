import CacheModel.Gen
import CacheModel.Failover

/-
  Constructors of the frontends: what `NewFailover` / `NewFailoverOf` hand to the backend they create when none is given.

  The translator reads two facts off the constructor's text (`Gen.backendCfgPassthrough[Of]`: the default backend is built
  from `cfg.BackendConfig.Use`, and the only fields of `BackendConfig` the constructor writes are Name, Logger, Stats;
  `Gen.backendCfgIdentity[Of]`: Name and Stats are the failover's own). The model of the constructor is written against them:
  where a fact does not hold, the configuration / label the backend gets is whatever the constructor made of it (`altered`).
-/
namespace Cache

def backendCfgPassthrough : Variant → Bool
  | .failover => Gen.backendCfgPassthrough
  | .failoverOf => Gen.backendCfgPassthroughOf

def backendCfgIdentity : Variant → Bool
  | .failover => Gen.backendCfgIdentity
  | .failoverOf => Gen.backendCfgIdentityOf

/-- Behavioural configuration (ttl, jitter, eviction, DeleteExpiredAfter, limits) of the default backend. -/
def defaultBackendCfg (v : Variant) (backendConfig altered : Cfg) : Cfg :=
  if backendCfgPassthrough v then backendConfig else altered

/-- Name under which the default backend reports its metrics. -/
def defaultBackendName (v : Variant) (failoverName altered : String) : String :=
  if backendCfgPassthrough v && backendCfgIdentity v then failoverName else altered

/-- What a context exposes to a builder. -/
structure CtxView where
  cancellable : Bool            -- Done() != nil
  err : Option Err              -- Err()
  deadline : Option Time
  value : Nat → Option Nat      -- Value(key)

/-- `detachedContext{parent}` of context.go, method by method as the translator read them (`Gen.detached*`: each method is a
    single constant `return` — `Value` forwards to the parent — and the struct embeds nothing that would promote methods);
    where a fact does not hold the parent shows through. -/
def detach (p : CtxView) : CtxView :=
  { cancellable := if Gen.detachedNeverDone then false else p.cancellable
    err := if Gen.detachedNoErr then none else p.err
    deadline := if Gen.detachedNoDeadline then none else p.deadline
    value := if Gen.detachedForwardsValues then p.value else fun _ => none }

def ctxSyncDetaches : Variant → Bool
  | .failover => Gen.ctxSyncDetaches
  | .failoverOf => Gen.ctxSyncDetachesOf

/-- The context `ctxSync` hands to a background build (`detached = true` in the machine). -/
def bgBuildCtx (v : Variant) (caller : CtxView) : CtxView :=
  if ctxSyncDetaches v then detach caller else caller

end Cache
