import Std.Data.HashMap
import CacheModel.Invalidator
import CacheModel.Index
import CacheModel.Transfer
import CacheModel.FootprintTable
import CacheModel.Linz
import CacheModel.DriverUtil

/- Driver engines for the Invalidator (`iv`), the InvalidationIndex (`ix`) and the gob types hash (`gh`). -/
namespace Cache.Drv
open Cache

/-! ### Invalidator: the harness brackets each real call by two clock readings -/

structure IvInst where
  inv : Invalidator
  lastLo : Time := 0      -- bracket of the model's `lastRun` (meaningful when inv.lastRun is some)
  lastHi : Time := 0

/-- `iv call`: which results does the model allow for SOME clock readings inside the bracket? -/
def ivCall (i : IvInst) (ncb : Nat) (t0 t1 : Time) (obs : String) : IvInst × String :=
  -- evaluate the model at the two extreme schedules
  let early := ({ i.inv with lastRun := i.inv.lastRun.map (fun _ => i.lastHi) }).invalidate ncb t0 t0
  let late := ({ i.inv with lastRun := i.inv.lastRun.map (fun _ => i.lastLo) }).invalidate ncb t1 t1
  let tag : InvResult → String
    | .nothing => "nothing"
    | .already => "already"
    | .ran cbs => s!"ran:{cbs.length}"
  let allowed := [tag early.2, tag late.2]
  if allowed.contains obs then
    let i' : IvInst :=
      if obs.startsWith "ran" then { inv := { late.1 with lastRun := some t1 }, lastLo := t0, lastHi := t1 }
      else { i with inv := { i.inv with skipInterval := late.1.skipInterval } }
    (i', "ok")
  else (i, s!"mismatch model-allows={allowed}")

/-! ### InvalidationIndex -/

def showLK (lk : LabeledKeys) : String :=
  let ls := (lk.filter (fun p => !p.2.isEmpty)).mergeSort (fun a b => a.1 ≤ b.1)
  ";".intercalate (ls.map fun p => s!"{p.1}={showNatList (p.2.mergeSort (· ≤ ·))}")

def dumpIdx (s : IdxState) : String :=
  let names := (s.idx.map (·.1)).eraseDups.mergeSort (· ≤ ·)
  let idx := names.filterMap fun n =>
    let t := showLK (s.labeled n)
    if t == "" then none else some s!"{n}:[{t}]"
  let dids := (s.caches.map (·.1)).eraseDups.mergeSort (· ≤ ·)
  let cs := dids.map fun d => s!"{d}:{showNatList ((s.cache d).mergeSort (· ≤ ·))}"
  s!"idx {" ".intercalate idx} | caches {" ".intercalate cs}"

def ixStep (s : IdxState) (op : String) (a : List String) : Option (IdxState × String) :=
  match op, a with
  | "addcache", [n, d] => do
    let n ← parseNat n; let d ← parseNat d
    pure (s.addCache n d, "ok")
  | "cacheput", [d, k] => do
    let d ← parseNat d; let k ← parseNat k
    let c := s.cache d
    pure (if c.contains k then s else s.setCache d (k :: c), "ok")
  | "cachedel", [d, k] => do
    let d ← parseNat d; let k ← parseNat k
    pure (s.setCache d ((s.cache d).filter (· != k)), "ok")
  | "addlabels", [n, k, ls] => do
    let n ← parseNat n; let k ← parseNat k; let ls ← parseNatList ls
    pure (s.addLabels n k ls, "ok")
  | "inval", rest => do
    let args := kvArgs rest
    let order ← kv args "order" >>= parseNatList
    let labels ← kv args "labels" >>= parseNatList
    let faults ← kv args "faults" >>= parseNatList
    let (s', cnt, ok) := IdxState.invalidate (fun i => faults.contains i) s order labels 0
    pure (s', s!"n={cnt} ok={if ok then 1 else 0} calls={s'.calls}")
  | "dump", [] => pure (s, dumpIdx s)
  | "names", [] => pure (s, showNatList ((s.idx.filter (fun p => !(showLK p.2 == ""))).map (·.1)).eraseDups)
  | _, _ => none

/-! ### gob types hash -/

/-- `gh xor t1:fp1,t2:fp2,…` — registration sequence (type id : fingerprint), repeats allowed. -/
def ghXor (arg : String) : Option String := do
  let items ← (if arg == "-" then some [] else (arg.splitOn ",").mapM fun it =>
    match it.splitOn ":" with
    | [t, f] => do let t ← parseNat t; let f ← parseNat f; pure (t, f)
    | _ => none)
  let fp : Nat → BitVec 64 := fun t => BitVec.ofNat 64 (((items.find? (·.1 == t)).map (·.2)).getD 0)
  pure (toString (typesHash fp (items.map (·.1))).toNat)

/-! ### linearizability: `lz check <init> <event>…` with event = id;op;res;inv;ret -/

def parseLOp (s : String) : Option Linz.LOp :=
  match s.splitOn ":" with
  | ["w", k, v, e] => do let k ← parseNat k; let v ← parseNat v; let e ← parseBool e; pure (.write k v e)
  | ["r", k] => (parseNat k).map .read
  | ["d", k] => (parseNat k).map .delete
  | ["xa"] => some .expireAll
  | ["da"] => some .deleteAll
  | ["cl"] => some .cleanup
  | _ => none

def parseLRes (s : String) : Option Linz.LRes :=
  match s.splitOn ":" with
  | ["unit"] => some .unit
  | ["miss"] => some .miss
  | ["hit", v] => (parseNat v).map .hit
  | ["exp", v] => (parseNat v).map .exp
  | ["ok"] => some .ok
  | ["nf"] => some .notFound
  | _ => none

def parseEvent (s : String) : Option Linz.Event :=
  match s.splitOn ";" with
  | [id, op, res, inv, ret] => do
    let id ← parseNat id; let op ← parseLOp op; let res ← parseLRes res; let inv ← parseNat inv; let ret ← parseNat ret
    pure { id, op, res, inv, ret }
  | _ => none

def lzCheck (init : String) (evs : List String) : Option String := do
  let s0 : Store ← (if init == "-" then some {} else
    match init.splitOn ":" with
    | [k, v, e] => do
      let k ← parseNat k; let v ← parseNat v; let e ← parseBool e
      pure (({} : Store).writeCore Linz.slotHash k (some v) (if e then 5 else 0) false)
    | _ => none)
  let events ← evs.mapM parseEvent
  match Linz.linearizable s0 events with
  | some w => pure s!"lin {showNatList w}"
  | none =>
    -- "not linearizable" is reported only on the strength of C08_notlin_verdict_sound: the search answered "not found" and
    -- the event ids are distinct. Anything else (budget exhausted, a witness the independent check rejects, duplicate ids)
    -- is no verdict.
    let ids := events.map (·.id)
    if Linz.inconclusive s0 events || (Linz.search (events.length + 1) s0 events).isSome || ids.eraseDups.length != ids.length then
      pure "inconclusive"
    else pure (if Linz.searchLoose (events.length + 1) s0 events then "notlin cleanup-deleted-live-entry" else "notlin")

/-- `fp racy`: the unprotected conflicting pairs the footprint table predicts, as `loc:signature`. -/
def fpRacy : String :=
  " ".intercalate (((FP.racyPairs FP.table).map fun p => s!"{FP.locName p.1.loc}:{FP.sig p}").eraseDups)

end Cache.Drv
