import CacheModel.Basic

/- Parsing / printing helpers of the line protocol.  Malformed input is `none` → the driver answers `bad-op`. -/
namespace Cache.Drv

def parseInt (s : String) : Option Int := s.toInt?
def parseNat (s : String) : Option Nat := s.toNat?
def parseBool (s : String) : Option Bool :=
  if s == "1" then some true else if s == "0" then some false else none
def parseOptVal (s : String) : Option (Option Val) :=
  if s == "nil" then some none else (s.toNat?).map some
def showOptVal : Option Val → String
  | none => "nil"
  | some v => toString v

/-- `name=value` arguments. -/
def kvArgs (toks : List String) : List (String × String) :=
  toks.filterMap fun t =>
    match t.splitOn "=" with
    | [k, v] => some (k, v)
    | _ => none

def kv (args : List (String × String)) (k : String) : Option String := (args.find? (·.1 == k)).map (·.2)
def kvInt (args : List (String × String)) (k : String) : Option Int := kv args k >>= parseInt
def kvNat (args : List (String × String)) (k : String) : Option Nat := kv args k >>= parseNat
def kvBool (args : List (String × String)) (k : String) : Option Bool := kv args k >>= parseBool

def parseNatList (s : String) : Option (List Nat) :=
  if s == "" || s == "-" then some [] else (s.splitOn ",").mapM parseNat

def showNatList (l : List Nat) : String := if l.isEmpty then "-" else ",".intercalate (l.map toString)

end Cache.Drv
