import CacheModel.Backend
import CacheModel.Janitor
import CacheModel.Spec

/-
  The sequential backend machine: one `step` per public operation, every non-deterministic input explicit
  (clock reading `now`, jitter random number `rn/rd`).  `run` folds it over a history of timed operations.
  The reference machine `Spec.step` does the same over the plain map.
-/
namespace Cache

inductive Op
  | write (k : Key) (v : Option Val) (ctxTTL : Int) (rn rd : Nat)
  | read (k : Key) (skip : Bool)
  | delete (k : Key)
  | expireAll
  | deleteAll
  | len
  | walk
  | load (k : Key)
  | store (k : Key) (v : Option Val) (rn rd : Nat)
  deriving Repr

inductive Out
  | unit
  | read (r : ReadOut)
  | deleted (ok : Bool)
  | len (n : Nat)
  | walk (es : List Entry)
  | loaded (v : Option (Option Val))
  deriving Repr

def Backend.step (hash : Key → Nat) (kind : Kind) (cfg : Cfg) (s : Store) (now : Time) : Op → Store × Out × List Metric
  | .write k v ctxTTL rn rd =>
    let (s', ms) := s.write hash cfg k v ctxTTL now rn rd
    (s', .unit, ms)
  | .read k skip =>
    let (s', r, ms) := s.read hash kind cfg k skip now
    (s', .read r, ms)
  | .delete k =>
    let (s', ok, ms) := s.delete hash kind k
    (s', .deleted ok, ms)
  | .expireAll =>
    let (s', ms) := s.expireAll now
    (s', .unit, ms)
  | .deleteAll =>
    let (s', ms) := s.deleteAll
    (s', .unit, ms)
  | .len => (s, .len s.len, [])
  | .walk => (s, .walk s.walk, [])
  | .load k =>
    let (s', r, ms) := s.read hash kind cfg k false now
    (s', .loaded (match r with | .hit v => some v | _ => none), ms)
  | .store k v rn rd =>
    let (s', ms) := s.write hash cfg k v 0 now rn rd
    (s', .unit, ms)

/-- A history: operations with the clock reading each one took. -/
abbrev History := List (Time × Op)

def Backend.run (hash : Key → Nat) (kind : Kind) (cfg : Cfg) : Store → History → Store × List Out × List Metric
  | s, [] => (s, [], [])
  | s, (now, op) :: rest =>
    let (s1, o, ms) := Backend.step hash kind cfg s now op
    let (s2, os, ms') := Backend.run hash kind cfg s1 rest
    (s2, o :: os, ms ++ ms')

namespace Spec

inductive SOut
  | unit
  | read (r : ROut)
  | deleted (ok : Bool)
  | len (n : Nat)
  | walk (m : SMap)
  | loaded (v : Option (Option Val))
  deriving Repr

/-- The reference machine. The only thing it shares with the backend model is the ttl → expiry rule (C10's subject). -/
def step (cfg : Cfg) (m : SMap) (now : Time) : Op → SMap × SOut
  | .write k v ctxTTL rn rd => (write m k v (expireAt (ttlOf cfg ctxTTL rn rd).1 now), .unit)
  | .read k skip => (m, .read (read m k skip now))
  | .delete k => let (m', ok) := delete m k; (m', .deleted ok)
  | .expireAll => (expireAll m now, .unit)
  | .deleteAll => (deleteAll m, .unit)
  | .len => (m, .len (len m))
  | .walk => (m, .walk m)
  | .load k => (m, .loaded (match read m k false now with | .hit v => some v | _ => none))
  | .store k v rn rd => (write m k v (expireAt (ttlOf cfg 0 rn rd).1 now), .unit)

def run (cfg : Cfg) : SMap → History → SMap × List SOut
  | m, [] => (m, [])
  | m, (now, op) :: rest =>
    let (m1, o) := step cfg m now op
    let (m2, os) := run cfg m1 rest
    (m2, o :: os)

end Spec
end Cache

namespace Cache

/-- Extended operations: the public ones plus a cleanup cycle (janitor) and the restore of one dumped record. -/
inductive XOp
  | base (op : Op)
  | cleanup (ho so hasNeeded needed : Bool)
  | restore (e : Entry)
  deriving Repr

abbrev XHistory := List (Time × XOp)

def Backend.xstep (hash : Key → Nat) (kind : Kind) (cfg : Cfg) (s : Store) (now : Time) : XOp → Store × List Metric
  | .base op => let r := Backend.step hash kind cfg s now op; (r.1, r.2.2)
  | .cleanup ho so hn needed => s.cleanup kind cfg { now, ho, so, hasNeeded := hn, needed }
  | .restore e => (s.restoreOne hash e, [])

def Backend.xrun (hash : Key → Nat) (kind : Kind) (cfg : Cfg) : Store → XHistory → Store × List Metric
  | s, [] => (s, [])
  | s, (now, op) :: rest =>
    let (s1, ms) := Backend.xstep hash kind cfg s now op
    let (s2, ms') := Backend.xrun hash kind cfg s1 rest
    (s2, ms ++ ms')

end Cache
