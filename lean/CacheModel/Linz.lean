import CacheModel.Backend

/-
  Per-slot linearizability checker (C08). A history is a list of completed operations on ONE slot of a backend (one key,
  or a pair of colliding keys), each with invocation and response stamps from a global counter and the observed result.
  The sequential specification is the proved backend model itself (`Store.read`, `writeCore`, `delete`, `expireAll`,
  `deleteAll` with every key hashed to slot 0) — no second reference implementation. Time is abstracted: a fresh entry has
  expiry 0 (never), an entry written with a negative ttl or hit by ExpireAll has an expiry in the past.
-/
namespace Cache.Linz

inductive LOp
  | write (k : Key) (v : Val) (expired : Bool)
  | read (k : Key)
  | delete (k : Key)
  | expireAll
  | deleteAll
  | cleanup                  -- a cleanup cycle: deletes the entry iff it expired long ago (acts at one instant)
  deriving Repr, DecidableEq

inductive LRes
  | unit | miss | hit (v : Val) | exp (v : Val) | ok | notFound
  deriving Repr, DecidableEq

structure Event where
  id : Nat
  op : LOp
  res : LRes
  inv : Nat
  ret : Nat
  deriving Repr

def slotHash : Key → Nat := fun _ => 0
def specCfg : Cfg := { ttl := -1, jn := -1, jd := 1, strategy := .mostExpired, deleteExpiredAfter := 1, countSoftLimit := 0, efn := 1, efd := 2 }
def nowRead : Time := 10
def nowExpire : Time := 7

/-- One sequential step of the specification: the new state and the result the operation must have observed. -/
def apply (s : Store) : LOp → Store × LRes
  | .write k v expired => (s.writeCore slotHash k (some v) (if expired then 5 else 0) false, .unit)
  | .read k =>
    match (s.read slotHash .sharded specCfg k false nowRead).2.1 with
    | .miss => (s, .miss)
    | .hit v => (s, .hit (v.getD 0))
    | .expired v _ => (s, .exp (v.getD 0))
  | .delete k =>
    let r := s.delete slotHash .sharded k
    (r.1, if r.2.1 then .ok else .notFound)
  | .expireAll => ((s.expireAll nowExpire).1, .unit)
  | .deleteAll => ((s.deleteAll).1, .unit)
  | .cleanup => (s.deleteExpired .sharded 6, .unit)     -- "ancient" expiry is 5, ExpireAll stamps 7: only the former goes

/-- Replaying `order` (event ids) sequentially reproduces every observed result. -/
def replay (evs : List Event) : Store → List Nat → Bool
  | _, [] => true
  | s, i :: rest =>
    match evs.find? (·.id == i) with
    | none => false
    | some e =>
      let (s', r) := apply s e.op
      r == e.res && replay evs s' rest

/-- `order` respects real-time precedence: if `a` returned before `b` was invoked, `a` comes first. -/
def respectsRealTime (evs : List Event) (order : List Nat) : Bool :=
  evs.all fun a => evs.all fun b =>
    !(a.ret < b.inv) || (match order.idxOf? a.id, order.idxOf? b.id with
      | some ia, some ib => ia < ib
      | _, _ => false)

/-- A witness of linearizability: a permutation of the events, real-time respecting, whose sequential replay from the
    initial slot content reproduces all results. -/
def checkWitness (init : Store) (evs : List Event) (order : List Nat) : Bool :=
  order.length == evs.length && order.Nodup && evs.all (fun e => order.contains e.id) &&
  respectsRealTime evs order && replay evs init order

/-- Outcome of the bounded search. -/
inductive SRes
  | found (w : List Nat)
  | notFound
  | exhausted          -- the node budget ran out: no verdict
  deriving Repr

/-- WGL-style search: pick any pending event that no other pending event precedes in real time, apply it if its result
    matches, recurse; backtrack otherwise. `budget` bounds the number of nodes visited (the search is exponential in the
    worst case); it is threaded through and returned. Returns a witness order. -/
def tryEach (f : Event → Nat → SRes × Nat) : List Event → Nat → SRes × Nat
  | [], b => (.notFound, b)
  | e :: rest, b =>
    if b = 0 then (.exhausted, 0) else
    match f e (b - 1) with
    | (.found w, b') => (.found w, b')
    | (.exhausted, b') => (.exhausted, b')
    | (.notFound, b') => tryEach f rest b'

def searchB : Nat → Nat → Store → List Event → SRes × Nat
  | 0, budget, _, _ => (.notFound, budget)
  | _, budget, _, [] => (.found [], budget)
  | fuel + 1, budget, s, pending =>
    let minimal := pending.filter fun e => pending.all fun p => p.id == e.id || !(p.ret < e.inv)
    tryEach (fun e b =>
      let (s', r) := apply s e.op
      if r == e.res then
        match searchB fuel b s' (pending.filter (·.id != e.id)) with
        | (.found w, b') => (.found (e.id :: w), b')
        | x => x
      else (.notFound, b)) minimal budget

def searchBudget : Nat := 200000

/-- The unbounded-looking interface used by the examples: a witness, or none. -/
def search (fuel : Nat) (s : Store) (pending : List Event) : Option (List Nat) :=
  match (searchB fuel searchBudget s pending).1 with
  | .found w => some w
  | _ => none

/-- Classification aid (NOT a verdict): the same search where a cleanup cycle may ALSO delete whatever the slot holds. A
    history that is linearizable only in this loosened sense shows a cleanup cycle deleting an entry that was not long
    expired at any instant of the cycle (a fresh write lost to a check-then-delete race). -/
def anyB (f : Event → Nat → Bool × Nat) : List Event → Nat → Bool × Nat
  | [], b => (false, b)
  | e :: rest, b =>
    if b = 0 then (false, 0) else
    match f e (b - 1) with
    | (true, b') => (true, b')
    | (false, b') => anyB f rest b'

def searchLooseB : Nat → Nat → Store → List Event → Bool × Nat
  | 0, b, _, _ => (false, b)
  | _, b, _, [] => (true, b)
  | fuel + 1, budget, s, pending =>
    let minimal := pending.filter fun e => pending.all fun p => p.id == e.id || !(p.ret < e.inv)
    anyB (fun e b =>
      let pend := pending.filter (·.id != e.id)
      let (s', r) := apply s e.op
      let r1 := if r == e.res then searchLooseB fuel b s' pend else (false, b)
      if r1.1 then r1 else
      if e.op == .cleanup then searchLooseB fuel r1.2 (s.deleteAll).1 pend else (false, r1.2)) minimal budget

def searchLoose (fuel : Nat) (s : Store) (pending : List Event) : Bool :=
  (searchLooseB fuel searchBudget s pending).1

/-- The verdict the driver reports: a witness found by the search AND accepted by the independent witness check. -/
def linearizable (init : Store) (evs : List Event) : Option (List Nat) :=
  match search (evs.length + 1) init evs with
  | some w => if checkWitness init evs w then some w else none
  | none => none

/-- Did the bounded search give up (no verdict either way)? -/
def inconclusive (init : Store) (evs : List Event) : Bool :=
  match (searchB (evs.length + 1) searchBudget init evs).1 with
  | .exhausted => true
  | _ => false

end Cache.Linz
