import CacheModel.Basic
import CacheModel.Gen
import CacheModel.Backend
