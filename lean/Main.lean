import CacheModel.DriverBackend

/- Driver entry: one request per line on stdin, one reply per line on stdout. `bad-op` for anything malformed. -/
open Cache Cache.Drv

structure DState where
  be : Std.HashMap String Inst := {}

def handle (st : DState) (line : String) : DState × String :=
  let toks := (line.trimAscii.toString.splitOn " ").filter (· != "")
  match toks with
  | "be" :: "new" :: id :: rest =>
    match newInst (kvArgs rest) with
    | some i => ({ st with be := st.be.insert id i }, "ok")
    | none => (st, "bad-op")
  | "be" :: op :: id :: rest =>
    match st.be[id]? with
    | none => (st, "bad-op no-such-instance")
    | some i =>
      match stepInst i op rest with
      | some (i', out) => ({ st with be := st.be.insert id i' }, out)
      | none => (st, "bad-op")
  | ["ping"] => (st, "pong")
  | _ => (st, "bad-op")

partial def loop (h : IO.FS.Stream) (out : IO.FS.Stream) (st : DState) : IO Unit := do
  let line ← h.getLine
  if line.isEmpty then return ()
  let (st', reply) := handle st line
  out.putStrLn reply
  out.flush
  loop h out st'

def main : IO Unit := do
  loop (← IO.getStdin) (← IO.getStdout) {}
