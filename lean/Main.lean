import CacheModel.DriverBackend
import CacheModel.DriverMisc
import CacheModel.DriverFailover

/- Driver entry: one request per line on stdin, one reply per line on stdout. `bad-op` for anything malformed. -/
open Cache Cache.Drv

structure DState where
  be : Std.HashMap String Inst := {}
  iv : Std.HashMap String IvInst := {}
  ix : Std.HashMap String IdxState := {}
  fo : Std.HashMap String FoInst := {}

def handle (st : DState) (line : String) : DState × String :=
  let toks := (line.trimAscii.toString.splitOn " ").filter (· != "")
  match toks with
  | "be" :: "new" :: id :: rest =>
    match newInst (kvArgs rest) with
    | some i => ({ st with be := st.be.insert id i }, "ok")
    | none => (st, "bad-op")
  | "be" :: op :: id :: rest =>
    match st.be[id]? with
    | none => (st, "bad-op no-such-instance")
    | some i =>
      match stepInst i op rest with
      | some (i', out) => ({ st with be := st.be.insert id i' }, out)
      | none => (st, "bad-op")
  | "iv" :: "new" :: id :: rest =>
    match kvInt (kvArgs rest) "skip" with
    | some sk => ({ st with iv := st.iv.insert id { inv := { skipInterval := sk } } }, "ok")
    | none => (st, "bad-op")
  | ["iv", "call", id, ncb, t0, t1, obs] =>
    match st.iv[id]?, parseNat ncb, parseInt t0, parseInt t1 with
    | some i, some ncb, some t0, some t1 =>
      let (i', out) := ivCall i ncb t0 t1 obs
      ({ st with iv := st.iv.insert id i' }, out)
    | _, _, _, _ => (st, "bad-op")
  | "fo" :: "new" :: id :: rest =>
    match foNew (kvArgs rest) with
    | some i => ({ st with fo := st.fo.insert id i }, "ok")
    | none => (st, "bad-op")
  | "fo" :: op :: id :: rest =>
    match st.fo[id]? with
    | none => (st, "bad-op no-such-instance")
    | some i =>
      match foStep i op rest with
      | some (i', out) => ({ st with fo := st.fo.insert id i' }, out)
      | none => (st, "bad-op")
  | ["ix", "new", id] => ({ st with ix := st.ix.insert id {} }, "ok")
  | "ix" :: op :: id :: rest =>
    match st.ix[id]? with
    | none => (st, "bad-op no-such-instance")
    | some s =>
      match ixStep s op rest with
      | some (s', out) => ({ st with ix := st.ix.insert id s' }, out)
      | none => (st, "bad-op")
  | ["gh", "xor", arg] =>
    match ghXor arg with
    | some out => (st, out)
    | none => (st, "bad-op")
  | "lz" :: "check" :: init :: evs =>
    match lzCheck init evs with
    | some out => (st, out)
    | none => (st, "bad-op")
  | ["fp", "racy"] => (st, fpRacy)
  | ["ping"] => (st, "pong")
  | _ => (st, "bad-op")

partial def loop (h : IO.FS.Stream) (out : IO.FS.Stream) (st : DState) : IO Unit := do
  let line ← h.getLine
  if line.isEmpty then return ()
  let (st', reply) := handle st line
  out.putStrLn reply
  out.flush
  loop h out st'

def main : IO Unit := do
  loop (← IO.getStdin) (← IO.getStdout) {}
