import Lean
open Lean Elab Command

/-
  `#kernel_deps thm` prints the regenerated kernels (constants of namespace `Cache.Gen`) a theorem rests on: every constant
  reachable from its statement and proof through definitions of this project (namespace `Cache`). bin/verif uses it to decide
  which properties a kernel that could NOT be regenerated from the source (fallback to the committed snapshot) puts in doubt.
-/
namespace Cache.KernelDeps

partial def visit (env : Environment) (n : Name) : StateM (NameSet × NameSet) Unit := do
  let (seen, _) ← get
  if seen.contains n then return
  modify fun (s, g) => (s.insert n, g)
  if (`Cache.Gen).isPrefixOf n then
    modify fun (s, g) => (s, g.insert n)
  unless (`Cache).isPrefixOf n do return
  match env.find? n with
  | none => return
  | some ci =>
    let consts := ci.type.getUsedConstants ++ (match ci.value? (allowOpaque := true) with | some v => v.getUsedConstants | none => #[])
    for c in consts do visit env c
    -- structure projections / recursors / matchers of project types are reached through their own constant infos
    match ci with
    | .inductInfo ii => for c in ii.ctors do visit env c
    | _ => pure ()

elab "#kernel_deps " id:ident : command => do
  let env ← getEnv
  let n ← liftCoreM <| realizeGlobalConstNoOverloadWithInfo id
  let ((), (_, gens)) := (visit env n).run ({}, {})
  let names := gens.toList.map (fun g => g.replacePrefix `Cache.Gen Name.anonymous |>.toString) |>.mergeSort (· ≤ ·)
  logInfo m!"KERNEL-DEPS {n} := {names}"

end Cache.KernelDeps
