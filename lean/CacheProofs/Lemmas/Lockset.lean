import CacheModel.MemModel

/-
  The lockset argument, proved for every legal trace: two accesses made under a common lock, at least one of them holding it
  exclusively, by different goroutines, are ordered by happens-before.
-/
namespace Cache.MM

theorem heldAt_zero (tr : List Ev) : heldAt tr 0 = fun _ _ => none := by
  simp [heldAt, heldAfter]

theorem heldAt_succ (tr : List Ev) (n : Nat) (h : n < tr.length) :
    heldAt tr (n + 1) = stepH (heldAt tr n) tr[n] := by
  unfold heldAt heldAfter
  rw [List.take_add_one, List.foldl_append]
  simp [List.getElem?_eq_getElem h]

/-- Mutual exclusion: an exclusive holder is the only holder. -/
def MutexInv (h : Held) : Prop := ∀ t t' k, t ≠ t' → h t k = some .ex → h t' k = none

theorem mutex_step (h : Held) (e : Ev) (hi : MutexInv h) (hl : legalEv h e) : MutexInv (stepH h e) := by
  intro t1 t2 k' hne hex
  cases e with
  | acc t l w a => exact hi t1 t2 k' hne hex
  | close t c => exact hi t1 t2 k' hne hex
  | recv t c => exact hi t1 t2 k' hne hex
  | acq t k m =>
    simp only [stepH, Held.set] at hex ⊢
    cases m with
    | ex =>
      simp only [legalEv] at hl
      by_cases c1 : t1 = t ∧ k' = k
      · have c2 : ¬ (t2 = t ∧ k' = k) := fun c => hne (c1.1.trans c.1.symm)
        rw [if_neg c2]; rw [c1.2]; exact hl t2
      · rw [if_neg c1] at hex
        by_cases c2 : t2 = t ∧ k' = k
        · rw [c2.2, hl t1] at hex; cases hex
        · rw [if_neg c2]; exact hi t1 t2 k' hne hex
    | sh =>
      simp only [legalEv] at hl
      by_cases c1 : t1 = t ∧ k' = k
      · rw [if_pos c1] at hex; cases hex
      · rw [if_neg c1] at hex
        by_cases c2 : t2 = t ∧ k' = k
        · rw [c2.2] at hex; exact absurd hex (hl.2 t1)
        · rw [if_neg c2]; exact hi t1 t2 k' hne hex
  | rel t k m =>
    simp only [stepH, Held.set] at hex ⊢
    by_cases c1 : t1 = t ∧ k' = k
    · rw [if_pos c1] at hex; cases hex
    · rw [if_neg c1] at hex
      by_cases c2 : t2 = t ∧ k' = k
      · rw [if_pos c2]
      · rw [if_neg c2]; exact hi t1 t2 k' hne hex

theorem mutex_at (tr : List Ev) (hl : Legal tr) : ∀ n, n ≤ tr.length → MutexInv (heldAt tr n) := by
  intro n
  induction n with
  | zero => intro _ t t' k _ h; rw [heldAt_zero] at h; cases h
  | succ n ih =>
    intro hn
    rw [heldAt_succ tr n hn]
    exact mutex_step _ _ (ih (Nat.le_of_succ_le hn)) (hl n hn)

/-- A held lock was acquired earlier by the holder, in that mode, and has been held ever since. -/
theorem acquire_before (tr : List Ev) (t k : Nat) (m : Mode) :
    ∀ j, j ≤ tr.length → heldAt tr j t k = some m →
      ∃ a, a < j ∧ tr[a]? = some (Ev.acq t k m) ∧ ∀ p, a < p → p ≤ j → heldAt tr p t k = some m := by
  intro j
  induction j with
  | zero => intro _ h; rw [heldAt_zero] at h; cases h
  | succ j ih =>
    intro hj h
    have hjl : j < tr.length := hj
    rw [heldAt_succ tr j hjl] at h
    have keep : heldAt tr j t k = some m →
        ∃ a, a < j + 1 ∧ tr[a]? = some (Ev.acq t k m) ∧ ∀ p, a < p → p ≤ j + 1 → heldAt tr p t k = some m := by
      intro h0
      obtain ⟨a, ha, hea, hp⟩ := ih (Nat.le_of_succ_le hj) h0
      refine ⟨a, Nat.lt_succ_of_lt ha, hea, ?_⟩
      intro p hap hpj
      by_cases hpe : p = j + 1
      · subst hpe; rw [heldAt_succ tr j hjl]; exact h
      · exact hp p hap (by omega)
    generalize hev : tr[j] = e at h
    cases e with
    | acc t0 l w a => exact keep h
    | close t0 c => exact keep h
    | recv t0 c => exact keep h
    | acq t0 k0 m0 =>
      simp only [stepH, Held.set] at h
      by_cases c : t = t0 ∧ k = k0
      · rw [if_pos c] at h
        obtain ⟨rfl, rfl⟩ := c
        cases h
        refine ⟨j, Nat.lt_succ_self j, ?_, ?_⟩
        · rw [List.getElem?_eq_getElem hjl, hev]
        · intro p hjp hpj
          have : p = j + 1 := by omega
          subst this
          rw [heldAt_succ tr j hjl, hev]
          simp [stepH, Held.set]
      · rw [if_neg c] at h; exact keep h
    | rel t0 k0 m0 =>
      simp only [stepH, Held.set] at h
      by_cases c : t = t0 ∧ k = k0
      · rw [if_pos c] at h; cases h
      · rw [if_neg c] at h; exact keep h

/-- A hold that is gone (or changed) later was released in between. -/
theorem release_between (tr : List Ev) (hl : Legal tr) (t k : Nat) (m : Mode) (i : Nat) :
    ∀ d, i + d ≤ tr.length → heldAt tr i t k = some m → heldAt tr (i + d) t k ≠ some m →
      ∃ r, i ≤ r ∧ r < i + d ∧ tr[r]? = some (Ev.rel t k m) := by
  intro d
  induction d with
  | zero => intro _ h0 h1; exact absurd h0 h1
  | succ d ih =>
    intro hlen h0 h1
    have hpl : i + d < tr.length := by omega
    by_cases hp : heldAt tr (i + d) t k = some m
    · -- the cell changed at event i+d
      have hs := heldAt_succ tr (i + d) hpl
      have hleg := hl (i + d) hpl
      rw [show i + (d + 1) = i + d + 1 by omega, hs] at h1
      generalize hev : tr[i + d] = e at h1 hleg
      cases e with
      | acc t0 l w a => exact absurd hp h1
      | close t0 c => exact absurd hp h1
      | recv t0 c => exact absurd hp h1
      | acq t0 k0 m0 =>
        simp only [stepH, Held.set] at h1
        by_cases c : t = t0 ∧ k = k0
        · obtain ⟨rfl, rfl⟩ := c
          cases m0 with
          | ex => simp only [legalEv] at hleg; rw [hleg t] at hp; cases hp
          | sh => simp only [legalEv] at hleg; rw [hleg.1] at hp; cases hp
        · rw [if_neg c] at h1; exact absurd hp h1
      | rel t0 k0 m0 =>
        simp only [stepH, Held.set] at h1
        by_cases c : t = t0 ∧ k = k0
        · obtain ⟨rfl, rfl⟩ := c
          simp only [legalEv] at hleg
          rw [hleg] at hp
          cases hp
          exact ⟨i + d, Nat.le_add_right i d, by omega, by rw [List.getElem?_eq_getElem hpl, hev]⟩
        · rw [if_neg c] at h1; exact absurd hp h1
    · obtain ⟨r, hir, hrp, hre⟩ := ih (by omega) h0 hp
      exact ⟨r, hir, by omega, hre⟩

theorem HB.lt {tr : List Ev} {i j : Nat} (h : HB tr i j) : i < j := by
  induction h with
  | po h _ _ _ => exact h
  | lock h _ _ _ => exact h
  | atomic h _ _ => exact h
  | chan h _ _ => exact h
  | trans _ _ ih1 ih2 => exact Nat.lt_trans ih1 ih2

/-- **Lockset lemma** — two events of different goroutines, each made while its goroutine holds lock k, at least one of the
    holds exclusive, are ordered by happens-before (whatever the events are: only program order and the lock edges are used). -/
theorem lock_pair_ordered (tr : List Ev) (hl : Legal tr) (i j ti tj k : Nat) (mi mj : Mode) (ei ej : Ev)
    (hij : i < j) (hei : tr[i]? = some ei) (hej : tr[j]? = some ej) (hti : ei.tid = ti) (htj : ej.tid = tj)
    (hne : ti ≠ tj) (hnotlock : ∀ m, ei ≠ .rel ti k m)
    (hhi : heldAt tr i ti k = some mi) (hhj : heldAt tr j tj k = some mj) (hex : mi = .ex ∨ mj = .ex) :
    HB tr i j := by
  have hjl : j < tr.length := by
    rcases Nat.lt_or_ge j tr.length with h | h
    · exact h
    · rw [List.getElem?_eq_none h] at hej; cases hej
  have hil : i < tr.length := Nat.lt_trans hij hjl
  obtain ⟨a, haj, hea, hheld⟩ := acquire_before tr tj k mj j (Nat.le_of_lt hjl) hhj
  rcases Nat.lt_or_ge a i with hai | hia
  · -- tj has held k since before i: both hold at i, one exclusively — impossible
    have hji : heldAt tr i tj k = some mj := hheld i hai (Nat.le_of_lt hij)
    have inv := mutex_at tr hl i (Nat.le_of_lt hil)
    rcases hex with h | h
    · subst h; rw [inv ti tj k hne hhi] at hji; cases hji
    · subst h; rw [inv tj ti k (Ne.symm hne) hji] at hhi; cases hhi
  · -- tj acquired at a ≥ i: at a, ti's hold conflicts with the acquire, so ti released in [i, a)
    have hal : a < tr.length := Nat.lt_trans haj hjl
    have hlega := hl a hal
    have hea' : tr[a] = .acq tj k mj := by
      have := hea; rw [List.getElem?_eq_getElem hal] at this; exact Option.some.inj this
    rw [hea'] at hlega
    have hgone : heldAt tr a ti k ≠ some mi := by
      cases mj with
      | ex => simp only [legalEv] at hlega; rw [hlega ti]; intro h; cases h
      | sh =>
        simp only [legalEv] at hlega
        rcases hex with h | h
        · subst h; exact hlega.2 ti
        · cases h
    obtain ⟨d, rfl⟩ : ∃ d, a = i + d := ⟨a - i, by omega⟩
    obtain ⟨r, hir, hra, hre⟩ := release_between tr hl ti k mi i d (Nat.le_of_lt hal) hhi hgone
    have hir' : i < r := by
      rcases Nat.lt_or_ge i r with h | h
      · exact h
      · have : r = i := by omega
        subst this
        rw [hei] at hre
        exact absurd (Option.some.inj hre) (hnotlock mi)
    have h1 : HB tr i r := HB.po hir' hei hre (by rw [hti]; rfl)
    have h2 : HB tr r (i + d) := HB.lock hra hre hea hex
    have h3 : HB tr (i + d) j := HB.po haj hea hej (by rw [htj]; rfl)
    exact HB.trans h1 (HB.trans h2 h3)

end Cache.MM
