import CacheModel.Index

/- Lemmas about the InvalidationIndex model: association-list helpers and the effect of one delete call. -/
namespace Cache

theorem lkGet_lkErase (lk : LabeledKeys) (l l' : Label) :
    lkGet (lkErase lk l) l' = if l' = l then [] else lkGet lk l' := by
  unfold lkGet lkErase
  induction lk with
  | nil => simp
  | cons p rest ih =>
    by_cases hp : p.1 = l
    · have : (p.1 != l) = false := by simp [hp]
      simp only [List.filter_cons, this, Bool.false_eq_true, if_false, ih]
      by_cases hl : l' = l
      · simp [hl]
      · have : (p.1 == l') = false := by simp [hp]; exact fun h => hl h.symm
        simp [hl, List.find?_cons, this]
    · have : (p.1 != l) = true := by simp [hp]
      simp only [List.filter_cons, this, if_true, List.find?_cons]
      by_cases hpl : p.1 = l'
      · have hne : l' ≠ l := fun h => hp (hpl.trans h)
        simp [hpl, hne]
      · have : (p.1 == l') = false := by simp [hpl]
        simp only [this]
        exact ih

theorem lkGet_lkSet (lk : LabeledKeys) (l l' : Label) (ks : List Key) :
    lkGet (lkSet lk l ks) l' = if l' = l then ks else lkGet lk l' := by
  unfold lkSet
  by_cases hl : l' = l
  · subst hl; simp [lkGet]
  · have : (l == l') = false := by simp; exact fun h => hl h.symm
    have h2 := lkGet_lkErase lk l l'
    simp only [hl, if_false] at h2 ⊢
    rw [← h2]
    simp [lkGet, List.find?_cons, this]

@[simp] theorem cache_setCache (s : IdxState) (d d' : Did) (ks : List Key) :
    (s.setCache d ks).cache d' = if d' = d then ks else s.cache d' := by
  unfold IdxState.cache IdxState.setCache
  by_cases hd : d' = d
  · subst hd; simp
  · have : (d == d') = false := by simp; exact fun h => hd h.symm
    simp only [List.find?_cons, this, hd, if_false]
    congr 2
    induction s.caches with
    | nil => rfl
    | cons p rest ih =>
      by_cases hp : p.1 = d
      · have h1 : (p.1 != d) = false := by simp [hp]
        have h2 : (p.1 == d') = false := by simp [hp]; exact fun h => hd h.symm
        simp [List.filter_cons, h1, List.find?_cons, h2, ih]
      · have h1 : (p.1 != d) = true := by simp [hp]
        simp only [List.filter_cons, h1, if_true, List.find?_cons]
        cases (p.1 == d') <;> simp [ih]

@[simp] theorem labeled_setCache (s : IdxState) (d : Did) (ks : List Key) (n : Name) :
    (s.setCache d ks).labeled n = s.labeled n := rfl
@[simp] theorem deletersOf_setCache (s : IdxState) (d : Did) (ks : List Key) (n : Name) :
    (s.setCache d ks).deletersOf n = s.deletersOf n := rfl

@[simp] theorem labeled_setLabeled (s : IdxState) (n n' : Name) (lk : LabeledKeys) :
    (s.setLabeled n lk).labeled n' = if n' = n then lk else s.labeled n' := by
  unfold IdxState.labeled IdxState.setLabeled
  by_cases hn : n' = n
  · subst hn; simp
  · have : (n == n') = false := by simp; exact fun h => hn h.symm
    simp only [List.find?_cons, this, hn, if_false]
    congr 2
    induction s.idx with
    | nil => rfl
    | cons p rest ih =>
      by_cases hp : p.1 = n
      · have h1 : (p.1 != n) = false := by simp [hp]
        have h2 : (p.1 == n') = false := by simp [hp]; exact fun h => hn h.symm
        simp [List.filter_cons, h1, List.find?_cons, h2, ih]
      · have h1 : (p.1 != n) = true := by simp [hp]
        simp only [List.filter_cons, h1, if_true, List.find?_cons]
        cases (p.1 == n') <;> simp [ih]

@[simp] theorem cache_setLabeled (s : IdxState) (n : Name) (lk : LabeledKeys) (d : Did) :
    (s.setLabeled n lk).cache d = s.cache d := rfl
@[simp] theorem deletersOf_setLabeled (s : IdxState) (n : Name) (lk : LabeledKeys) (n' : Name) :
    (s.setLabeled n lk).deletersOf n' = s.deletersOf n' := rfl

/-- Everything a sequence of delete calls may do: the index and the deleter registry stay, caches only lose keys. -/
structure Shrinks (s s' : IdxState) : Prop where
  idx : s'.idx = s.idx
  deleters : s'.deleters = s.deleters
  sub : ∀ d k, k ∈ s'.cache d → k ∈ s.cache d

theorem Shrinks.refl (s : IdxState) : Shrinks s s := ⟨rfl, rfl, fun _ _ h => h⟩
theorem Shrinks.trans {a b c : IdxState} (h1 : Shrinks a b) (h2 : Shrinks b c) : Shrinks a c :=
  ⟨h2.idx.trans h1.idx, h2.deleters.trans h1.deleters, fun d k h => h1.sub d k (h2.sub d k h)⟩
theorem Shrinks.labeled {s s' : IdxState} (h : Shrinks s s') (n : Name) : s'.labeled n = s.labeled n := by
  unfold IdxState.labeled; rw [h.idx]
theorem Shrinks.deletersOf {s s' : IdxState} (h : Shrinks s s') (n : Name) : s'.deletersOf n = s.deletersOf n := by
  unfold IdxState.deletersOf; rw [h.deleters]

/-- One delete call: shrinks; only `(d, k)` can disappear; a non-failing answer leaves `k` absent from `d`. -/
theorem deleteCall_spec (s : IdxState) (faults : Nat → Bool) (d : Did) (k : Key) :
    Shrinks s (s.deleteCall faults d k).1 ∧
    (∀ d' k', k' ∈ s.cache d' → k' ∉ (s.deleteCall faults d k).1.cache d' → d' = d ∧ k' = k) ∧
    ((s.deleteCall faults d k).2 ≠ .fail → k ∉ (s.deleteCall faults d k).1.cache d) := by
  unfold IdxState.deleteCall
  by_cases hf : faults s.calls = true
  · simp only [hf, if_true]
    refine ⟨⟨rfl, rfl, fun _ _ h => h⟩, ?_, by simp⟩
    intro d' k' h1 h2; exact absurd h1 h2
  · simp only [hf, Bool.false_eq_true, if_false]
    by_cases hc : (s.cache d).contains k = true
    · simp only [hc, if_true]
      refine ⟨⟨rfl, rfl, ?_⟩, ?_, ?_⟩
      · intro d' k' h
        simp only [cache_setCache] at h
        by_cases hd : d' = d
        · subst hd; simp only [if_true] at h; exact (List.mem_filter.mp h).1
        · simp only [hd, if_false] at h; exact h
      · intro d' k' h1 h2
        simp only [cache_setCache] at h2
        by_cases hd : d' = d
        · subst hd
          simp only [if_true] at h2
          refine ⟨rfl, ?_⟩
          by_cases hk : k' = k
          · exact hk
          · exact absurd (List.mem_filter.mpr ⟨h1, by simpa using hk⟩) h2
        · simp only [hd, if_false] at h2; exact absurd h1 h2
      · intro _
        simp only [cache_setCache, if_true]
        intro h
        have := (List.mem_filter.mp h).2
        simp at this
    · simp only [hc, Bool.false_eq_true, if_false]
      refine ⟨⟨rfl, rfl, fun _ _ h => h⟩, ?_, ?_⟩
      · intro d' k' h1 h2; exact absurd h1 h2
      · intro _ h
        have h' : k ∈ s.cache d := h
        exact hc (by simpa using h')

end Cache
