import CacheModel.Machine

/- Helper lemmas about the backend model: the per-key view `get`, well-formedness, effect of each operation. -/
namespace Cache
open Std

variable (hash : Key → Nat)

/-- The per-key view of the store: the entry stored under `k` itself (a slot occupied by a colliding key is `none`). -/
def Store.get (s : Store) (k : Key) : Option Entry :=
  match s.slots[hash k]? with
  | some e => if e.K = k then some e else none
  | none => none

/-- Every entry sits in the slot of its own key. -/
def Store.WF (s : Store) : Prop := ∀ h e, s.slots[h]? = some e → hash e.K = h

theorem Store.get_some {s : Store} {k : Key} {e : Entry} (h : s.get hash k = some e) :
    s.slots[hash k]? = some e ∧ e.K = k := by
  unfold Store.get at h
  split at h
  · split at h
    · cases h; simp_all
    · cases h
  · cases h

theorem Store.get_of_slot {s : Store} {k : Key} {e : Entry} (h : s.slots[hash k]? = some e) (hk : e.K = k) :
    s.get hash k = some e := by
  unfold Store.get; simp [h, hk]

theorem wf_empty : (Store.empty).WF hash := by
  intro h e he; simp [Store.empty] at he

@[simp] theorem get_empty (k : Key) : (Store.empty).get hash k = none := by
  simp [Store.get, Store.empty]

/-! ### write -/

theorem wf_writeCore {s : Store} (hw : s.WF hash) (k : Key) (v : Option Val) (E : Time) (b : Bool) :
    (s.writeCore hash k v E b).WF hash := by
  intro h e he
  simp only [Store.writeCore, TreeMap.getElem?_insert] at he
  split at he
  · rename_i hc
    cases he
    simpa using hc
  · exact hw h e he

theorem get_writeCore (s : Store) (k k' : Key) (v : Option Val) (E : Time) (b : Bool) :
    (s.writeCore hash k v E b).get hash k' =
      if k' = k then some { K := k, V := v, E := E, C := 0 }
      else if hash k' = hash k then none else s.get hash k' := by
  unfold Store.get Store.writeCore
  simp only [TreeMap.getElem?_insert]
  by_cases hkk : k' = k
  · subst hkk; simp
  · by_cases hh : hash k' = hash k
    · simp [hkk, hh, Ne.symm hkk]
    · have : compare (hash k) (hash k') ≠ .eq := by
        simpa [Nat.compare_eq_eq] using Ne.symm hh
      simp [hkk, hh, this]

/-! ### delete -/

theorem slotKeyEq_iff (slot : Option Entry) (k : Key) :
    (slot.isSome && slotKeyEq slot k) = true ↔ ∃ e, slot = some e ∧ e.K = k := by
  cases slot <;> simp [slotKeyEq]

end Cache

namespace Cache
open Std
variable (hash : Key → Nat)

/-- SyncMap looks entries up by the key string itself: its slot numbering is injective. -/
def KindOK (kind : Kind) : Prop := kind = .sync → Function.Injective hash

theorem get_eq_of_slot_inj {s : Store} (hw : s.WF hash) (hi : Function.Injective hash) {k : Key} {e : Entry}
    (h : s.slots[hash k]? = some e) : e.K = k := hi (hw _ _ h)

theorem keyMismatchRead_eq {s : Store} {kind : Kind} (hw : s.WF hash) (hk : KindOK hash kind) (k : Key) :
    (!(s.slot hash k).isSome || kind.keyMismatchRead true (slotKeyEq (s.slot hash k) k)) = (s.get hash k).isNone := by
  unfold Store.slot Store.get
  cases hs : s.slots[hash k]? with
  | none => cases kind <;> simp [Kind.keyMismatchRead, Gen.keyMismatchRead, Gen.keyMismatchReadOf, slotKeyEq]
  | some e =>
    cases kind
    · by_cases he : e.K = k <;> simp [Kind.keyMismatchRead, Gen.keyMismatchRead, slotKeyEq, he]
    · by_cases he : e.K = k <;> simp [Kind.keyMismatchRead, Gen.keyMismatchReadOf, slotKeyEq, he]
    · have he : e.K = k := get_eq_of_slot_inj hash hw (hk rfl) hs
      simp [Kind.keyMismatchRead, he]

theorem keyMismatchDelete_eq {s : Store} {kind : Kind} (hw : s.WF hash) (hk : KindOK hash kind) (k : Key) :
    (!(s.slot hash k).isSome || kind.keyMismatchDelete true (slotKeyEq (s.slot hash k) k)) = (s.get hash k).isNone := by
  unfold Store.slot Store.get
  cases hs : s.slots[hash k]? with
  | none => cases kind <;> simp [Kind.keyMismatchDelete, Gen.keyMismatchDelete, Gen.keyMismatchDeleteOf, slotKeyEq]
  | some e =>
    cases kind
    · by_cases he : e.K = k <;> simp [Kind.keyMismatchDelete, Gen.keyMismatchDelete, slotKeyEq, he]
    · by_cases he : e.K = k <;> simp [Kind.keyMismatchDelete, Gen.keyMismatchDeleteOf, slotKeyEq, he]
    · have he : e.K = k := get_eq_of_slot_inj hash hw (hk rfl) hs
      simp [Kind.keyMismatchDelete, he]

/-- `Delete` answers "deleted" exactly when the key itself is stored. -/
theorem delete_ok_iff {s : Store} {kind : Kind} (hw : s.WF hash) (hk : KindOK hash kind) (k : Key) :
    (s.delete hash kind k).2.1 = (s.get hash k).isSome := by
  unfold Store.delete
  simp only [keyMismatchDelete_eq hash hw hk]
  cases h : (s.get hash k) <;> simp

theorem wf_delete {s : Store} {kind : Kind} (hw : s.WF hash) (k : Key) :
    (s.delete hash kind k).1.WF hash := by
  unfold Store.delete
  simp only
  split
  · exact hw
  · intro h e he
    simp only [TreeMap.getElem?_erase] at he
    split at he
    · cases he
    · exact hw h e he

theorem get_delete {s : Store} {kind : Kind} (hw : s.WF hash) (hk : KindOK hash kind) (k k' : Key) :
    (s.delete hash kind k).1.get hash k' = if k' = k then none else s.get hash k' := by
  unfold Store.delete
  simp only [keyMismatchDelete_eq hash hw hk]
  cases hg : s.get hash k with
  | none =>
    simp only [Option.isNone_none, if_true]
    by_cases hkk : k' = k
    · subst hkk; simp [hg]
    · simp [hkk]
  | some e =>
    have ⟨hs, hek⟩ := Store.get_some hash hg
    simp only [Option.isNone_some, Bool.false_eq_true, if_false]
    unfold Store.get
    simp only [TreeMap.getElem?_erase]
    by_cases hkk : k' = k
    · subst hkk; simp
    · by_cases hh : hash k' = hash k
      · -- the slot holds k, so k' (same slot, other key) was not stored before either
        simp [hkk, hh, hs, hek, Ne.symm hkk]
      · have : compare (hash k) (hash k') ≠ .eq := by
          simpa [Nat.compare_eq_eq] using Ne.symm hh
        simp [hkk, this]

end Cache

namespace Cache
open Std
variable (hash : Key → Nat)

/-- What a reader may observe of an entry: key, value, expiry (the usage metric `C` is internal). -/
def Entry.view (e : Entry) : Key × Option Val × Time := (e.K, e.V, e.E)

theorem isExpired_eq (kind : Kind) (E now : Int) : kind.isExpired E now = decide (E ≠ 0 ∧ E < now) := by
  by_cases h0 : E = 0 <;> cases kind <;> simp [Kind.isExpired, Gen.isExpired, Gen.isExpiredOf, h0]

/-- Output of `Read` as a function of the per-key view. -/
theorem read_out {s : Store} {kind : Kind} (cfg : Cfg) (hw : s.WF hash) (hk : KindOK hash kind)
    (k : Key) (skip : Bool) (now : Time) :
    (s.read hash kind cfg k skip now).2.1 =
      if skip then .miss else
      match s.get hash k with
      | none => .miss
      | some e => if e.E ≠ 0 ∧ e.E < now then .expired e.V e.E else .hit e.V := by
  unfold Store.read
  by_cases hs : skip = true
  · simp [hs]
  · simp only [hs, Bool.false_eq_true, if_false, keyMismatchRead_eq hash hw hk]
    cases hg : s.get hash k with
    | none => simp
    | some e =>
      have ⟨hsl, _⟩ := Store.get_some hash hg
      simp only [Option.isNone_some, Bool.false_eq_true, if_false, Store.slot, hsl, isExpired_eq]
      by_cases hx : e.E ≠ 0 ∧ e.E < now <;> simp [hx]

/-- Metrics of `Read`: nothing under SkipRead, otherwise exactly one of hit / miss / expired. -/
theorem read_metrics {s : Store} {kind : Kind} (cfg : Cfg) (k : Key) (skip : Bool) (now : Time) :
    (s.read hash kind cfg k skip now).2.2 =
      if skip then [] else
      match (s.read hash kind cfg k skip now).2.1 with
      | .miss => [.miss]
      | .hit _ => [.hit]
      | .expired _ _ => [.expired 1] := by
  unfold Store.read
  by_cases hs : skip = true
  · simp [hs]
  · simp only [hs, Bool.false_eq_true, if_false]
    split
    · rfl
    · split
      · rfl
      · split <;> rfl

theorem wf_read {s : Store} {kind : Kind} (cfg : Cfg) (hw : s.WF hash) (hk : KindOK hash kind)
    (k : Key) (skip : Bool) (now : Time) : (s.read hash kind cfg k skip now).1.WF hash := by
  unfold Store.read
  by_cases hs : skip = true
  · simpa [hs] using hw
  · simp only [hs, Bool.false_eq_true, if_false, keyMismatchRead_eq hash hw hk]
    cases hg : s.get hash k with
    | none => simpa using hw
    | some e =>
      have ⟨hsl, hek⟩ := Store.get_some hash hg
      simp only [Option.isNone_some, Bool.false_eq_true, if_false, Store.slot, hsl]
      have : ∀ c', Store.WF hash { s with slots := s.slots.insert (hash k) { e with C := c' } } := by
        intro c' h e' he'
        simp only [TreeMap.getElem?_insert] at he'
        split at he'
        · rename_i hc; cases he'; simp [hek]; simpa using hc
        · exact hw h e' he'
      split <;> exact this _

/-- `Read` changes nothing a reader can observe: key, value and expiry of every entry stay (only `C` of the read entry moves). -/
theorem get_read_view {s : Store} {kind : Kind} (cfg : Cfg) (hw : s.WF hash) (hk : KindOK hash kind)
    (k : Key) (skip : Bool) (now : Time) (k' : Key) :
    ((s.read hash kind cfg k skip now).1.get hash k').map Entry.view = (s.get hash k').map Entry.view := by
  unfold Store.read
  by_cases hs : skip = true
  · simp [hs]
  · simp only [hs, Bool.false_eq_true, if_false, keyMismatchRead_eq hash hw hk]
    cases hg : s.get hash k with
    | none => simp
    | some e =>
      have ⟨hsl, hek⟩ := Store.get_some hash hg
      simp only [Option.isNone_some, Bool.false_eq_true, if_false, Store.slot, hsl]
      have key : ∀ c', (Store.get hash { s with slots := s.slots.insert (hash k) { e with C := c' } } k').map Entry.view
          = (s.get hash k').map Entry.view := by
        intro c'
        unfold Store.get
        simp only [TreeMap.getElem?_insert]
        by_cases hh : hash k = hash k'
        · simp only [hh, Nat.compare_eq_eq.mpr rfl, if_true]
          rw [← hh, hsl]
          by_cases hkk : e.K = k' <;> simp [hkk, Entry.view]
        · have : compare (hash k) (hash k') ≠ .eq := by simpa [Nat.compare_eq_eq] using hh
          simp [this]
      split <;> exact key _

theorem read_expirationsSet {s : Store} {kind : Kind} (cfg : Cfg) (k : Key) (skip : Bool) (now : Time) :
    (s.read hash kind cfg k skip now).1.expirationsSet = s.expirationsSet := by
  unfold Store.read
  split
  · rfl
  · simp only
    split
    · rfl
    · split
      · rfl
      · split <;> rfl

/-! ### ExpireAll / DeleteAll -/

theorem wf_expireAll {s : Store} (hw : s.WF hash) (now : Time) : (s.expireAll now).1.WF hash := by
  intro h e he
  simp only [Store.expireAll, TreeMap.getElem?_map] at he
  cases hs : s.slots[h]? with
  | none => simp [hs] at he
  | some e0 =>
    simp [hs] at he
    subst he
    exact hw h e0 hs

theorem get_expireAll (s : Store) (now : Time) (k : Key) :
    (s.expireAll now).1.get hash k = (s.get hash k).map (fun e => { e with E := now }) := by
  unfold Store.get Store.expireAll
  simp only [TreeMap.getElem?_map]
  cases hs : s.slots[hash k]? with
  | none => simp
  | some e => by_cases hk : e.K = k <;> simp [hk]

theorem wf_deleteAll (s : Store) : (s.deleteAll).1.WF hash := by
  intro h e he; simp [Store.deleteAll] at he

@[simp] theorem get_deleteAll (s : Store) (k : Key) : (s.deleteAll).1.get hash k = none := by
  simp [Store.get, Store.deleteAll]

/-! ### Len / Walk -/

theorem mem_walk_iff {s : Store} (hw : s.WF hash) (e : Entry) :
    e ∈ s.walk ↔ s.get hash e.K = some e := by
  unfold Store.walk
  constructor
  · intro h
    obtain ⟨⟨h', e'⟩, hm, rfl⟩ := List.mem_map.mp h
    have := (TreeMap.mem_toList_iff_getElem?_eq_some).mp hm
    have hh := hw _ _ this
    simp only at hh ⊢
    exact Store.get_of_slot hash (by rw [hh]; exact this) rfl
  · intro h
    have ⟨hs, _⟩ := Store.get_some hash h
    exact List.mem_map.mpr ⟨(hash e.K, e), (TreeMap.mem_toList_iff_getElem?_eq_some).mpr hs, rfl⟩

theorem walk_length (s : Store) : s.walk.length = s.len := by
  simp [Store.walk, Store.len, TreeMap.length_toList]

/-- Walk visits every stored key exactly once. -/
theorem walk_keys_nodup {s : Store} (hw : s.WF hash) : (s.walk.map (·.K)).Nodup := by
  unfold Store.walk
  rw [List.map_map]
  have hd : (s.slots.toList.map (·.1)).Nodup := by
    have := TreeMap.distinct_keys_toList (t := s.slots)
    rw [List.Nodup, List.pairwise_map]
    exact this.imp (fun h heq => by simp [heq] at h)
  -- the key determines the slot, so distinct slots carry distinct keys
  rw [List.Nodup, List.pairwise_map] at hd ⊢
  refine List.Pairwise.imp_of_mem ?_ hd
  intro a b ha hb hne hk
  apply hne
  have h1 := hw _ _ ((TreeMap.mem_toList_iff_getElem?_eq_some).mp ha)
  have h2 := hw _ _ ((TreeMap.mem_toList_iff_getElem?_eq_some).mp hb)
  simp only [Function.comp] at hk
  rw [← h1, ← h2, hk]

end Cache
