import CacheProofs.Lemmas.Backend

/- Lemmas about the cleanup cycle: deleteExpired, eviction. -/
namespace Cache
open Std
variable (hash : Key → Nat)

theorem deleteExpiredCond_eq (kind : Kind) (E before : Int) :
    kind.deleteExpiredCond E before = decide (E ≠ 0 ∧ E < before) := by
  by_cases h0 : E = 0 <;> cases kind <;>
    simp [Kind.deleteExpiredCond, Gen.deleteExpiredCond, Gen.deleteExpiredCondOf, Gen.deleteExpiredCondSync, h0]

/-- Removing slots preserves well-formedness. -/
theorem wf_of_sub {s s' : Store} (hw : s.WF hash) (hsub : ∀ (h : Nat) (e : Entry), s'.slots[h]? = some e → s.slots[h]? = some e) :
    s'.WF hash := fun h e he => hw h e (hsub h e he)

theorem get_deleteExpired (kind : Kind) (s : Store) (before : Time) (k : Key) :
    (s.deleteExpired kind before).get hash k = (s.get hash k).filter (fun e => decide (e.E = 0 ∨ before ≤ e.E)) := by
  unfold Store.get Store.deleteExpired
  simp only [TreeMap.getElem?_filter', deleteExpiredCond_eq]
  cases hs : s.slots[hash k]? with
  | none => simp
  | some e =>
    by_cases hk : e.K = k
    · by_cases hx : e.E = 0 ∨ before ≤ e.E
      · have : ¬(e.E ≠ 0 ∧ e.E < before) := by omega
        simp [Option.filter, hk, hx, this]
      · have : (e.E ≠ 0 ∧ e.E < before) := by omega
        simp [Option.filter, hk, this]
    · by_cases hx : (e.E ≠ 0 ∧ e.E < before) <;> simp [Option.filter, hk, hx]

theorem wf_deleteExpired {s : Store} (hw : s.WF hash) (kind : Kind) (before : Time) :
    (s.deleteExpired kind before).WF hash := by
  apply wf_of_sub hash hw
  intro h e he
  simp only [Store.deleteExpired, TreeMap.getElem?_filter'] at he
  cases hs : s.slots[h]? with
  | none => simp [hs] at he
  | some e0 =>
    simp only [hs, Option.filter] at he
    split at he
    · exact he
    · cases he

theorem getElem?_eraseAll (m : TreeMap Nat Entry) (hs : List Nat) (h : Nat) :
    (eraseAll m hs)[h]? = if h ∈ hs then none else m[h]? := by
  induction hs generalizing m with
  | nil => simp [eraseAll]
  | cons a rest ih =>
    simp only [eraseAll, List.foldl_cons] at ih ⊢
    rw [ih, TreeMap.getElem?_erase]
    by_cases ha : h = a
    · subst ha; simp
    · have : compare a h ≠ .eq := by simpa [Nat.compare_eq_eq] using Ne.symm ha
      simp [ha, this]

theorem wf_evict {s : Store} (hw : s.WF hash) (victims : List Nat) : (s.evict victims).WF hash := by
  apply wf_of_sub hash hw
  intro h e he
  simp only [Store.evict, getElem?_eraseAll] at he
  split at he
  · cases he
  · exact he

theorem get_evict (s : Store) (victims : List Nat) (k : Key) :
    (s.evict victims).get hash k = if hash k ∈ victims then none else s.get hash k := by
  unfold Store.get Store.evict
  simp only [getElem?_eraseAll]
  by_cases hv : hash k ∈ victims <;> simp [hv]

theorem cleanupScan_expirationsSet (kind : Kind) (cfg : Cfg) (s : Store) (now : Time) :
    (s.cleanupScan kind cfg now).expirationsSet = s.expirationsSet := by
  unfold Store.cleanupScan Store.deleteExpired; split <;> rfl

theorem wf_cleanup {s : Store} (hw : s.WF hash) (kind : Kind) (cfg : Cfg) (env : CleanupEnv) :
    (s.cleanup kind cfg env).1.WF hash := by
  have h1 : (s.cleanupScan kind cfg env.now).WF hash := by
    unfold Store.cleanupScan; split
    · exact wf_deleteExpired hash hw kind _
    · exact hw
  unfold Store.cleanup
  simp only
  split
  · exact wf_evict hash h1 _
  · exact h1

end Cache
