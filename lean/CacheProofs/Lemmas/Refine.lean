import CacheProofs.Lemmas.Backend
import CacheProofs.Lemmas.Spec

/- The simulation relation between the slot-keyed store and the reference map, and its preservation by every step. -/
namespace Cache
open Std
variable (hash : Key → Nat)

def sview (e : Entry) : Spec.SEntry := ⟨e.V, e.E⟩

/-- `m` is the abstract image of `s`: same per-key content (value, expiry), no duplicate keys, same size. -/
structure Refines (s : Store) (m : Spec.SMap) : Prop where
  get_eq : ∀ k, Spec.get m k = (s.get hash k).map sview
  nodup : (Spec.keys m).Nodup
  len_eq : m.length = s.len

theorem slot_isSome_eq_get {s : Store} (hw : s.WF hash) (hi : Function.Injective hash) (k : Key) :
    (s.slots[hash k]?).isSome = (s.get hash k).isSome := by
  unfold Store.get
  cases hs : s.slots[hash k]? with
  | none => rfl
  | some e => simp [get_eq_of_slot_inj hash hw hi hs]

theorem len_writeCore {s : Store} (hw : s.WF hash) (hi : Function.Injective hash) (k : Key) (v : Option Val) (E : Time) (b : Bool) :
    (s.writeCore hash k v E b).len = if (s.get hash k).isSome then s.len else s.len + 1 := by
  unfold Store.len Store.writeCore
  rw [TreeMap.size_insert, TreeMap.contains_eq_isSome_getElem?, slot_isSome_eq_get hash hw hi]

theorem len_delete {s : Store} {kind : Kind} (hw : s.WF hash) (hk : KindOK hash kind) (k : Key) :
    (s.delete hash kind k).1.len = if (s.get hash k).isSome then s.len - 1 else s.len := by
  unfold Store.delete
  simp only [keyMismatchDelete_eq hash hw hk]
  cases hg : s.get hash k with
  | none => simp
  | some e =>
    have ⟨hs, _⟩ := Store.get_some hash hg
    simp [Store.len, TreeMap.size_erase, TreeMap.contains_eq_isSome_getElem?, hs]

theorem len_expireAll (s : Store) (now : Time) : (s.expireAll now).1.len = s.len := by
  simp [Store.len, Store.expireAll, TreeMap.size_map]

theorem len_deleteAll (s : Store) : (s.deleteAll).1.len = 0 := by
  simp [Store.len, Store.deleteAll]

theorem len_read {s : Store} {kind : Kind} (cfg : Cfg) (hw : s.WF hash) (hk : KindOK hash kind)
    (k : Key) (skip : Bool) (now : Time) : (s.read hash kind cfg k skip now).1.len = s.len := by
  unfold Store.read
  by_cases hs : skip = true
  · simp [hs]
  · simp only [hs, Bool.false_eq_true, if_false, keyMismatchRead_eq hash hw hk]
    cases hg : s.get hash k with
    | none => simp
    | some e =>
      have ⟨hsl, _⟩ := Store.get_some hash hg
      simp only [Option.isNone_some, Bool.false_eq_true, if_false, Store.slot, hsl]
      have : ∀ c', Store.len { s with slots := s.slots.insert (hash k) { e with C := c' } } = s.len := by
        intro c'
        simp [Store.len, TreeMap.size_insert, TreeMap.contains_eq_isSome_getElem?, hsl]
      split <;> exact this _

theorem refines_empty : Refines hash Store.empty [] :=
  ⟨fun k => by simp [Spec.get_nil], by simp [Spec.keys], by simp [Store.len, Store.empty]⟩

theorem refines_write {s : Store} {m : Spec.SMap} (hw : s.WF hash) (hi : Function.Injective hash)
    (hr : Refines hash s m) (k : Key) (v : Option Val) (E : Time) (b : Bool) :
    Refines hash (s.writeCore hash k v E b) (Spec.write m k v E) := by
  refine ⟨?_, Spec.nodup_put hr.nodup _ _, ?_⟩
  · intro k'
    rw [Spec.write, Spec.get_put, get_writeCore]
    by_cases hkk : k' = k
    · simp [hkk, sview]
    · have : hash k' ≠ hash k := fun h => hkk (hi h)
      simp [hkk, this, hr.get_eq]
  · rw [Spec.write, Spec.length_put hr.nodup, len_writeCore hash hw hi, hr.get_eq, hr.len_eq]
    simp

theorem refines_delete {s : Store} {m : Spec.SMap} {kind : Kind} (hw : s.WF hash) (hk : KindOK hash kind)
    (hr : Refines hash s m) (k : Key) :
    Refines hash (s.delete hash kind k).1 (Spec.delete m k).1 := by
  refine ⟨?_, Spec.nodup_remove hr.nodup _, ?_⟩
  · intro k'
    rw [Spec.delete, Spec.get_remove, get_delete hash hw hk]
    by_cases hkk : k' = k <;> simp [hkk, hr.get_eq]
  · rw [Spec.delete, Spec.length_remove hr.nodup, len_delete hash hw hk, hr.get_eq, hr.len_eq]
    simp

theorem refines_expireAll {s : Store} {m : Spec.SMap} (hr : Refines hash s m) (now : Time) :
    Refines hash (s.expireAll now).1 (Spec.expireAll m now) := by
  refine ⟨?_, by rw [Spec.keys_expireAll]; exact hr.nodup, ?_⟩
  · intro k
    rw [Spec.get_expireAll, get_expireAll, hr.get_eq]
    cases s.get hash k <;> simp [sview]
  · rw [len_expireAll, ← hr.len_eq]; simp [Spec.expireAll]

theorem refines_deleteAll (s : Store) (m : Spec.SMap) : Refines hash (s.deleteAll).1 (Spec.deleteAll m) :=
  ⟨fun k => by simp [Spec.deleteAll, Spec.get_nil], by simp [Spec.deleteAll, Spec.keys], by simp [Spec.deleteAll, len_deleteAll]⟩

theorem refines_read {s : Store} {m : Spec.SMap} {kind : Kind} (cfg : Cfg) (hw : s.WF hash) (hk : KindOK hash kind)
    (hr : Refines hash s m) (k : Key) (skip : Bool) (now : Time) :
    Refines hash (s.read hash kind cfg k skip now).1 m := by
  refine ⟨?_, hr.nodup, by rw [len_read hash cfg hw hk]; exact hr.len_eq⟩
  intro k'
  rw [hr.get_eq]
  have := get_read_view hash cfg hw hk k skip now k'
  cases h1 : (s.read hash kind cfg k skip now).1.get hash k' <;> cases h2 : s.get hash k' <;>
    simp_all [Entry.view, sview]

end Cache
