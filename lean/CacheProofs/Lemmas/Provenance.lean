import CacheProofs.Lemmas.FailoverStep

/- Provenance invariant of the Failover machine (C02). -/
namespace Cache

def GoodVal (g : Ghost) (k : Key) (v : Val) : Prop := (k, v) ∈ g.builtOk ∨ (k, v) ∈ g.backendVals
def GoodErr (g : Ghost) (k : Key) (e : Err) : Prop := (k, e) ∈ g.buildErr ∨ (k, e) ∈ g.backendErrs

/-- A result with provenance for key `k`: a value some builder produced for `k` or the backend returned for `k`,
    or an error a builder / the backend produced for `k`; never (nil, nil). -/
def Good (g : Ghost) (k : Key) (r : GetResult) : Prop :=
  (r.err = none → ∃ v, r.val = some v ∧ GoodVal g k v) ∧ (∀ e, r.err = some e → GoodErr g k e)

/-- Ghost lists only grow. -/
structure GLe (g g' : Ghost) : Prop where
  b : ∀ x, x ∈ g.builtOk → x ∈ g'.builtOk
  e : ∀ x, x ∈ g.buildErr → x ∈ g'.buildErr
  v : ∀ x, x ∈ g.backendVals → x ∈ g'.backendVals
  r : ∀ x, x ∈ g.backendErrs → x ∈ g'.backendErrs

theorem GLe.refl (g : Ghost) : GLe g g := ⟨fun _ h => h, fun _ h => h, fun _ h => h, fun _ h => h⟩
theorem GoodVal.mono {g g' : Ghost} (h : GLe g g') {k v} (hv : GoodVal g k v) : GoodVal g' k v :=
  hv.elim (fun x => Or.inl (h.b _ x)) (fun x => Or.inr (h.v _ x))
theorem GoodErr.mono {g g' : Ghost} (h : GLe g g') {k e} (he : GoodErr g k e) : GoodErr g' k e :=
  he.elim (fun x => Or.inl (h.e _ x)) (fun x => Or.inr (h.r _ x))
theorem Good.mono {g g' : Ghost} (h : GLe g g') {k r} (hr : Good g k r) : Good g' k r :=
  ⟨fun hn => let ⟨v, hv, hg⟩ := hr.1 hn; ⟨v, hv, hg.mono h⟩, fun e he => (hr.2 e he).mono h⟩

/-- Everything a thread carries around has provenance for the thread's key. -/
structure ThreadOK (g : Ghost) (x : Thread) : Prop where
  ret : ∀ r, x.returned = some r → Good g x.key r
  stl : ∀ v, x.stale = some v → GoodVal g x.key v
  rrs : ∀ v since, x.readRes = .stale v since → GoodVal g x.key v
  rre : ∀ e, x.readRes = .err e → GoodErr g x.key e
  sto : ∀ v, x.pc = .storing v → (x.key, v) ∈ g.builtOk
  ste : ∀ e, x.pc = .storeErr e → (x.key, e) ∈ g.buildErr
  fin : ∀ r, x.pc = .finish r → Good g x.key r
  frs : (x.pc = .checkErrs ∨ x.pc = .decideSync) → x.errNonNil = false → x.stale.isSome = true
  bgr : x.bg = true → x.returned.isSome = true
  idl : x.pc = .idle → x.returned = none ∧ x.stale = none ∧ x.readRes = .miss ∧ x.bg = false
  rfs : x.pc = .refreshing → x.stale.isSome = true
  wto : x.pc = .waiting → x.owner = false

theorem ThreadOK.mono {g g' : Ghost} (h : GLe g g') {x : Thread} (hx : ThreadOK g x) : ThreadOK g' x :=
  ⟨fun r hr => (hx.ret r hr).mono h, fun v hv => (hx.stl v hv).mono h, fun v s hv => (hx.rrs v s hv).mono h,
   fun e he => (hx.rre e he).mono h, fun v hv => h.b _ (hx.sto v hv), fun e he => h.e _ (hx.ste e he),
   fun r hr => (hx.fin r hr).mono h, hx.frs, hx.bgr, hx.idl, hx.rfs, hx.wto⟩

structure Prov (s : FState) : Prop where
  thr : ∀ t, ThreadOK s.g (s.th t)
  klo : ∀ t, (s.th t).attached → (s.kl (s.th t).lid).closed = true →
          Good s.g (s.th t).key ⟨(s.kl (s.th t).lid).val, (s.kl (s.th t).lid).err⟩
  ers : ∀ k e E, s.errs k = some (e, E) → (k, e) ∈ s.g.buildErr

theorem prov_init : Prov FState.init := by
  refine ⟨fun t => ⟨?_, ?_, ?_, ?_, ?_, ?_, ?_, ?_, ?_, ?_, ?_, ?_⟩, ?_, ?_⟩ <;> intros <;> simp_all [FState.init, Thread.attached]

/-- Ghost growth alone. -/
theorem prov_ghost {s : FState} (hp : Prov s) (g : Ghost) (h : GLe s.g g) : Prov { s with g := g } :=
  ⟨fun t => (hp.thr t).mono h, fun t ha hc => (hp.klo t ha hc).mono h, fun k e E he => h.e _ (hp.ers k e E he)⟩

/-- One thread changes (lock table untouched); the new thread is OK and, if attached, its closed lock record is good. -/
theorem prov_setTh {s : FState} (hp : Prov s) (t : Nat) (x : Thread) (hx : ThreadOK s.g x)
    (hk : x.attached → (s.kl x.lid).closed = true → Good s.g x.key ⟨(s.kl x.lid).val, (s.kl x.lid).err⟩) :
    Prov (s.setTh t x) := by
  refine ⟨?_, ?_, hp.ers⟩
  · intro u
    by_cases h : u = t
    · subst h; rw [setTh_th_same]; exact hx
    · rw [setTh_th_other _ _ _ _ h]; exact hp.thr u
  · intro u ha hc
    by_cases h : u = t
    · subst h; simp only [setTh_th_same, setTh_kl] at ha hc ⊢; exact hk ha hc
    · rw [setTh_th_other _ _ _ _ h] at ha hc ⊢; exact hp.klo u ha hc

/-- The owner publishes a good result, releases, and becomes `x`. -/
theorem prov_release {s : FState} (hi : Inv s) (hp : Prov s) (t : Nat) (x : Thread) (r : GetResult)
    (hold : (s.th t).owning) (hr : Good s.g (s.th t).key r) (hx : ThreadOK s.g x) (hna : ¬ x.attached) :
    Prov ((s.publishRelease (s.th t).key (s.th t).lid r).setTh t x) := by
  have ⟨hkl, hopen⟩ := hi.own t hold
  have hg : ((s.publishRelease (s.th t).key (s.th t).lid r).setTh t x).g = s.g := rfl
  have hth : ∀ u, u ≠ t → ((s.publishRelease (s.th t).key (s.th t).lid r).setTh t x).th u = s.th u := by
    intro u hu; simp [FState.setTh, FState.publishRelease, FState.release, FState.setKL, hu]
  have htt : ((s.publishRelease (s.th t).key (s.th t).lid r).setTh t x).th t = x := by simp [FState.setTh]
  refine ⟨?_, ?_, ?_⟩
  · intro u
    by_cases h : u = t
    · subst h; rw [htt, hg]; exact hx
    · rw [hth u h, hg]; exact hp.thr u
  · intro u ha hc
    by_cases h : u = t
    · subst h; rw [htt] at ha; exact absurd ha hna
    · rw [hth u h] at ha hc ⊢
      rw [hg]
      by_cases hl : (s.th u).lid = (s.th t).lid
      · -- the lock just released: u waits for t's key
        have hku : (s.th u).key = (s.th t).key := by
          rcases (hi.att u ha).2 with hcl | hreg
          · rw [hl, hopen] at hcl; cases hcl
          · rw [hl] at hreg; exact hi.inj _ _ _ hreg hkl
        rw [hl, hku]
        simp only [FState.publishRelease, FState.release, FState.setKL, FState.setTh, if_true]
        exact hr
      · have : ∀ f : KL → Option Nat, f (((s.publishRelease (s.th t).key (s.th t).lid r).setTh t x).kl (s.th u).lid) = f (s.kl (s.th u).lid) := by
          intro f; simp [FState.publishRelease, FState.release, FState.setKL, FState.setTh, hl]
        have hkeq : ((s.publishRelease (s.th t).key (s.th t).lid r).setTh t x).kl (s.th u).lid = s.kl (s.th u).lid := by
          simp [FState.publishRelease, FState.release, FState.setKL, FState.setTh, hl]
        rw [hkeq] at hc ⊢
        exact hp.klo u ha hc
  · intro k e E he
    exact hp.ers k e E he

end Cache
