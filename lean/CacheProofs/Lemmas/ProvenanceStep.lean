import CacheProofs.Lemmas.Provenance

/- Every step preserves the provenance invariant. -/
namespace Cache

theorem gle_cons_b (g : Ghost) (x : Key × Val) : GLe g { g with builtOk := x :: g.builtOk } :=
  ⟨fun _ h => List.mem_cons_of_mem _ h, fun _ h => h, fun _ h => h, fun _ h => h⟩
theorem gle_cons_e (g : Ghost) (x : Key × Err) : GLe g { g with buildErr := x :: g.buildErr } :=
  ⟨fun _ h => h, fun _ h => List.mem_cons_of_mem _ h, fun _ h => h, fun _ h => h⟩
theorem gle_noteRead (s : FState) (k : Key) (a : ReadAns) : GLe s.g (s.noteRead k a).g := by
  cases a <;> refine ⟨fun _ h => h, fun _ h => h, ?_, ?_⟩ <;> intro x h <;> simp [FState.noteRead] <;> first | exact h | exact Or.inr h
theorem gle_noteWrite (s : FState) (k : Key) (a : WriteAns) : GLe s.g (s.noteWrite k a).g := by
  cases a
  · exact GLe.refl _
  · exact ⟨fun _ h => h, fun _ h => h, fun _ h => h, fun _ h => List.mem_cons_of_mem _ h⟩

theorem prov_noteRead {s : FState} (hp : Prov s) (k : Key) (a : ReadAns) : Prov (s.noteRead k a) :=
  prov_ghost hp _ (gle_noteRead s k a)
theorem prov_noteWrite {s : FState} (hp : Prov s) (k : Key) (a : WriteAns) : Prov (s.noteWrite k a) := by
  cases a
  · exact hp
  · exact prov_ghost hp _ (gle_noteWrite s k (.err _))

/-- Ghost change that keeps the four provenance lists. -/
theorem prov_counters' {s : FState} (hp : Prov s) (g : Ghost)
    (h1 : g.builtOk = s.g.builtOk) (h2 : g.buildErr = s.g.buildErr) (h3 : g.backendVals = s.g.backendVals)
    (h4 : g.backendErrs = s.g.backendErrs) : Prov { s with g := g } :=
  prov_ghost hp g ⟨fun _ h => h1 ▸ h, fun _ h => h2 ▸ h, fun _ h => h3 ▸ h, fun _ h => h4 ▸ h⟩

theorem prov_req {s : FState} (hp : Prov s) (t : Nat) (r : Req) : Prov (s.req t r) :=
  prov_counters' hp _ rfl rfl rfl rfl

theorem prov_counters {s : FState} (hp : Prov s) (g : Ghost)
    (h1 : g.builtOk = s.g.builtOk) (h2 : g.buildErr = s.g.buildErr) (h3 : g.backendVals = s.g.backendVals)
    (h4 : g.backendErrs = s.g.backendErrs) : Prov { s with g := g } :=
  prov_ghost hp g ⟨fun _ h => h1 ▸ h, fun _ h => h2 ▸ h, fun _ h => h3 ▸ h, fun _ h => h4 ▸ h⟩

theorem done_ok {g : Ghost} {x : Thread} (hx : ThreadOK g x) (r : GetResult) (hr : Good g x.key r) :
    ThreadOK g { x with pc := .done, returned := if x.bg then x.returned else some r } := by
  obtain ⟨ret, stl, rrs, rre, _, _, _, _, bgr, _, _, _⟩ := hx
  refine ⟨?_, stl, rrs, rre, ?_, ?_, ?_, ?_, ?_, ?_, ?_, ?_⟩
  · intro r' hr'
    by_cases hb : x.bg = true
    · simp only [hb, if_true] at hr'; exact ret r' hr'
    · simp only [hb, Bool.false_eq_true, if_false, Option.some.injEq] at hr'; subst hr'; exact hr
  · intro v h; cases h
  · intro e h; cases h
  · intro r' h; cases h
  · intro h; rcases h with h | h <;> cases h
  · intro hb
    have hb' : x.bg = true := hb
    simp only [hb', if_true]; exact bgr hb'
  · intro h; cases h
  · intro h; cases h
  · intro h; cases h

theorem done_not_attached (x : Thread) (r : Option GetResult) : ¬ ({ x with pc := .done, returned := r } : Thread).attached := by
  simp [Thread.attached]

theorem prov_finish {s : FState} (hp : Prov s) (t : Nat) (r : GetResult) (hr : Good s.g (s.th t).key r) :
    Prov (s.finishThread t (s.th t) r) := by
  unfold FState.finishThread
  exact prov_setTh hp t _ (done_ok (hp.thr t) r hr) (fun ha => absurd ha (done_not_attached _ _))

theorem prov_finish_release {s : FState} (hi : Inv s) (hp : Prov s) (t : Nat) (res r : GetResult) (hold : (s.th t).owning)
    (hres : Good s.g (s.th t).key res) (hr : Good s.g (s.th t).key r) :
    Prov ((s.publishRelease (s.th t).key (s.th t).lid res).finishThread t (s.th t) r) := by
  unfold FState.finishThread
  exact prov_release hi hp t _ res hold hres (done_ok (hp.thr t) r hr) (done_not_attached _ _)

theorem good_val {g : Ghost} {k : Key} {v : Val} (h : GoodVal g k v) : Good g k ⟨some v, none⟩ :=
  ⟨fun _ => ⟨v, rfl, h⟩, fun e he => (by cases he)⟩
theorem good_err {g : Ghost} {k : Key} {e : Err} (v : Option Val) (h : GoodErr g k e) : Good g k ⟨v, some e⟩ :=
  ⟨fun hn => (by cases hn), fun e' he => (by cases he; exact h)⟩

end Cache

namespace Cache

/-- Election won: a fresh lock record appears; nobody is attached to it yet. -/
theorem prov_elect_new {s : FState} (hi : Inv s) (hp : Prov s) (t : Nat) (x : Thread)
    (hx : ThreadOK s.g x) (hown : x.owner = true) :
    Prov { (s.setTh t x) with
           keyLocks := fun k => if k = x.key then some s.nextLid else s.keyLocks k,
           kl := fun m => if m = s.nextLid then {} else s.kl m,
           nextLid := s.nextLid + 1 } := by
  refine ⟨?_, ?_, hp.ers⟩
  · intro u
    simp only [FState.setTh]
    by_cases h : u = t
    · simp only [h, if_true]; exact hx
    · simp only [h, if_false]; exact hp.thr u
  · intro u ha hc
    simp only [FState.setTh] at ha hc ⊢
    by_cases h : u = t
    · simp only [h, if_true] at ha
      have := ha.1; rw [hown] at this; cases this
    · simp only [h, if_false] at ha hc ⊢
      have hlt := (hi.att u ha).1
      have hne : (s.th u).lid ≠ s.nextLid := by omega
      simp only [hne, if_false] at hc ⊢
      exact hp.klo u ha hc

/-- Kernel facts used below. -/
theorem syncCond_false {c : FCfg} {e : Bool} (h : c.syncCond e = false) : e = false := by
  cases hv : c.variant <;> simp [FCfg.syncCond, hv, Gen.syncUpdateCond, Gen.syncUpdateCondOf] at h <;> exact h.2
theorem fallback_true {c : FCfg} {b : Bool} (h : c.fallback b = true) : b = true := by
  cases hv : c.variant <;> simp [FCfg.fallback, hv, Gen.fallbackCond, Gen.fallbackCondOf] at h <;> exact h.1

theorem prov_step (c : FCfg) (s s' : FState) (l : FLabel) (hi : Inv s) (hp : Prov s) (h : step c s l = some s') : Prov s' := by
  cases l with
  | begin t key skip cell =>
    simp only [step] at h
    split at h
    · cases h
    · rename_i hpc
      have hidle : (s.th t).pc = .idle := by simpa using hpc
      obtain ⟨h1, h2, h3, h4⟩ := (hp.thr t).idl hidle
      have key : ∀ p : Pc, p ≠ .idle → p ≠ .checkErrs → p ≠ .decideSync → p ≠ .refreshing → p ≠ .waiting →
          (∀ v, p ≠ .storing v) → (∀ e, p ≠ .storeErr e) → (∀ r, p ≠ .finish r) →
          ThreadOK s.g { s.th t with key := key, skipRead := skip, cell := cell, pc := p } := by
        intro p a1 a2 a3 a4 a5 a6 a7 a8
        refine ⟨?_, ?_, ?_, ?_, ?_, ?_, ?_, ?_, ?_, ?_, ?_, ?_⟩ <;> intros <;> simp_all
      split at h <;> cases h
      · exact prov_setTh hp t _ (key _ (by simp) (by simp) (by simp) (by simp) (by simp) (by simp) (by simp) (by simp))
          (fun ha => by simp [Thread.attached] at ha)
      · exact prov_req (prov_setTh hp t _ (key _ (by simp) (by simp) (by simp) (by simp) (by simp) (by simp) (by simp) (by simp))
          (fun ha => by simp [Thread.attached] at ha)) _ _
  | readAns t a =>
    simp only [step] at h
    have hp' : Prov (s.noteRead (s.th t).key a) := prov_noteRead hp _ _
    have hi' : Inv (s.noteRead (s.th t).key a) := inv_noteRead hi _ _
    have hx := hp'.thr t
    have hth : (s.noteRead (s.th t).key a).th t = s.th t := by simp
    rw [hth] at hx
    have hv : ∀ v, (a = .hit v ∨ ∃ since, a = .stale v since) → GoodVal (s.noteRead (s.th t).key a).g (s.th t).key v := by
      intro v hv
      rcases hv with rfl | ⟨since, rfl⟩ <;> right <;> simp [FState.noteRead]
    have he : ∀ e, a = .err e → GoodErr (s.noteRead (s.th t).key a).g (s.th t).key e := by
      intro e he; subst he; right; simp [FState.noteRead]
    have upd : ∀ p : Pc, (p = .wantLock ∨ p = .classify) →
        ThreadOK (s.noteRead (s.th t).key a).g { s.th t with pc := p, readRes := a } := by
      intro p hp2
      obtain ⟨ret, stl, rrs, rre, sto, ste, fin, frs, bgr, idl, rfs, wto⟩ := hx
      refine ⟨ret, stl, ?_, ?_, ?_, ?_, ?_, ?_, bgr, ?_, ?_, ?_⟩
      · intro v since hrr; exact hv v (Or.inr ⟨since, hrr⟩)
      · intro e hrr; exact he e hrr
      all_goals (intros; rcases hp2 with rfl | rfl <;> simp_all)
    split at h
    · rename_i hpc
      split at h <;> cases h
      · have := prov_finish hp' t ⟨some _, none⟩ (by rw [hth]; exact good_val (hv _ (Or.inl rfl)))
        rw [hth] at this; exact this
      · exact prov_setTh hp' t _ (upd _ (Or.inl rfl)) (fun ha => by simp [Thread.attached] at ha)
    · rename_i hpc
      split at h <;> cases h
      · split
        · rename_i ho
          have := prov_finish_release hi' hp' t ⟨some _, none⟩ ⟨some _, none⟩ (by rw [hth]; exact ⟨ho, by simp [hpc]⟩)
            (by rw [hth]; exact good_val (hv _ (Or.inl rfl))) (by rw [hth]; exact good_val (hv _ (Or.inl rfl)))
          rw [hth] at this; exact this
        · have := prov_finish hp' t ⟨some _, none⟩ (by rw [hth]; exact good_val (hv _ (Or.inl rfl)))
          rw [hth] at this; exact this
      · refine prov_setTh hp' t _ (upd _ (Or.inr rfl)) ?_
        intro ha hc
        have hatt : ((s.noteRead (s.th t).key a).th t).attached := by rw [hth]; exact ⟨ha.1, Or.inl hpc⟩
        have := hp'.klo t hatt (by rw [hth]; exact hc)
        rw [hth] at this; exact this
    · cases h
  | elect t =>
    simp only [step] at h
    split at h
    · cases h
    · rename_i hpc
      have hw : (s.th t).pc = .wantLock := by simpa using hpc
      have hx := hp.thr t
      have upd : ∀ (o : Bool) (l : Nat), ThreadOK s.g { s.th t with pc := if c.syncRead then Pc.lockedRead else Pc.classify, owner := o, lid := l } := by
        intro o l
        obtain ⟨ret, stl, rrs, rre, sto, ste, fin, frs, bgr, idl, rfs, wto⟩ := hx
        refine ⟨ret, stl, rrs, rre, ?_, ?_, ?_, ?_, bgr, ?_, ?_, ?_⟩ <;> intros <;> cases hsr : c.syncRead <;> simp_all
      have key : Prov (match s.keyLocks (s.th t).key with
          | some l => s.setTh t { s.th t with pc := if c.syncRead then Pc.lockedRead else Pc.classify, owner := false, lid := l }
          | none =>
            { (s.setTh t { s.th t with pc := if c.syncRead then Pc.lockedRead else Pc.classify, owner := true, lid := s.nextLid }) with
              keyLocks := fun k => if k = (s.th t).key then some s.nextLid else s.keyLocks k,
              kl := fun m => if m = s.nextLid then {} else s.kl m,
              nextLid := s.nextLid + 1 }) := by
        cases hk : s.keyLocks (s.th t).key with
        | some l =>
          refine prov_setTh hp t _ (upd false l) ?_
          intro _ hc
          -- the registered lock is still open: its owner holds it
          obtain ⟨u, hu1, hu2, hu3⟩ := hi.held _ _ hk
          have := (hi.own u hu1).2
          rw [hu3] at this
          simp only at hc
          rw [this] at hc; cases hc
        | none => exact prov_elect_new hi hp t _ (upd true s.nextLid) rfl
      split at h
      · rename_i hsr
        cases h
        refine prov_req ?_ _ _
        cases hk : s.keyLocks (s.th t).key <;> simp only [hk, hsr, if_true] at key ⊢ <;> exact key
      · rename_i hsr
        cases h
        cases hk : s.keyLocks (s.th t).key <;> simp only [hk, hsr, Bool.false_eq_true, if_false] at key ⊢ <;> exact key
  | «local» t =>
    simp only [step] at h
    have hx := hp.thr t
    split at h
    · -- classify
      rename_i hpc
      split at h
      · rename_i hno
        have hof : (s.th t).owner = false := by simpa using hno
        have hatt : (s.th t).attached := ⟨hof, Or.inr (Or.inl hpc)⟩
        have towait : Prov (s.setTh t { s.th t with pc := .waiting }) := by
          refine prov_setTh hp t _ ?_ (fun _ hc => hp.klo t hatt hc)
          obtain ⟨ret, stl, rrs, rre, sto, ste, fin, frs, bgr, idl, rfs, wto⟩ := hx
          refine ⟨ret, stl, rrs, rre, ?_, ?_, ?_, ?_, bgr, ?_, ?_, ?_⟩ <;> intros <;> simp_all
        split at h
        · rename_i v since hrr
          split at h <;> cases h
          · exact prov_finish hp t _ (good_val (hx.rrs v since hrr))
          · exact towait
        · rename_i e hrr
          split at h <;> cases h
          · exact prov_finish hp t _ (good_err none (hx.rre e hrr))
          · exact towait
        · cases h; exact towait
      · rename_i hno
        have ho : (s.th t).owner = true := by simpa using hno
        have hown : (s.th t).owning := ⟨ho, by simp [hpc]⟩
        have tocheck : ∀ st : Option Val, (∀ v, st = some v → GoodVal s.g (s.th t).key v) →
            Prov (s.setTh t { s.th t with pc := .checkErrs, stale := st, errNonNil := true }) := by
          intro st hst
          refine prov_setTh hp t _ ?_ (fun ha => by simp [Thread.attached, ho] at ha)
          obtain ⟨ret, stl, rrs, rre, sto, ste, fin, frs, bgr, idl, rfs, wto⟩ := hx
          refine ⟨ret, hst, rrs, rre, ?_, ?_, ?_, ?_, bgr, ?_, ?_, ?_⟩ <;> intros <;> simp_all
        split at h
        · rename_i v since hrr
          have gv := hx.rrs v since hrr
          split at h <;> cases h
          · refine prov_req ?_ _ _
            have hg : Prov ({ s with g := { s.g with refreshed := s.g.refreshed + 1 } } : FState) := prov_counters hp _ rfl rfl rfl rfl
            refine prov_setTh hg t _ ?_ (fun ha => by split at ha <;> simp [Thread.attached, ho] at ha)
            obtain ⟨ret, stl, rrs, rre, sto, ste, fin, frs, bgr, idl, rfs, wto⟩ := hx
            have hstl : ∀ v', some v = some v' → GoodVal s.g (s.th t).key v' := fun v' hv' => by cases hv'; exact gv
            split
            · refine ⟨ret, hstl, rrs, rre, ?_, ?_, ?_, ?_, bgr, ?_, ?_, ?_⟩ <;> intros <;> simp_all
            · refine ⟨ret, hstl, rrs, rre, ?_, ?_, ?_, ?_, bgr, ?_, ?_, ?_⟩ <;> intros <;> simp_all
          · exact tocheck (some v) (fun v' hv' => by cases hv'; exact gv)
        · rename_i e hrr
          split at h <;> cases h
          · exact prov_finish_release hi hp t _ _ hown (good_err none (hx.rre e hrr)) (good_err none (hx.rre e hrr))
          · exact tocheck none (fun v' hv' => by cases hv')
        · cases h
          exact tocheck none (fun v' hv' => by cases hv')
    · -- decideSync
      rename_i hpc
      have ho : (s.th t).owner = true := hi.role t (by simp [hpc, Pc.ownerOnly])
      obtain ⟨ret, stl, rrs, rre, sto, ste, fin, frs, bgr, idl, rfs, wto⟩ := hx
      split at h
      · cases h
        refine prov_req ?_ _ _
        refine prov_setTh (?_ : Prov _) t _ ?_ (fun ha => by simp [Thread.attached, ho] at ha)
        · exact prov_counters hp _ rfl rfl rfl rfl
        refine ⟨ret, stl, rrs, rre, ?_, ?_, ?_, ?_, bgr, ?_, ?_, ?_⟩ <;> intros <;> simp_all
      · rename_i hsync
        cases h
        have hen : (s.th t).errNonNil = false := syncCond_false (by simpa using hsync)
        have hsome := frs (Or.inr hpc) hen
        refine prov_req ?_ _ _
        refine prov_setTh (?_ : Prov _) t _ ?_ (fun ha => by simp [Thread.attached, ho] at ha)
        · exact prov_counters hp _ rfl rfl rfl rfl
        refine ⟨?_, stl, rrs, rre, ?_, ?_, ?_, ?_, ?_, ?_, ?_, ?_⟩
        · intro r hr
          simp only [Option.some.injEq] at hr; subst hr
          cases hst : (s.th t).stale with
          | none => simp [hst] at hsome
          | some v => exact good_val (stl v hst)
        all_goals (intros; simp_all)
    · -- finish
      rename_i r hpc
      have ho : (s.th t).owner = true := hi.role t (by simp [hpc, Pc.ownerOnly])
      have hown : (s.th t).owning := ⟨ho, by simp [hpc]⟩
      have gr := hx.fin r hpc
      split at h
      · rename_i hfb
        cases h
        have : (s.th t).stale.isSome = true := by
          simp only [Bool.and_eq_true] at hfb
          exact fallback_true hfb.2
        cases hst : (s.th t).stale with
        | none => simp [hst] at this
        | some v => exact prov_finish_release hi hp t _ _ hown gr (good_val (hx.stl v hst))
      · cases h
        exact prov_finish_release hi hp t _ _ hown gr gr
    · cases h
  | writeAns t a =>
    simp only [step] at h
    have hp' : Prov (s.noteWrite (s.th t).key a) := prov_noteWrite hp _ _
    have hi' : Inv (s.noteWrite (s.th t).key a) := inv_noteWrite hi _ _
    have hx := hp'.thr t
    have hth : (s.noteWrite (s.th t).key a).th t = s.th t := by simp
    rw [hth] at hx
    have he : ∀ e, a = .err e → GoodErr (s.noteWrite (s.th t).key a).g (s.th t).key e := by
      intro e he; subst he; right; simp [FState.noteWrite]
    split at h
    · rename_i hpc
      have ho : (s.th t).owner = true := hi.role t (by simp [hpc, Pc.ownerOnly])
      split at h <;> cases h
      · have := prov_finish_release hi' hp' t ⟨none, some _⟩ ⟨none, some _⟩ (by rw [hth]; exact ⟨ho, by simp [hpc]⟩)
          (by rw [hth]; exact good_err none (he _ rfl)) (by rw [hth]; exact good_err none (he _ rfl))
        rw [hth] at this; exact this
      · refine prov_setTh hp' t _ ?_ (fun ha => by simp [Thread.attached, ho] at ha)
        obtain ⟨ret, stl, rrs, rre, sto, ste, fin, frs, bgr, idl, rfs, wto⟩ := hx
        refine ⟨ret, stl, rrs, rre, ?_, ?_, ?_, ?_, bgr, ?_, ?_, ?_⟩ <;> intros <;> simp_all
    · rename_i v hpc
      have ho : (s.th t).owner = true := hi.role t (by simp [hpc, Pc.ownerOnly])
      obtain ⟨ret, stl, rrs, rre, sto, ste, fin, frs, bgr, idl, rfs, wto⟩ := hx
      split at h <;> cases h
      · refine prov_setTh (?_ : Prov _) t _ ?_ (fun ha => by simp [Thread.attached, ho] at ha)
        · exact prov_counters hp' _ rfl rfl rfl rfl
        refine ⟨ret, stl, rrs, rre, ?_, ?_, ?_, ?_, bgr, ?_, ?_, ?_⟩
        · intro v' h'; cases h'
        · intro e' h'; cases h'
        · intro r' h'; simp only [Pc.finish.injEq] at h'; subst h'; exact good_err none (he _ rfl)
        all_goals (intros; simp_all)
      · refine prov_setTh (?_ : Prov _) t _ ?_ (fun ha => by simp [Thread.attached, ho] at ha)
        · exact prov_counters hp' _ rfl rfl rfl rfl
        refine ⟨ret, stl, rrs, rre, ?_, ?_, ?_, ?_, bgr, ?_, ?_, ?_⟩
        · intro v' h'; cases h'
        · intro e' h'; cases h'
        · intro r' h'; simp only [Pc.finish.injEq] at h'; subst h'; exact good_val (Or.inl (sto v hpc))
        all_goals (intros; simp_all)
    · cases h
  | errsRead t now =>
    simp only [step] at h
    split at h
    · cases h
    · rename_i hpc
      have hp2 : (s.th t).pc = .checkErrs := by simpa using hpc
      have ho : (s.th t).owner = true := hi.role t (by simp [hp2, Pc.ownerOnly])
      have hown : (s.th t).owning := ⟨ho, by simp [hp2]⟩
      have hx := hp.thr t
      split at h
      · rename_i e hhit
        cases h
        have hge : GoodErr s.g (s.th t).key e := by
          left
          split at hhit
          · split at hhit
            · rename_i e' E hes
              split at hhit
              · cases hhit
              · cases hhit; exact hp.ers _ _ _ hes
            · cases hhit
          · cases hhit
        exact prov_finish_release hi hp t _ _ hown (good_err none hge) (good_err _ hge)
      · cases h
        refine prov_setTh hp t _ ?_ (fun ha => by simp [Thread.attached, ho] at ha)
        obtain ⟨ret, stl, rrs, rre, sto, ste, fin, frs, bgr, idl, rfs, wto⟩ := hx
        refine ⟨ret, stl, rrs, rre, ?_, ?_, ?_, ?_, bgr, ?_, ?_, ?_⟩ <;> intros <;> simp_all
  | buildAns t a =>
    simp only [step] at h
    split at h
    · cases h
    · rename_i hpc
      have hp2 : (s.th t).pc = .building := by simpa using hpc
      have ho : (s.th t).owner = true := hi.role t (by simp [hp2, Pc.ownerOnly])
      have hx := hp.thr t
      split at h
      · rename_i v ups
        cases h
        refine prov_req ?_ _ _
        refine prov_setTh (prov_ghost hp _ (gle_cons_b _ _)) t _ ?_ (fun ha => by simp [Thread.attached, ho] at ha)
        have hx' := hx.mono (gle_cons_b s.g ((s.th t).key, v))
        obtain ⟨ret, stl, rrs, rre, sto, ste, fin, frs, bgr, idl, rfs, wto⟩ := hx'
        refine ⟨ret, stl, rrs, rre, ?_, ?_, ?_, ?_, bgr, ?_, ?_, ?_⟩
        · intro v' h'; simp only [Pc.storing.injEq] at h'; subst h'; simp
        all_goals (intros; simp_all)
      · rename_i e ups
        have hx' := hx.mono (gle_cons_e s.g ((s.th t).key, e))
        obtain ⟨ret, stl, rrs, rre, sto, ste, fin, frs, bgr, idl, rfs, wto⟩ := hx'
        split at h <;> cases h
        · refine prov_setTh (prov_ghost hp { s.g with buildErr := ((s.th t).key, e) :: s.g.buildErr, failed := s.g.failed + 1 }
            ⟨fun _ h => h, fun _ h => List.mem_cons_of_mem _ h, fun _ h => h, fun _ h => h⟩) t _ ?_ (fun ha => by simp [Thread.attached, ho] at ha)
          refine ⟨ret, stl, rrs, rre, ?_, ?_, ?_, ?_, bgr, ?_, ?_, ?_⟩
          · intro v' h'; cases h'
          · intro e' h'; simp only [Pc.storeErr.injEq] at h'; subst h'; simp
          all_goals (intros; simp_all)
        · refine prov_setTh (prov_ghost hp { s.g with buildErr := ((s.th t).key, e) :: s.g.buildErr, failed := s.g.failed + 1, builds := s.g.builds + 1 }
            ⟨fun _ h => h, fun _ h => List.mem_cons_of_mem _ h, fun _ h => h, fun _ h => h⟩) t _ ?_ (fun ha => by simp [Thread.attached, ho] at ha)
          refine ⟨ret, stl, rrs, rre, ?_, ?_, ?_, ?_, bgr, ?_, ?_, ?_⟩
          · intro v' h'; cases h'
          · intro e' h'; cases h'
          · intro r' h'; simp only [Pc.finish.injEq] at h'; subst h'
            exact good_err none (Or.inl (by simp))
          all_goals (intros; simp_all)
  | errsWrite t E =>
    simp only [step] at h
    split at h
    · rename_i e hpc
      have ho : (s.th t).owner = true := hi.role t (by simp [hpc, Pc.ownerOnly])
      have hx := hp.thr t
      have hmem := hx.ste e hpc
      cases h
      refine prov_req ?_ _ _
      have hp1 : Prov ({ s with g := { s.g with builds := s.g.builds + 1 } } : FState) := prov_counters hp _ rfl rfl rfl rfl
      have hbase : Prov ({ s with errs := fun k => if k = (s.th t).key then some (e, E) else s.errs k,
                                  g := { s.g with builds := s.g.builds + 1 } } : FState) := by
        refine ⟨hp1.thr, hp1.klo, ?_⟩
        intro k e' E' hes
        simp only at hes
        split at hes
        · rename_i hk; cases hes; rw [hk]; exact hmem
        · exact hp.ers k e' E' hes
      refine prov_setTh hbase t _ ?_ (fun ha => by simp [Thread.attached, ho] at ha)
      obtain ⟨ret, stl, rrs, rre, sto, ste, fin, frs, bgr, idl, rfs, wto⟩ := hx
      refine ⟨ret, stl, rrs, rre, ?_, ?_, ?_, ?_, bgr, ?_, ?_, ?_⟩
      · intro v' h'; cases h'
      · intro e' h'; cases h'
      · intro r' h'; simp only [Pc.finish.injEq] at h'; subst h'; exact good_err none (Or.inl hmem)
      all_goals (intros; simp_all)
    · cases h
  | wake t =>
    simp only [step] at h
    split at h
    · cases h
    · rename_i hpc
      have hp2 : (s.th t).pc = .waiting := by simpa using hpc
      split at h <;> cases h
      rename_i hcl
      have hof := (hp.thr t).wto hp2
      exact prov_finish hp t _ (hp.klo t ⟨hof, Or.inr (Or.inr hp2)⟩ hcl)

theorem prov_run (c : FCfg) (ls : List FLabel) : ∀ (s s' : FState), Inv s → Prov s → run c s ls = some s' → Prov s' := by
  induction ls with
  | nil => intro s s' _ hp h; simp [run] at h; subst h; exact hp
  | cons l rest ih =>
    intro s s' hi hp h
    simp only [run] at h
    cases hs : step c s l with
    | none => simp [hs] at h
    | some s1 => rw [hs] at h; exact ih s1 s' (inv_step c s s1 l hi hs) (prov_step c s s1 l hi hp hs) h

end Cache
