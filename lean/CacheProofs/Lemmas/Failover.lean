import CacheModel.Failover

/- The inductive invariant of the Failover machine: lock ownership and attachment of waiters. -/
namespace Cache

/-- Program positions at which a thread that won the election still owns its key lock. -/
def Thread.owning (x : Thread) : Prop :=
  x.owner = true ∧ (x.pc = .lockedRead ∨ x.pc = .classify ∨ x.pc = .refreshing ∨ x.pc = .checkErrs ∨ x.pc = .decideSync ∨
    x.pc = .building ∨ (∃ e, x.pc = .storeErr e) ∨ (∃ v, x.pc = .storing v) ∨ (∃ r, x.pc = .finish r))

/-- Positions at which a thread that lost the election refers to somebody else's lock. -/
def Thread.attached (x : Thread) : Prop :=
  x.owner = false ∧ (x.pc = .lockedRead ∨ x.pc = .classify ∨ x.pc = .waiting)

/-- Positions only an owner can reach. -/
def Pc.ownerOnly : Pc → Bool
  | .refreshing | .checkErrs | .decideSync | .building | .storeErr _ | .storing _ | .finish _ => true
  | _ => false

structure Inv (s : FState) : Prop where
  own : ∀ t, (s.th t).owning → s.keyLocks (s.th t).key = some (s.th t).lid ∧ (s.kl (s.th t).lid).closed = false
  fresh : ∀ k l, s.keyLocks k = some l → l < s.nextLid
  held : ∀ k l, s.keyLocks k = some l → ∃ t, (s.th t).owning ∧ (s.th t).key = k ∧ (s.th t).lid = l
  uniq : ∀ t u, (s.th t).owning → (s.th u).owning → (s.th t).key = (s.th u).key → t = u
  inj : ∀ k k' l, s.keyLocks k = some l → s.keyLocks k' = some l → k = k'
  role : ∀ t, (s.th t).pc.ownerOnly = true → (s.th t).owner = true
  att : ∀ t, (s.th t).attached →
    (s.th t).lid < s.nextLid ∧ ((s.kl (s.th t).lid).closed = true ∨ s.keyLocks (s.th t).key = some (s.th t).lid)

theorem inv_init : Inv FState.init := by
  refine ⟨?_, ?_, ?_, ?_, ?_, ?_, ?_⟩ <;> intros <;> simp_all [FState.init, Thread.owning, Thread.attached, Pc.ownerOnly]

@[simp] theorem setTh_th_same (s : FState) (t : Nat) (x : Thread) : (s.setTh t x).th t = x := by simp [FState.setTh]
theorem setTh_th_other (s : FState) (t u : Nat) (x : Thread) (h : u ≠ t) : (s.setTh t x).th u = s.th u := by
  simp [FState.setTh, h]
@[simp] theorem setTh_keyLocks (s : FState) (t : Nat) (x : Thread) : (s.setTh t x).keyLocks = s.keyLocks := rfl
@[simp] theorem setTh_kl (s : FState) (t : Nat) (x : Thread) : (s.setTh t x).kl = s.kl := rfl
@[simp] theorem setTh_nextLid (s : FState) (t : Nat) (x : Thread) : (s.setTh t x).nextLid = s.nextLid := rfl
@[simp] theorem req_th (s : FState) (t : Nat) (r : Req) : (s.req t r).th = s.th := rfl
@[simp] theorem req_keyLocks (s : FState) (t : Nat) (r : Req) : (s.req t r).keyLocks = s.keyLocks := rfl
@[simp] theorem req_kl (s : FState) (t : Nat) (r : Req) : (s.req t r).kl = s.kl := rfl
@[simp] theorem req_nextLid (s : FState) (t : Nat) (r : Req) : (s.req t r).nextLid = s.nextLid := rfl

/-- The invariant only looks at `th`, `keyLocks`, `kl`, `nextLid`. -/
theorem inv_congr {s s' : FState} (hi : Inv s) (h1 : s'.th = s.th) (h2 : s'.keyLocks = s.keyLocks) (h3 : s'.kl = s.kl)
    (h4 : s'.nextLid = s.nextLid) : Inv s' := by
  refine ⟨?_, ?_, ?_, ?_, ?_, ?_, ?_⟩
  · intro t; rw [h1, h2, h3]; exact hi.own t
  · intro k l; rw [h2, h4]; exact hi.fresh k l
  · intro k l; rw [h1, h2]; exact hi.held k l
  · intro t u; rw [h1]; exact hi.uniq t u
  · intro k k' l; rw [h2]; exact hi.inj k k' l
  · intro t; rw [h1]; exact hi.role t
  · intro t; rw [h1, h2, h3, h4]; exact hi.att t

/-- (A) One thread changes without changing its relation to the lock table. -/
theorem inv_setTh_same {s : FState} (hi : Inv s) (t : Nat) (x : Thread)
    (hown : x.owning ↔ (s.th t).owning) (hatt : x.attached ↔ (s.th t).attached)
    (hk : x.key = (s.th t).key) (hl : x.lid = (s.th t).lid)
    (hrole : x.pc.ownerOnly = true → x.owner = true) : Inv (s.setTh t x) := by
  refine ⟨?_, hi.fresh, ?_, ?_, hi.inj, ?_, ?_⟩
  · intro u hu
    by_cases h : u = t
    · subst h
      simp only [setTh_th_same, setTh_keyLocks, setTh_kl] at hu ⊢
      rw [hk, hl]; exact hi.own u (hown.mp hu)
    · rw [setTh_th_other _ _ _ _ h] at hu ⊢; exact hi.own u hu
  · intro k l hkl
    obtain ⟨u, hu1, hu2, hu3⟩ := hi.held k l hkl
    by_cases h : u = t
    · subst h; exact ⟨u, by simpa using hown.mpr hu1, by simp [hk, hu2], by simp [hl, hu3]⟩
    · exact ⟨u, by rw [setTh_th_other _ _ _ _ h]; exact hu1, by rw [setTh_th_other _ _ _ _ h]; exact hu2,
        by rw [setTh_th_other _ _ _ _ h]; exact hu3⟩
  · intro u v hu hv hkk
    by_cases h1 : u = t <;> by_cases h2 : v = t
    · rw [h1, h2]
    · subst h1
      rw [setTh_th_other _ _ _ _ h2] at hv hkk
      simp only [setTh_th_same] at hu hkk
      exact hi.uniq u v (hown.mp hu) hv (by rw [← hk]; exact hkk)
    · subst h2
      rw [setTh_th_other _ _ _ _ h1] at hu hkk
      simp only [setTh_th_same] at hv hkk
      exact hi.uniq u v hu (hown.mp hv) (by rw [← hk]; exact hkk)
    · rw [setTh_th_other _ _ _ _ h1] at hu hkk
      rw [setTh_th_other _ _ _ _ h2] at hv hkk
      exact hi.uniq u v hu hv hkk
  · intro u hu
    by_cases h : u = t
    · subst h; simp only [setTh_th_same] at hu ⊢; exact hrole hu
    · rw [setTh_th_other _ _ _ _ h] at hu ⊢; exact hi.role u hu
  · intro u hu
    by_cases h : u = t
    · subst h
      simp only [setTh_th_same, setTh_keyLocks, setTh_kl, setTh_nextLid] at hu ⊢
      rw [hk, hl]; exact hi.att u (hatt.mp hu)
    · rw [setTh_th_other _ _ _ _ h] at hu ⊢; exact hi.att u hu

/-- (B) A thread that holds no lock role moves to a position without lock role (or an attached/unattached one leaves). -/
theorem inv_setTh_free {s : FState} (hi : Inv s) (t : Nat) (x : Thread)
    (hold : ¬ (s.th t).owning) (hnew : ¬ x.owning) (hatt : ¬ x.attached)
    (hrole : x.pc.ownerOnly = true → x.owner = true) : Inv (s.setTh t x) := by
  refine ⟨?_, hi.fresh, ?_, ?_, hi.inj, ?_, ?_⟩
  · intro u hu
    by_cases h : u = t
    · subst h; simp at hu; exact absurd hu hnew
    · rw [setTh_th_other _ _ _ _ h] at hu ⊢; exact hi.own u hu
  · intro k l hkl
    obtain ⟨u, hu1, hu2, hu3⟩ := hi.held k l hkl
    have : u ≠ t := fun h => hold (h ▸ hu1)
    exact ⟨u, by rw [setTh_th_other _ _ _ _ this]; exact hu1, by rw [setTh_th_other _ _ _ _ this]; exact hu2,
      by rw [setTh_th_other _ _ _ _ this]; exact hu3⟩
  · intro u v hu hv hkk
    by_cases h1 : u = t
    · subst h1; simp at hu; exact absurd hu hnew
    · by_cases h2 : v = t
      · subst h2; simp at hv; exact absurd hv hnew
      · rw [setTh_th_other _ _ _ _ h1] at hu hkk
        rw [setTh_th_other _ _ _ _ h2] at hv hkk
        exact hi.uniq u v hu hv hkk
  · intro u hu
    by_cases h : u = t
    · subst h; simp only [setTh_th_same] at hu ⊢; exact hrole hu
    · rw [setTh_th_other _ _ _ _ h] at hu ⊢; exact hi.role u hu
  · intro u hu
    by_cases h : u = t
    · subst h; simp at hu; exact absurd hu hatt
    · rw [setTh_th_other _ _ _ _ h] at hu ⊢; exact hi.att u hu

/-- (D) The owner publishes, releases its lock and leaves every lock role. -/
theorem inv_release {s : FState} (hi : Inv s) (t : Nat) (x : Thread) (r : GetResult)
    (hold : (s.th t).owning) (hnew : ¬ x.owning) (hatt : ¬ x.attached)
    (hrole : x.pc.ownerOnly = true → x.owner = true) :
    Inv ((s.publishRelease (s.th t).key (s.th t).lid r).setTh t x) := by
  have ⟨hkl, _⟩ := hi.own t hold
  -- facts about the other threads
  have hother : ∀ u, u ≠ t → (s.th u).owning → (s.th u).key ≠ (s.th t).key ∧ (s.th u).lid ≠ (s.th t).lid := by
    intro u hut hu
    have hne : (s.th u).key ≠ (s.th t).key := fun hk => hut (hi.uniq u t hu hold hk)
    refine ⟨hne, fun hl => hne ?_⟩
    have h1 := (hi.own u hu).1
    rw [hl] at h1
    exact hi.inj _ _ _ h1 hkl
  have hkls : ∀ k, ((s.publishRelease (s.th t).key (s.th t).lid r).setTh t x).keyLocks k =
      if k = (s.th t).key then none else s.keyLocks k := by
    intro k; simp [FState.publishRelease, FState.release, FState.setKL]
  have hklc : ∀ l, l ≠ (s.th t).lid → (((s.publishRelease (s.th t).key (s.th t).lid r).setTh t x).kl l).closed = (s.kl l).closed := by
    intro l hl; simp [FState.publishRelease, FState.release, FState.setKL, hl]
  have hklt : (((s.publishRelease (s.th t).key (s.th t).lid r).setTh t x).kl (s.th t).lid).closed = true := by
    simp [FState.publishRelease, FState.release, FState.setKL]
  have hnl : ((s.publishRelease (s.th t).key (s.th t).lid r).setTh t x).nextLid = s.nextLid := rfl
  have hth : ∀ u, u ≠ t → ((s.publishRelease (s.th t).key (s.th t).lid r).setTh t x).th u = s.th u := by
    intro u hu; simp [FState.setTh, FState.publishRelease, FState.release, FState.setKL, hu]
  have htt : ((s.publishRelease (s.th t).key (s.th t).lid r).setTh t x).th t = x := by simp [FState.setTh]
  refine ⟨?_, ?_, ?_, ?_, ?_, ?_, ?_⟩
  · intro u hu
    by_cases h : u = t
    · subst h; rw [htt] at hu; exact absurd hu hnew
    · rw [hth u h] at hu ⊢
      have ⟨hk, hl⟩ := hother u h hu
      rw [hkls, hklc _ hl]
      simp only [hk, if_false]
      exact hi.own u hu
  · intro k l hkl'
    rw [hkls] at hkl'
    split at hkl'
    · cases hkl'
    · rw [hnl]; exact hi.fresh k l hkl'
  · intro k l hkl'
    rw [hkls] at hkl'
    split at hkl'
    · cases hkl'
    · rename_i hk
      obtain ⟨u, hu1, hu2, hu3⟩ := hi.held k l hkl'
      have : u ≠ t := fun h => hk (by rw [← hu2, h])
      exact ⟨u, by rw [hth u this]; exact hu1, by rw [hth u this]; exact hu2, by rw [hth u this]; exact hu3⟩
  · intro u v hu hv hkk
    by_cases h1 : u = t
    · subst h1; rw [htt] at hu; exact absurd hu hnew
    · by_cases h2 : v = t
      · subst h2; rw [htt] at hv; exact absurd hv hnew
      · rw [hth u h1] at hu hkk
        rw [hth v h2] at hv hkk
        exact hi.uniq u v hu hv hkk
  · intro k k' l h1 h2
    rw [hkls] at h1 h2
    split at h1
    · cases h1
    · split at h2
      · cases h2
      · exact hi.inj k k' l h1 h2
  · intro u hu
    by_cases h : u = t
    · subst h; rw [htt] at hu ⊢; exact hrole hu
    · rw [hth u h] at hu ⊢; exact hi.role u hu
  · intro u hu
    by_cases h : u = t
    · subst h; rw [htt] at hu; exact absurd hu hatt
    · rw [hth u h] at hu ⊢
      have ⟨hlt, hor⟩ := hi.att u hu
      refine ⟨by rw [hnl]; exact hlt, ?_⟩
      by_cases hl : (s.th u).lid = (s.th t).lid
      · left; rw [hl]; exact hklt
      · rcases hor with hc | hreg
        · left; rw [hklc _ hl]; exact hc
        · right
          rw [hkls]
          have hk : (s.th u).key ≠ (s.th t).key := by
            intro hk; rw [hk, hkl] at hreg; exact hl (Option.some.inj hreg).symm
          simp only [hk, if_false]; exact hreg

/-- (C1) Election won: a fresh lock is registered for the thread's key. -/
theorem inv_elect_new {s : FState} (hi : Inv s) (t : Nat) (x : Thread)
    (hold : ¬ (s.th t).owning) (hfree : s.keyLocks x.key = none)
    (hnew : x.owning) (hl : x.lid = s.nextLid) :
    Inv { (s.setTh t x) with
          keyLocks := fun k => if k = x.key then some s.nextLid else s.keyLocks k,
          kl := fun m => if m = s.nextLid then {} else s.kl m,
          nextLid := s.nextLid + 1 } := by
  have hxatt : ¬ x.attached := fun h => by
    have := hnew.1; have := h.1; simp_all
  refine ⟨?_, ?_, ?_, ?_, ?_, ?_, ?_⟩
  · intro u hu
    simp only at hu ⊢
    by_cases h : u = t
    · subst h; simp [FState.setTh, hl]
    · simp only [FState.setTh, h, if_false] at hu ⊢
      have ⟨h1, h2⟩ := hi.own u hu
      have hk : (s.th u).key ≠ x.key := fun hk => by rw [hk, hfree] at h1; cases h1
      have hlt := hi.fresh _ _ h1
      have hlne : (s.th u).lid ≠ s.nextLid := by omega
      simp [hk, hlne, h1, h2]
  · intro k l hkl
    simp only at hkl ⊢
    split at hkl
    · cases hkl; omega
    · have := hi.fresh k l hkl; omega
  · intro k l hkl
    simp only at hkl ⊢
    split at hkl
    · rename_i hk; cases hkl
      exact ⟨t, by simpa [FState.setTh] using hnew, by simp [FState.setTh, hk], by simp [FState.setTh, hl]⟩
    · obtain ⟨u, hu1, hu2, hu3⟩ := hi.held k l hkl
      have : u ≠ t := fun h => hold (h ▸ hu1)
      exact ⟨u, by simpa [FState.setTh, this] using hu1, by simpa [FState.setTh, this] using hu2, by simpa [FState.setTh, this] using hu3⟩
  · intro u v hu hv hkk
    simp only [FState.setTh] at hu hv hkk
    by_cases h1 : u = t <;> by_cases h2 : v = t
    · rw [h1, h2]
    · subst h1
      simp only [h2, if_true, if_false] at hu hv hkk
      have := (hi.own v hv).1
      rw [← hkk, hfree] at this; cases this
    · subst h2
      simp only [h1, if_true, if_false] at hu hv hkk
      have := (hi.own u hu).1
      rw [hkk, hfree] at this; cases this
    · simp only [h1, h2, if_false] at hu hv hkk
      exact hi.uniq u v hu hv hkk
  · intro k k' l h1 h2
    simp only at h1 h2
    split at h1 <;> split at h2
    · rename_i a b; rw [a, b]
    · cases h1; have := hi.fresh _ _ h2; omega
    · cases h2; have := hi.fresh _ _ h1; omega
    · exact hi.inj k k' l h1 h2
  · intro u hu
    simp only [FState.setTh] at hu ⊢
    by_cases h : u = t
    · simp only [h, if_true] at hu ⊢; exact hnew.1
    · simp only [h, if_false] at hu ⊢; exact hi.role u hu
  · intro u hu
    simp only [FState.setTh] at hu ⊢
    by_cases h : u = t
    · simp only [h, if_true] at hu; exact absurd hu hxatt
    · simp only [h, if_false] at hu ⊢
      have ⟨hlt, hor⟩ := hi.att u hu
      have hlne : (s.th u).lid ≠ s.nextLid := by omega
      refine ⟨by omega, ?_⟩
      simp only [hlne, if_false]
      rcases hor with hc | hreg
      · exact Or.inl hc
      · right
        have hk : (s.th u).key ≠ x.key := fun hk => by rw [hk, hfree] at hreg; cases hreg
        simp [hk, hreg]

/-- (C2) Election lost: the thread attaches to the registered lock of its key. -/
theorem inv_elect_attach {s : FState} (hi : Inv s) (t : Nat) (x : Thread) (l : Nat)
    (hold : ¬ (s.th t).owning) (hreg : s.keyLocks x.key = some l)
    (hatt : x.attached) (hl : x.lid = l) : Inv (s.setTh t x) := by
  have hxown : ¬ x.owning := fun h => by have := h.1; have := hatt.1; simp_all
  have hro : x.pc.ownerOnly = true → x.owner = true := by
    intro h; rcases hatt.2 with h' | h' | h' <;> simp [h', Pc.ownerOnly] at h
  refine ⟨?_, hi.fresh, ?_, ?_, hi.inj, ?_, ?_⟩
  · intro u hu
    by_cases h : u = t
    · subst h; simp at hu; exact absurd hu hxown
    · rw [setTh_th_other _ _ _ _ h] at hu ⊢; exact hi.own u hu
  · intro k l' hkl
    obtain ⟨u, hu1, hu2, hu3⟩ := hi.held k l' hkl
    have : u ≠ t := fun h => hold (h ▸ hu1)
    exact ⟨u, by rw [setTh_th_other _ _ _ _ this]; exact hu1, by rw [setTh_th_other _ _ _ _ this]; exact hu2,
      by rw [setTh_th_other _ _ _ _ this]; exact hu3⟩
  · intro u v hu hv hkk
    by_cases h1 : u = t
    · subst h1; simp at hu; exact absurd hu hxown
    · by_cases h2 : v = t
      · subst h2; simp at hv; exact absurd hv hxown
      · rw [setTh_th_other _ _ _ _ h1] at hu hkk
        rw [setTh_th_other _ _ _ _ h2] at hv hkk
        exact hi.uniq u v hu hv hkk
  · intro u hu
    by_cases h : u = t
    · subst h; simp only [setTh_th_same] at hu ⊢; exact hro hu
    · rw [setTh_th_other _ _ _ _ h] at hu ⊢; exact hi.role u hu
  · intro u hu
    by_cases h : u = t
    · subst h
      simp only [setTh_th_same, setTh_keyLocks, setTh_kl, setTh_nextLid]
      rw [hl]; exact ⟨hi.fresh _ _ hreg, Or.inr hreg⟩
    · rw [setTh_th_other _ _ _ _ h] at hu ⊢; exact hi.att u hu

end Cache
