import CacheModel.Spec

/- Lemmas about the reference association-list map. -/
namespace Cache.Spec

theorem get_nil (k : Key) : get [] k = none := rfl

theorem get_cons (p : Key × SEntry) (m : SMap) (k : Key) :
    get (p :: m) k = if p.1 = k then some p.2 else get m k := by
  unfold get
  by_cases h : p.1 = k <;> simp [h]

theorem get_remove (m : SMap) (k k' : Key) : get (remove m k) k' = if k' = k then none else get m k' := by
  induction m with
  | nil => simp [remove, get]
  | cons p m ih =>
    unfold remove at ih ⊢
    by_cases hp : p.1 = k
    · simp only [List.filter_cons, hp, bne_self_eq_false, Bool.false_eq_true, if_false, ih, get_cons]
      by_cases hk : k' = k
      · simp [hk]
      · simp [hk, Ne.symm hk]
    · have : (p.1 != k) = true := by simpa using hp
      simp only [List.filter_cons, this, if_true, get_cons, ih]
      by_cases hk : k' = k
      · subst hk; simp [hp]
      · simp [hk]

theorem get_put (m : SMap) (k k' : Key) (e : SEntry) :
    get (put m k e) k' = if k' = k then some e else get m k' := by
  unfold put
  rw [get_cons, get_remove]
  by_cases hk : k' = k
  · subst hk; simp
  · simp [hk, Ne.symm hk]

theorem get_some_mem {m : SMap} {k : Key} {e : SEntry} (h : get m k = some e) : (k, e) ∈ m := by
  induction m with
  | nil => simp [get] at h
  | cons p m ih =>
    rw [get_cons] at h
    by_cases hp : p.1 = k
    · simp [hp] at h; subst h; subst hp; simp
    · simp [hp] at h; exact List.mem_cons_of_mem _ (ih h)

theorem get_isSome_iff_mem_keys (m : SMap) (k : Key) : (get m k).isSome ↔ k ∈ keys m := by
  induction m with
  | nil => simp [get, keys]
  | cons p m ih =>
    rw [get_cons]
    by_cases hp : p.1 = k
    · simp [hp, keys]
    · simp only [hp, if_false, ih, keys, List.map_cons, List.mem_cons]
      constructor
      · intro h; exact Or.inr h
      · intro h; rcases h with h | h
        · exact absurd h.symm hp
        · exact h

theorem keys_remove (m : SMap) (k : Key) : keys (remove m k) = (keys m).filter (· != k) := by
  induction m with
  | nil => rfl
  | cons p m ih =>
    unfold remove keys at *
    by_cases hp : p.1 = k
    · simp [hp, ih]
    · have : (p.1 != k) = true := by simpa using hp
      simp [this, ih]

theorem nodup_remove {m : SMap} (h : (keys m).Nodup) (k : Key) : (keys (remove m k)).Nodup := by
  rw [keys_remove]; exact h.filter _

theorem nodup_put {m : SMap} (h : (keys m).Nodup) (k : Key) (e : SEntry) : (keys (put m k e)).Nodup := by
  unfold put
  show (k :: keys (remove m k)).Nodup
  rw [List.nodup_cons]
  refine ⟨?_, nodup_remove h k⟩
  rw [keys_remove]; simp

theorem length_remove {m : SMap} (h : (keys m).Nodup) (k : Key) :
    (remove m k).length = if (get m k).isSome then m.length - 1 else m.length := by
  induction m with
  | nil => simp [remove, get]
  | cons p m ih =>
    have hn : (keys m).Nodup := (List.nodup_cons.mp h).2
    have hnot : p.1 ∉ keys m := (List.nodup_cons.mp h).1
    rw [get_cons]
    unfold remove at ih ⊢
    by_cases hp : p.1 = k
    · have hg : (get m k).isSome = false := by
        cases hx : (get m k).isSome
        · rfl
        · exact absurd ((get_isSome_iff_mem_keys m k).mp hx) (hp ▸ hnot)
      simp only [List.filter_cons, hp, bne_self_eq_false, Bool.false_eq_true, if_false, if_true, Option.isSome_some]
      rw [ih hn, hg]; simp
    · have : (p.1 != k) = true := by simpa using hp
      simp only [List.filter_cons, this, if_true, hp, if_false, List.length_cons, ih hn]
      cases hx : (get m k).isSome
      · simp
      · have : m.length ≠ 0 := by
          intro h0
          have : m = [] := List.length_eq_zero_iff.mp h0
          subst this; simp [get] at hx
        simp; omega

theorem length_put {m : SMap} (h : (keys m).Nodup) (k : Key) (e : SEntry) :
    (put m k e).length = if (get m k).isSome then m.length else m.length + 1 := by
  unfold put
  rw [List.length_cons, length_remove h]
  cases hx : (get m k).isSome
  · simp
  · have : m.length ≠ 0 := by
      intro h0
      have : m = [] := List.length_eq_zero_iff.mp h0
      subst this; simp [get] at hx
    simp; omega

theorem get_expireAll (m : SMap) (now : Time) (k : Key) :
    get (expireAll m now) k = (get m k).map (fun e => { e with E := now }) := by
  induction m with
  | nil => simp [expireAll, get]
  | cons p m ih =>
    unfold expireAll at ih ⊢
    rw [List.map_cons, get_cons, get_cons, ih]
    by_cases hp : p.1 = k <;> simp [hp]

theorem keys_expireAll (m : SMap) (now : Time) : keys (expireAll m now) = keys m := by
  simp [keys, expireAll, List.map_map, Function.comp_def]

end Cache.Spec
