import CacheProofs.Lemmas.Failover

/- Every step of the Failover machine preserves the lock invariant. -/
namespace Cache

theorem done_free (x : Thread) (r : Option GetResult) :
    ¬ ({ x with pc := .done, returned := r } : Thread).owning ∧ ¬ ({ x with pc := .done, returned := r } : Thread).attached ∧
    (({ x with pc := .done, returned := r } : Thread).pc.ownerOnly = true → ({ x with pc := .done, returned := r } : Thread).owner = true) := by
  simp [Thread.owning, Thread.attached, Pc.ownerOnly]

theorem inv_finish_free {s : FState} (hi : Inv s) (t : Nat) (x : Thread) (r : GetResult) (hold : ¬ (s.th t).owning) :
    Inv (s.finishThread t x r) := by
  unfold FState.finishThread
  have := done_free x (if x.bg then x.returned else some r)
  exact inv_setTh_free hi t _ hold this.1 this.2.1 this.2.2

theorem inv_finish_release {s : FState} (hi : Inv s) (t : Nat) (res r : GetResult) (hold : (s.th t).owning) :
    Inv ((s.publishRelease (s.th t).key (s.th t).lid res).finishThread t (s.th t) r) := by
  unfold FState.finishThread
  have := done_free (s.th t) (if (s.th t).bg then (s.th t).returned else some r)
  exact inv_release hi t _ res hold this.1 this.2.1 this.2.2

theorem inv_finish_release' {s : FState} (hi : Inv s) (t : Nat) (x : Thread) (hx : s.th t = x) (res r : GetResult) (hold : x.owning) :
    Inv ((s.publishRelease x.key x.lid res).finishThread t x r) := by
  subst hx; exact inv_finish_release hi t res r hold

theorem inv_ghost {s : FState} (hi : Inv s) (g : Ghost) : Inv { s with g := g } := inv_congr hi rfl rfl rfl rfl
theorem inv_req {s : FState} (hi : Inv s) (t : Nat) (r : Req) : Inv (s.req t r) := inv_congr hi rfl rfl rfl rfl
theorem inv_noteRead {s : FState} (hi : Inv s) (k : Key) (a : ReadAns) : Inv (s.noteRead k a) := inv_congr hi rfl rfl rfl rfl
theorem inv_noteWrite {s : FState} (hi : Inv s) (k : Key) (a : WriteAns) : Inv (s.noteWrite k a) := by
  cases a <;> exact inv_congr hi rfl rfl rfl rfl
@[simp] theorem noteRead_th (s : FState) (k : Key) (a : ReadAns) : (s.noteRead k a).th = s.th := rfl
@[simp] theorem noteWrite_th (s : FState) (k : Key) (a : WriteAns) : (s.noteWrite k a).th = s.th := by cases a <;> rfl
theorem inv_errs {s : FState} (hi : Inv s) (e : Key → Option (Err × Time)) (g : Ghost) : Inv { s with errs := e, g := g } :=
  inv_congr hi rfl rfl rfl rfl

/-- Moving an owning thread to another owning position (same key, lock, owner flag). -/
theorem inv_move_owning {s : FState} (hi : Inv s) (t : Nat) (x : Thread) (hold : (s.th t).owning) (hnew : x.owning)
    (hk : x.key = (s.th t).key) (hl : x.lid = (s.th t).lid) : Inv (s.setTh t x) := by
  have hna : ¬ x.attached := fun h => by have := hnew.1; have := h.1; simp_all
  have hoa : ¬ (s.th t).attached := fun h => by have := hold.1; have := h.1; simp_all
  exact inv_setTh_same hi t x ⟨fun _ => hold, fun _ => hnew⟩ ⟨fun h => absurd h hna, fun h => absurd h hoa⟩ hk hl (fun _ => hnew.1)

theorem owning_of_pc {x : Thread} (ho : x.owner = true) (h : x.pc.ownerOnly = true ∨ x.pc = .lockedRead ∨ x.pc = .classify) : x.owning := by
  refine ⟨ho, ?_⟩
  rcases h with h | h | h
  · cases hp : x.pc <;> simp_all [Pc.ownerOnly]
  · simp [h]
  · simp [h]

theorem inv_step (c : FCfg) (s s' : FState) (l : FLabel) (hi : Inv s) (h : step c s l = some s') : Inv s' := by
  cases l with
  | begin t key skip cell =>
    simp only [step] at h
    split at h
    · cases h
    · rename_i hpc
      have hidle : (s.th t).pc = .idle := by simpa using hpc
      have hold : ¬ (s.th t).owning := by simp [Thread.owning, hidle]
      split at h <;> cases h
      · exact inv_setTh_free hi t _ hold (by simp [Thread.owning]) (by simp [Thread.attached]) (by simp [Pc.ownerOnly])
      · exact inv_req (inv_setTh_free hi t _ hold (by simp [Thread.owning]) (by simp [Thread.attached]) (by simp [Pc.ownerOnly])) _ _
  | readAns t a =>
    simp only [step] at h
    have hi' : Inv (s.noteRead (s.th t).key a) := inv_noteRead hi _ _
    have hth : (s.noteRead (s.th t).key a).th t = s.th t := by simp
    split at h
    · rename_i hpc
      have hold : ¬ ((s.noteRead (s.th t).key a).th t).owning := by rw [hth]; simp [Thread.owning, hpc]
      split at h <;> cases h
      · exact inv_finish_free hi' t _ _ hold
      · exact inv_setTh_free hi' t _ hold (by simp [Thread.owning]) (by simp [Thread.attached]) (by simp [Pc.ownerOnly])
    · rename_i hpc
      split at h <;> cases h
      · split
        · rename_i ho
          exact inv_finish_release' hi' t _ hth _ _ ⟨ho, by simp [hpc]⟩
        · rename_i ho
          exact inv_finish_free hi' t _ _ (by rw [hth]; exact fun hh => ho hh.1)
      · by_cases ho : (s.th t).owner = true
        · exact inv_move_owning hi' t _ (by rw [hth]; exact ⟨ho, by simp [hpc]⟩) ⟨ho, by simp⟩ (by rw [hth]) (by rw [hth])
        · have hof : (s.th t).owner = false := by simpa using ho
          exact inv_setTh_same hi' t _
            ⟨fun hh => absurd hh.1 (by simp [hof]), fun hh => absurd hh.1 (by rw [hth]; simp [hof])⟩
            ⟨fun _ => (by rw [hth]; exact ⟨hof, Or.inl hpc⟩), fun _ => ⟨hof, Or.inr (Or.inl rfl)⟩⟩ (by rw [hth]) (by rw [hth]) (by simp [Pc.ownerOnly])
    · cases h
  | elect t =>
    simp only [step] at h
    split at h
    · cases h
    · rename_i hpc
      have hw : (s.th t).pc = .wantLock := by simpa using hpc
      have hold : ¬ (s.th t).owning := by simp [Thread.owning, hw]
      have key : Inv (match s.keyLocks (s.th t).key with
          | some l => s.setTh t { s.th t with pc := if c.syncRead then Pc.lockedRead else Pc.classify, owner := false, lid := l }
          | none =>
            { (s.setTh t { s.th t with pc := if c.syncRead then Pc.lockedRead else Pc.classify, owner := true, lid := s.nextLid }) with
              keyLocks := fun k => if k = (s.th t).key then some s.nextLid else s.keyLocks k,
              kl := fun m => if m = s.nextLid then {} else s.kl m,
              nextLid := s.nextLid + 1 }) := by
        cases hk : s.keyLocks (s.th t).key with
        | some l =>
          exact inv_elect_attach hi t _ l hold hk ⟨rfl, by cases c.syncRead <;> simp⟩ rfl
        | none =>
          exact inv_elect_new hi t _ hold hk ⟨rfl, by cases c.syncRead <;> simp⟩ rfl
      split at h
      · rename_i hsr
        cases h
        refine inv_req ?_ _ _
        cases hk : s.keyLocks (s.th t).key <;> simp only [hk, hsr, if_true] at key ⊢ <;> exact key
      · rename_i hsr
        cases h
        cases hk : s.keyLocks (s.th t).key <;> simp only [hk, hsr, Bool.false_eq_true, if_false] at key ⊢ <;> exact key
  | «local» t =>
    simp only [step] at h
    split at h
    · -- classify
      rename_i hpc
      split at h
      · -- a waiter
        rename_i hno
        have hof : (s.th t).owner = false := by simpa using hno
        have hold : ¬ (s.th t).owning := fun hh => by have := hh.1; simp [hof] at this
        have hatt : (s.th t).attached := ⟨hof, Or.inr (Or.inl hpc)⟩
        have towait : Inv (s.setTh t { s.th t with pc := .waiting }) :=
          inv_setTh_same hi t _ ⟨fun hh => absurd hh.1 (by simp [hof]), fun hh => absurd hh hold⟩
            ⟨fun _ => hatt, fun _ => ⟨hof, Or.inr (Or.inr rfl)⟩⟩ rfl rfl (by simp [Pc.ownerOnly])
        split at h
        · split at h <;> cases h
          · exact inv_finish_free hi t _ _ hold
          · exact towait
        · split at h <;> cases h
          · exact inv_finish_free hi t _ _ hold
          · exact towait
        · cases h; exact towait
      · -- the owner
        rename_i hno
        have ho : (s.th t).owner = true := by simpa using hno
        have hown : (s.th t).owning := ⟨ho, by simp [hpc]⟩
        split at h
        · split at h <;> cases h
          · refine inv_req ?_ _ _
            have hg : Inv ({ s with g := { s.g with refreshed := s.g.refreshed + 1 } } : FState) := inv_ghost hi _
            refine inv_move_owning hg t _ hown ?_ ?_ ?_
            · split <;> exact ⟨ho, by simp⟩
            · split <;> rfl
            · split <;> rfl
          · exact inv_move_owning hi t _ hown ⟨ho, by simp⟩ rfl rfl
        · split at h <;> cases h
          · exact inv_finish_release hi t _ _ hown
          · exact inv_move_owning hi t _ hown ⟨ho, by simp⟩ rfl rfl
        · cases h
          exact inv_move_owning hi t _ hown ⟨ho, by simp⟩ rfl rfl
    · -- decideSync
      rename_i hpc
      have ho : (s.th t).owner = true := hi.role t (by simp [hpc, Pc.ownerOnly])
      have hown : (s.th t).owning := ⟨ho, by simp [hpc]⟩
      split at h <;> cases h
      · refine inv_req ?_ _ _
        exact inv_move_owning (inv_ghost hi _) t _ hown ⟨ho, by simp⟩ rfl rfl
      · refine inv_req ?_ _ _
        exact inv_move_owning (inv_ghost hi _) t _ hown ⟨ho, by simp⟩ rfl rfl
    · -- finish
      rename_i r hpc
      have ho : (s.th t).owner = true := hi.role t (by simp [hpc, Pc.ownerOnly])
      have hown : (s.th t).owning := ⟨ho, by simp [hpc]⟩
      split at h <;> cases h <;> exact inv_finish_release hi t _ _ hown
    · cases h
  | writeAns t a =>
    simp only [step] at h
    have hi' : Inv (s.noteWrite (s.th t).key a) := inv_noteWrite hi _ _
    have hth : (s.noteWrite (s.th t).key a).th t = s.th t := by simp
    split at h
    · rename_i hpc
      have ho : (s.th t).owner = true := hi.role t (by simp [hpc, Pc.ownerOnly])
      have hown : ((s.noteWrite (s.th t).key a).th t).owning := by rw [hth]; exact ⟨ho, by simp [hpc]⟩
      split at h <;> cases h
      · exact inv_finish_release' hi' t _ hth _ _ ⟨ho, by simp [hpc]⟩
      · exact inv_move_owning hi' t _ hown ⟨ho, by simp⟩ (by rw [hth]) (by rw [hth])
    · rename_i v hpc
      have ho : (s.th t).owner = true := hi.role t (by simp [hpc, Pc.ownerOnly])
      have hown : ((s.noteWrite (s.th t).key a).th t).owning := by rw [hth]; exact ⟨ho, by simp [hpc]⟩
      split at h <;> cases h
      · exact inv_move_owning (inv_ghost hi' _) t _ hown ⟨ho, by simp⟩ (by simp) (by simp)
      · exact inv_move_owning (inv_ghost hi' _) t _ hown ⟨ho, by simp⟩ (by simp) (by simp)
    · cases h
  | errsRead t now =>
    simp only [step] at h
    split at h
    · cases h
    · rename_i hpc
      have hp : (s.th t).pc = .checkErrs := by simpa using hpc
      have ho : (s.th t).owner = true := hi.role t (by simp [hp, Pc.ownerOnly])
      have hown : (s.th t).owning := ⟨ho, by simp [hp]⟩
      split at h <;> cases h
      · exact inv_finish_release hi t _ _ hown
      · exact inv_move_owning hi t _ hown ⟨ho, by simp⟩ rfl rfl
  | buildAns t a =>
    simp only [step] at h
    split at h
    · cases h
    · rename_i hpc
      have hp : (s.th t).pc = .building := by simpa using hpc
      have ho : (s.th t).owner = true := hi.role t (by simp [hp, Pc.ownerOnly])
      have hown : (s.th t).owning := ⟨ho, by simp [hp]⟩
      split at h
      · cases h
        refine inv_req ?_ _ _
        exact inv_move_owning (inv_ghost hi _) t _ hown ⟨ho, by simp⟩ rfl rfl
      · split at h <;> cases h
        · exact inv_move_owning (inv_ghost hi _) t _ hown ⟨ho, by simp⟩ rfl rfl
        · exact inv_move_owning (inv_ghost (inv_ghost hi _) _) t _ hown ⟨ho, by simp⟩ rfl rfl
  | errsWrite t E =>
    simp only [step] at h
    split at h
    · rename_i e hpc
      have ho : (s.th t).owner = true := hi.role t (by simp [hpc, Pc.ownerOnly])
      have hown : (s.th t).owning := ⟨ho, by simp [hpc]⟩
      cases h
      refine inv_req ?_ _ _
      exact inv_move_owning (inv_errs hi _ _) t _ hown ⟨ho, by simp⟩ rfl rfl
    · cases h
  | wake t =>
    simp only [step] at h
    split at h
    · cases h
    · rename_i hpc
      have hp : (s.th t).pc = .waiting := by simpa using hpc
      split at h <;> cases h
      exact inv_finish_free hi t _ _ (by simp [Thread.owning, hp])

/-- The invariant holds in every reachable state. -/
theorem inv_run (c : FCfg) (ls : List FLabel) : ∀ (s s' : FState), Inv s → run c s ls = some s' → Inv s' := by
  induction ls with
  | nil => intro s s' hi h; simp [run] at h; subst h; exact hi
  | cons l rest ih =>
    intro s s' hi h
    simp only [run] at h
    cases hs : step c s l with
    | none => simp [hs] at h
    | some s1 => rw [hs] at h; exact ih s1 s' (inv_step c s s1 l hi hs) h

end Cache
