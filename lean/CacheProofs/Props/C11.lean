import CacheProofs.Lemmas.Janitor
import CacheModel.Construct

/-
  C11 — the janitor deletes only entries expired longer than DeleteExpiredAfter.

  All theorems hold for every slot function, every backend kind, and every configuration (finite or Unlimited
  TimeToLive). "No eviction limit exceeded" is the hypothesis `evictPlan … = none` (C12 shows when that is).
-/
namespace Cache
open Std
variable (hash : Key → Nat)

/-- `deleteExpired(before)` keeps an entry iff it never expires or its expiry is not before the boundary. -/
theorem C11_delete_exactly (kind : Kind) (s : Store) (before : Time) (k : Key) :
    (s.deleteExpired kind before).get hash k = (s.get hash k).filter (fun e => decide (e.E = 0 ∨ before ≤ e.E)) :=
  get_deleteExpired hash kind s before k

/-- Is the delete-expired scan of a cycle enabled (finite TimeToLive, or Unlimited with an expiration set)? -/
def scanOn (cfg : Cfg) (s : Store) : Bool := Gen.scanEnabled true cfg.ttl s.expirationsSet

/-- One cleanup cycle in which no eviction limit is exceeded removes EXACTLY the entries whose expiry lies more than
    DeleteExpiredAfter before the cycle's clock reading (and nothing at all when the scan is legitimately skipped). -/
theorem C11_cycle_exactly (kind : Kind) (cfg : Cfg) (s : Store) (env : CleanupEnv)
    (hno : evictPlan cfg (s.cleanupScan kind cfg env.now).len env = none) (k : Key) :
    (s.cleanup kind cfg env).1.get hash k =
      if scanOn cfg s then (s.get hash k).filter (fun e => decide (e.E = 0 ∨ env.now - cfg.deleteExpiredAfter ≤ e.E))
      else s.get hash k := by
  unfold Store.cleanup
  simp only [hno]
  unfold Store.cleanupScan scanOn
  split
  · exact get_deleteExpired hash kind s _ k
  · rfl

/-- Any number of cycles (clock readings arbitrary), no limit exceeded in any of them: an entry survives iff it
    never expires, or every scanning cycle found its expiry no more than DeleteExpiredAfter in the past. In particular
    never-expiring, fresh and recently expired entries survive any number of cycles. -/
theorem C11_cycles (kind : Kind) (cfg : Cfg) (envs : List CleanupEnv) :
    ∀ (s : Store),
    (∀ s' : Store, ∀ env ∈ envs, evictPlan cfg (s'.cleanupScan kind cfg env.now).len env = none) →
    ∀ k, (envs.foldl (fun s env => (s.cleanup kind cfg env).1) s).get hash k =
      (s.get hash k).filter (fun e => decide (e.E = 0 ∨ ¬ scanOn cfg s ∨ ∀ env ∈ envs, env.now - cfg.deleteExpiredAfter ≤ e.E)) := by
  induction envs with
  | nil =>
    intro s _ k
    cases h : s.get hash k <;> simp [Option.filter, h]
  | cons env rest ih =>
    intro s hno k
    simp only [List.foldl_cons]
    have hno1 := hno s env (List.mem_cons_self)
    have hrest : ∀ s' : Store, ∀ env' ∈ rest, evictPlan cfg (s'.cleanupScan kind cfg env'.now).len env' = none :=
      fun s' env' h' => hno s' env' (List.mem_cons_of_mem _ h')
    rw [ih _ hrest k, C11_cycle_exactly hash kind cfg s env hno1 k]
    have hes : scanOn cfg (s.cleanup kind cfg env).1 = scanOn cfg s := by
      unfold scanOn Store.cleanup
      simp only [hno1, cleanupScan_expirationsSet]
    rw [hes]
    cases hg : s.get hash k with
    | none => by_cases hsc : scanOn cfg s = true <;> simp [hsc, Option.filter]
    | some e =>
      by_cases hsc : scanOn cfg s = true
      · simp only [hsc, if_true, Option.filter, not_true_eq_false, false_or]
        by_cases h1 : e.E = 0 ∨ env.now - cfg.deleteExpiredAfter ≤ e.E
        · simp only [h1, decide_true, if_true]
          by_cases h2 : e.E = 0
          · simp [h2]
          · have h1' : env.now - cfg.deleteExpiredAfter ≤ e.E := by omega
            simp [h2, h1']
        · have : ¬ (e.E = 0) ∧ ¬ (env.now - cfg.deleteExpiredAfter ≤ e.E) := by omega
          simp [this.1, this.2]
      · simp [hsc, Option.filter]

/-! ### The scan-skip optimisation is sound along every history -/

/-- "Scan disabled ⇒ every stored entry has no expiry", plus the counter never goes negative. -/
def ScanInv (cfg : Cfg) (s : Store) : Prop :=
  0 ≤ s.expirationsSet ∧ (scanOn cfg s = false → ∀ k e, s.get hash k = some e → e.E = 0)

theorem scanOn_false_iff (cfg : Cfg) (s : Store) : scanOn cfg s = false ↔ cfg.ttl = -1 ∧ s.expirationsSet ≤ 0 := by
  unfold scanOn Gen.scanEnabled
  by_cases h1 : cfg.ttl = -1 <;> by_cases h2 : s.expirationsSet > 0 <;> simp [h1, h2] <;> omega

theorem ttlOf_snd (cfg : Cfg) (ctxTTL : Int) (rn rd : Nat) :
    (ttlOf cfg ctxTTL rn rd).2 =
      if (Gen.ttlIsDefault ctxTTL && Gen.cfgIsUnlimited cfg.ttl) = true then false
      else Gen.bumpExpirationsSet cfg.ttl (ttlOf cfg ctxTTL rn rd).1 := by
  unfold ttlOf; split <;> rfl

theorem scanInv_write {cfg : Cfg} {s : Store} (hi : ScanInv hash cfg s) (k : Key) (v : Option Val)
    (ctxTTL : Int) (now : Time) (rn rd : Nat) :
    ScanInv hash cfg (s.write hash cfg k v ctxTTL now rn rd).1 := by
  obtain ⟨hpos, hinv⟩ := hi
  unfold Store.write
  simp only
  constructor
  · simp only [Store.writeCore]; split <;> omega
  · intro hoff k' e' he'
    rw [scanOn_false_iff] at hoff
    obtain ⟨hu, hes⟩ := hoff
    simp only [Store.writeCore] at hes
    -- the counter did not move, so no bump happened: the stored expiry is 0
    have hb : (ttlOf cfg ctxTTL rn rd).2 = false := by
      cases hbb : (ttlOf cfg ctxTTL rn rd).2
      · rfl
      · simp [hbb] at hes; omega
    have hE : expireAt (ttlOf cfg ctxTTL rn rd).1 now = 0 := by
      rw [ttlOf_snd] at hb
      by_cases hc : (Gen.ttlIsDefault ctxTTL && Gen.cfgIsUnlimited cfg.ttl) = true
      · have : (ttlOf cfg ctxTTL rn rd).1 = 0 := by unfold ttlOf; simp [hc]
        simp [this, expireAt, Gen.expireAtNonZero]
      · simp only [hc, Bool.false_eq_true, if_false] at hb
        have h0 : (ttlOf cfg ctxTTL rn rd).1 = 0 := by
          simp only [Gen.bumpExpirationsSet, hu] at hb
          simpa using hb
        simp [h0, expireAt, Gen.expireAtNonZero]
    rw [get_writeCore] at he'
    by_cases hkk : k' = k
    · simp [hkk] at he'; subst he'; exact hE
    · by_cases hh : hash k' = hash k
      · simp [hkk, hh] at he'
      · simp [hkk, hh] at he'
        have hes' : s.expirationsSet ≤ 0 := by simp [hb] at hes; exact hes
        exact hinv ((scanOn_false_iff cfg s).mpr ⟨hu, hes'⟩) k' e' he'

/-- **C11_scan_skip_sound** — along every history of public operations, cleanup cycles and restored records, starting
    from the empty cache: whenever the cleanup scan is skipped (Unlimited TimeToLive and no expiration recorded), no stored
    entry has an expiry, so skipping deletes nothing it should have. -/
theorem C11_scan_skip_sound (kind : Kind) (cfg : Cfg) (hk : KindOK hash kind) (h : XHistory) :
    ∀ s : Store, s.WF hash → ScanInv hash cfg s →
      ScanInv hash cfg (Backend.xrun hash kind cfg s h).1 ∧ (Backend.xrun hash kind cfg s h).1.WF hash := by
  induction h with
  | nil => intro s hw hi; exact ⟨hi, hw⟩
  | cons top rest ih =>
    intro s hw hi
    obtain ⟨now, xop⟩ := top
    simp only [Backend.xrun]
    suffices hstep : ScanInv hash cfg (Backend.xstep hash kind cfg s now xop).1 ∧ (Backend.xstep hash kind cfg s now xop).1.WF hash from
      ih _ hstep.2 hstep.1
    cases xop with
    | restore e =>
      simp only [Backend.xstep, Store.restoreOne]
      refine ⟨⟨?_, ?_⟩, ?_⟩
      · simp only; split <;> have := hi.1 <;> omega
      · intro hoff k' e' he'
        rw [scanOn_false_iff] at hoff
        obtain ⟨hu, hes⟩ := hoff
        simp only at hes
        have hE0 : e.E = 0 := by
          by_cases h0 : e.E = 0
          · exact h0
          · have : (e.E != 0) = true := by simpa using h0
            simp [this] at hes; have := hi.1; omega
        have hes' : s.expirationsSet ≤ 0 := by
          have : (e.E != 0) = false := by simp [hE0]
          simpa [this] using hes
        unfold Store.get at he'
        simp only [TreeMap.getElem?_insert] at he'
        by_cases hc : hash e.K = hash k'
        · simp [hc] at he'
          obtain ⟨_, rfl⟩ := he'
          exact hE0
        · have hcmp : compare (hash e.K) (hash k') ≠ .eq := by simpa [Nat.compare_eq_eq] using hc
          simp only [hcmp, if_false] at he'
          exact hi.2 ((scanOn_false_iff cfg s).mpr ⟨hu, hes'⟩) k' e' (by unfold Store.get; exact he')
      · intro h' e' he'
        simp only [TreeMap.getElem?_insert] at he'
        split at he'
        · rename_i hc; cases he'; simpa using hc
        · exact hw h' e' he'
    | cleanup ho so hn needed =>
      simp only [Backend.xstep]
      refine ⟨⟨?_, ?_⟩, wf_cleanup hash hw kind cfg _⟩
      · have : (s.cleanup kind cfg { now, ho, so, hasNeeded := hn, needed }).1.expirationsSet = s.expirationsSet := by
          unfold Store.cleanup; simp only; split <;> simp [Store.evictLeast, Store.evict, cleanupScan_expirationsSet]
        rw [this]; exact hi.1
      · intro hoff k' e' he'
        have hexp : (s.cleanup kind cfg { now, ho, so, hasNeeded := hn, needed }).1.expirationsSet = s.expirationsSet := by
          unfold Store.cleanup; simp only; split <;> simp [Store.evictLeast, Store.evict, cleanupScan_expirationsSet]
        have hoff' : scanOn cfg s = false := by
          rw [scanOn_false_iff] at hoff ⊢; rw [hexp] at hoff; exact hoff
        -- with the scan off the cycle can only evict: every surviving entry was there before
        have hsub : s.get hash k' = some e' := by
          unfold Store.cleanup at he'
          have hsc : s.cleanupScan kind cfg now = s := by
            unfold Store.cleanupScan; unfold scanOn at hoff'; simp [hoff']
          simp only [hsc] at he'
          split at he'
          · simp only [Store.evictLeast, get_evict] at he'
            split at he'
            · cases he'
            · exact he'
          · exact he'
        exact hi.2 hoff' k' e' hsub
    | base op =>
      simp only [Backend.xstep]
      cases op with
      | write k v ctxTTL rn rd =>
        simp only [Backend.step]
        exact ⟨scanInv_write hash hi k v ctxTTL now rn rd, wf_writeCore hash hw _ _ _ _⟩
      | store k v rn rd =>
        simp only [Backend.step]
        exact ⟨scanInv_write hash hi k v 0 now rn rd, wf_writeCore hash hw _ _ _ _⟩
      | read k skip =>
        simp only [Backend.step]
        refine ⟨⟨by rw [read_expirationsSet]; exact hi.1, ?_⟩, wf_read hash cfg hw hk _ _ _⟩
        intro hoff k' e' he'
        have hoff' : scanOn cfg s = false := by
          rw [scanOn_false_iff] at hoff ⊢; rw [read_expirationsSet] at hoff; exact hoff
        have hv := get_read_view hash cfg hw hk k skip now k'
        rw [he'] at hv
        cases hg : s.get hash k' with
        | none => simp [hg] at hv
        | some e0 =>
          simp [hg, Entry.view] at hv
          rw [hv.2.2]; exact hi.2 hoff' k' e0 hg
      | load k =>
        simp only [Backend.step]
        refine ⟨⟨by rw [read_expirationsSet]; exact hi.1, ?_⟩, wf_read hash cfg hw hk _ _ _⟩
        intro hoff k' e' he'
        have hoff' : scanOn cfg s = false := by
          rw [scanOn_false_iff] at hoff ⊢; rw [read_expirationsSet] at hoff; exact hoff
        have hv := get_read_view hash cfg hw hk k false now k'
        rw [he'] at hv
        cases hg : s.get hash k' with
        | none => simp [hg] at hv
        | some e0 =>
          simp [hg, Entry.view] at hv
          rw [hv.2.2]; exact hi.2 hoff' k' e0 hg
      | delete k =>
        simp only [Backend.step]
        refine ⟨⟨?_, ?_⟩, wf_delete hash hw k⟩
        · have : (s.delete hash kind k).1.expirationsSet = s.expirationsSet := by
            unfold Store.delete; simp only; split <;> rfl
          rw [this]; exact hi.1
        · intro hoff k' e' he'
          have hexp : (s.delete hash kind k).1.expirationsSet = s.expirationsSet := by
            unfold Store.delete; simp only; split <;> rfl
          have hoff' : scanOn cfg s = false := by
            rw [scanOn_false_iff] at hoff ⊢; rw [hexp] at hoff; exact hoff
          rw [get_delete hash hw hk] at he'
          split at he'
          · cases he'
          · exact hi.2 hoff' k' e' he'
      | expireAll =>
        simp only [Backend.step]
        refine ⟨⟨?_, ?_⟩, wf_expireAll hash hw now⟩
        · simp only [Store.expireAll]; split <;> have := hi.1 <;> omega
        · intro hoff k' e' he'
          rw [scanOn_false_iff] at hoff
          obtain ⟨_, hes⟩ := hoff
          simp only [Store.expireAll] at hes
          -- scan still off ⇒ the cache was empty, so there is no entry at all
          have hn : ¬ (s.slots.size > 0) := by
            intro hpos; simp [hpos] at hes; have := hi.1; omega
          rw [get_expireAll] at he'
          cases hg : s.get hash k' with
          | none => simp [hg] at he'
          | some e0 =>
            exfalso
            have ⟨hsl, _⟩ := Store.get_some hash hg
            have hc : s.slots.contains (hash k') = true := by
              rw [TreeMap.contains_eq_isSome_getElem?, hsl]; rfl
            have : s.slots.isEmpty = false := TreeMap.isEmpty_eq_false_of_contains hc
            rw [TreeMap.isEmpty_eq_size_eq_zero] at this
            simp at this; omega
      | deleteAll =>
        simp only [Backend.step]
        exact ⟨⟨hi.1, fun _ k' e' he' => by simp at he'⟩, wf_deleteAll hash s⟩
      | len => simp only [Backend.step]; exact ⟨hi, hw⟩
      | walk => simp only [Backend.step]; exact ⟨hi, hw⟩

/-- One step never lowers the "expirations were set" counter: nothing in the package resets it (a cleanup cycle only
    reads it). -/
theorem xstep_expirationsSet_mono (kind : Kind) (cfg : Cfg) (s : Store) (now : Time) (xop : XOp) :
    s.expirationsSet ≤ (Backend.xstep hash kind cfg s now xop).1.expirationsSet := by
  cases xop with
  | restore e => simp only [Backend.xstep, Store.restoreOne]; split <;> omega
  | cleanup ho so hn needed =>
    have : (s.cleanup kind cfg { now, ho, so, hasNeeded := hn, needed }).1.expirationsSet = s.expirationsSet := by
      unfold Store.cleanup; simp only; split <;> simp [Store.evictLeast, Store.evict, cleanupScan_expirationsSet]
    simp only [Backend.xstep]; omega
  | base op =>
    simp only [Backend.xstep]
    cases op with
    | write k v ctxTTL rn rd => simp only [Backend.step, Store.write, Store.writeCore]; split <;> omega
    | store k v rn rd => simp only [Backend.step, Store.write, Store.writeCore]; split <;> omega
    | read k skip => simp only [Backend.step]; rw [read_expirationsSet]; exact Int.le_refl _
    | load k => simp only [Backend.step]; rw [read_expirationsSet]; exact Int.le_refl _
    | delete k =>
      have : (s.delete hash kind k).1.expirationsSet = s.expirationsSet := by
        unfold Store.delete; simp only; split <;> rfl
      simp only [Backend.step]; omega
    | expireAll => simp only [Backend.step, Store.expireAll]; split <;> omega
    | deleteAll => simp only [Backend.step, Store.deleteAll]; exact Int.le_refl _
    | len => simp only [Backend.step]; exact Int.le_refl _
    | walk => simp only [Backend.step]; exact Int.le_refl _

/-- **C11_scan_stays_enabled** — along every history of public operations, cleanup cycles and restored records the
    counter never decreases, so once the cleanup scan of an Unlimited cache has been switched on (a per-call TTL, an
    ExpireAll, a restored expiring record) it stays on for every later cycle: an entry that was still fresh or only
    recently expired at one cycle is still looked at by all the following ones. -/
theorem C11_scan_stays_enabled (kind : Kind) (cfg : Cfg) (h : XHistory) : ∀ s : Store,
    s.expirationsSet ≤ (Backend.xrun hash kind cfg s h).1.expirationsSet ∧
    (scanOn cfg s = true → scanOn cfg (Backend.xrun hash kind cfg s h).1 = true) := by
  induction h with
  | nil => intro s; exact ⟨Int.le_refl _, id⟩
  | cons top rest ih =>
    intro s
    obtain ⟨now, xop⟩ := top
    simp only [Backend.xrun]
    have h1 := xstep_expirationsSet_mono hash kind cfg s now xop
    have ⟨h2, _⟩ := ih (Backend.xstep hash kind cfg s now xop).1
    have hmono : s.expirationsSet ≤
        (Backend.xrun hash kind cfg (Backend.xstep hash kind cfg s now xop).1 rest).1.expirationsSet := by omega
    refine ⟨hmono, ?_⟩
    intro hon
    cases hoff : scanOn cfg (Backend.xrun hash kind cfg (Backend.xstep hash kind cfg s now xop).1 rest).1 with
    | true => rfl
    | false =>
      exfalso
      have h3 := (scanOn_false_iff cfg _).mp hoff
      have : scanOn cfg s = false := (scanOn_false_iff cfg s).mpr ⟨h3.1, by omega⟩
      rw [this] at hon; cases hon

theorem scanInv_empty (cfg : Cfg) : ScanInv hash cfg Store.empty :=
  ⟨by simp [Store.empty], fun _ k e he => by simp at he⟩

/-- **C11_default_backend_config_unaltered** — the backend a Failover / FailoverOf creates when none is given is configured
    with `BackendConfig` as the user wrote it (whatever the failover's own settings, e.g. MaxStaleness): in particular its
    janitor works with the user's DeleteExpiredAfter, so `C11_cycle_exactly` speaks about it with that value. -/
theorem C11_default_backend_config_unaltered (v : Variant) (backendConfig altered : Cfg) :
    defaultBackendCfg v backendConfig altered = backendConfig ∧
    (defaultBackendCfg v backendConfig altered).deleteExpiredAfter = backendConfig.deleteExpiredAfter := by
  cases v <;> simp [defaultBackendCfg, backendCfgPassthrough, Gen.backendCfgPassthrough, Gen.backendCfgPassthroughOf]

/-! ### Non-vacuity: an Unlimited cache holding a never-expiring, a fresh, a recently and a long expired entry -/
/-- `C11_scan_stays_enabled` is not vacuous: on an Unlimited cache one per-call TTL switches the scan on (it is off before),
    and it is still on after a cleanup cycle, a never-expiring write and a second cycle. -/
example :
    let cfg : Cfg := { ttl := -1, jn := -1, jd := 1, strategy := .mostExpired, deleteExpiredAfter := 100, countSoftLimit := 0, efn := 1, efd := 2 }
    let s1 := (Backend.xrun id .sharded cfg Store.empty [(1000, .base (.write 2 (some 2) 500 0 1))]).1
    let h : XHistory := [(1010, .cleanup false false false false), (1020, .base (.write 1 (some 1) 0 0 1)),
                         (1030, .cleanup false false false false)]
    scanOn cfg Store.empty = false ∧ scanOn cfg s1 = true ∧ scanOn cfg (Backend.xrun id .sharded cfg s1 h).1 = true := by
  decide +kernel

example :
    let cfg : Cfg := { ttl := -1, jn := -1, jd := 1, strategy := .mostExpired, deleteExpiredAfter := 100, countSoftLimit := 0, efn := 1, efd := 2 }
    let h : XHistory := [(1000, .base (.write 1 (some 1) 0 0 1)), (1000, .base (.write 2 (some 2) 500 0 1)),
                         (1000, .base (.write 3 (some 3) (-50) 0 1)), (1000, .base (.write 4 (some 4) (-500) 0 1)),
                         (1010, .cleanup false false false false)]
    ((Backend.xrun id .sharded cfg Store.empty h).1.walk.map (·.K)) = [1, 2, 3] := by decide +kernel

end Cache
