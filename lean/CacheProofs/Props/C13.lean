import CacheProofs.Lemmas.Backend
import CacheModel.Transfer

/-
  C13 — Dump followed by Restore reproduces the cache exactly.

  `encoding/gob` is MODELLED as the identity on `{K,V,E,C}` records decoded into fresh variables (trusted base; the
  correspondence run is what notices a decode target being reused).  A dump is ANY permutation of the source's entries
  (Go map iteration order is arbitrary), so every theorem quantifies over all permutations.
-/
namespace Cache
open Std
variable (hash : Key → Nat)

/-- After restoring `recs`, a slot holds the LAST record hashing to it, or what it held before. -/
theorem restore_slots (recs : List Entry) : ∀ (s : Store) (h : Nat),
    (recs.foldl (fun s e => s.restoreOne hash e) s).slots[h]? =
      match recs.reverse.find? (fun e => hash e.K == h) with
      | some e => some e
      | none => s.slots[h]? := by
  induction recs with
  | nil => intro s h; simp
  | cons e rest ih =>
    intro s h
    rw [List.foldl_cons, ih, List.reverse_cons, List.find?_append]
    cases hf : rest.reverse.find? (fun e => hash e.K == h) with
    | some x => simp
    | none =>
      simp only [Option.none_or, List.find?_cons, List.find?_nil]
      by_cases hh : hash e.K = h
      · simp [hh, Store.restoreOne]
      · have : compare (hash e.K) h ≠ .eq := by simpa [Nat.compare_eq_eq] using hh
        have hb : (hash e.K == h) = false := by simpa using hh
        simp [hb, Store.restoreOne, TreeMap.getElem?_insert, this]

/-- **C13_roundtrip** — restoring ANY permutation of a well-formed store's entries into an empty cache of the same family
    yields the same content slot by slot (keys, values incl. nil, expiry incl. 0, usage metric), and reports their number. -/
theorem C13_roundtrip (s : Store) (hw : s.WF hash) (recs : List Entry) (hperm : recs.Perm s.walk) :
    (∀ h : Nat, ((Store.empty).restore hash recs).1.slots[h]? = s.slots[h]?) ∧
    ((Store.empty).restore hash recs).2 = s.len := by
  constructor
  · intro h
    simp only [Store.restore, restore_slots]
    have hmem : ∀ x, x ∈ recs.reverse ↔ s.get hash x.K = some x := by
      intro x; rw [List.mem_reverse, hperm.mem_iff]; exact mem_walk_iff hash hw x
    cases hs : s.slots[h]? with
    | none =>
      have : recs.reverse.find? (fun e => hash e.K == h) = none := by
        rw [List.find?_eq_none]
        intro x hx hcontra
        have hxk : hash x.K = h := by simpa using hcontra
        have := (Store.get_some hash ((hmem x).mp hx)).1
        rw [hxk, hs] at this; cases this
      simp [this, Store.empty]
    | some e =>
      have hek : hash e.K = h := hw h e hs
      have he : e ∈ recs.reverse := (hmem e).mpr (Store.get_of_slot hash (by rw [hek]; exact hs) rfl)
      cases hf : recs.reverse.find? (fun e => hash e.K == h) with
      | none =>
        rw [List.find?_eq_none] at hf
        exact absurd (by simpa using hek) (hf e he)
      | some x =>
        have hx := List.mem_of_find?_eq_some hf
        have hxk : hash x.K = h := by simpa using List.find?_some hf
        have := (Store.get_some hash ((hmem x).mp hx)).1
        rw [hxk, hs] at this
        simp [this]
  · simp [Store.restore, hperm.length_eq, walk_length]

/-- Same keys, values and expiry times, per key; Len agrees; and dumping the restored cache yields the same entry set
    again, so dumps can be relayed through any number of instances. -/
theorem C13_same_entries (s : Store) (hw : s.WF hash) (recs : List Entry) (hperm : recs.Perm s.walk) :
    let t := ((Store.empty).restore hash recs).1
    (∀ k, t.get hash k = s.get hash k) ∧ t.WF hash ∧ (∀ e, e ∈ t.walk ↔ e ∈ s.walk) := by
  have hslots := (C13_roundtrip hash s hw recs hperm).1
  have hget : ∀ k, ((Store.empty).restore hash recs).1.get hash k = s.get hash k := by
    intro k; unfold Store.get; rw [hslots]
  have hwf : ((Store.empty).restore hash recs).1.WF hash := by
    intro h e he; rw [hslots] at he; exact hw h e he
  refine ⟨hget, hwf, ?_⟩
  intro e
  rw [mem_walk_iff hash hwf, mem_walk_iff hash hw, hget]

/-- Relaying: a dump of the restored cache (any order) restores to the same content again. -/
theorem C13_chain (s : Store) (hw : s.WF hash) (recs : List Entry) (hperm : recs.Perm s.walk)
    (recs2 : List Entry) (hperm2 : recs2.Perm ((Store.empty).restore hash recs).1.walk) :
    ∀ k, ((Store.empty).restore hash recs2).1.get hash k = s.get hash k := by
  have h1 := C13_same_entries hash s hw recs hperm
  have h2 := C13_same_entries hash _ h1.2.1 recs2 hperm2
  intro k; rw [h2.1, h1.1]

/-- Across families (e.g. sharded source, SyncMap target): with a target slot function that is injective, the content is
    reproduced per key as well. With a colliding target hash exactly the colliding keys can be lost — see the example. -/
theorem C13_cross_family (hash' : Key → Nat) (hinj : Function.Injective hash') (s : Store) (hw : s.WF hash)
    (recs : List Entry) (hperm : recs.Perm s.walk) (k : Key) :
    ((Store.empty).restore hash' recs).1.get hash' k = s.get hash k := by
  unfold Store.get
  simp only [Store.restore, restore_slots]
  have hmem : ∀ x, x ∈ recs.reverse ↔ s.get hash x.K = some x := by
    intro x; rw [List.mem_reverse, hperm.mem_iff]; exact mem_walk_iff hash hw x
  cases hf : recs.reverse.find? (fun e => hash' e.K == hash' k) with
  | none =>
    rw [List.find?_eq_none] at hf
    simp only [Store.empty]
    cases hs : s.slots[hash k]? with
    | none => simp
    | some e =>
      by_cases hek : e.K = k
      · have : e ∈ recs.reverse := (hmem e).mpr (Store.get_of_slot hash (by rw [hek]; exact hs) rfl)
        exact absurd (by simp [hek]) (hf e this)
      · simp [hek]
  | some x =>
    have hx := List.mem_of_find?_eq_some hf
    have hxk : x.K = k := hinj (by simpa using List.find?_some hf)
    have hg := (hmem x).mp hx
    rw [hxk] at hg
    have ⟨hs, _⟩ := Store.get_some hash hg
    simp [hs, hxk]

/-! ### Non-vacuity and the collision caveat -/
example :
    let s := ((Store.empty).writeCore id 1 (some 5) 0 false).writeCore id 2 none 77 false
    ((Store.empty).restore id s.walk.reverse).1.walk = s.walk := by decide +kernel
-- a colliding target hash loses one of two keys (stated, not hidden):
example :
    let s := ((Store.empty).writeCore id 1 (some 5) 0 false).writeCore id 3 (some 6) 0 false
    ((Store.empty).restore (fun k => k % 2) s.walk).1.len = 1 := by decide +kernel

end Cache
