import CacheProofs.Lemmas.Lockset
import CacheModel.FootprintTable

/-
  C16 — the general half: why a pair the footprint table calls protected is ordered by happens-before in EVERY execution.
  The theorems quantify over all legal traces (any number of goroutines, locks, locations, any length, any interleaving)
  of the trace semantics in CacheModel/MemModel.lean; nothing here is decided by enumeration.
  What stays trusted: that the semantics matches the Go memory model document, and that the real executions conform to the
  table (each access really is made under the guard its row states) — the latter is what the race-detector engine samples.
-/
namespace Cache.MM
open Cache

/-- **C16_lockset** — a location all of whose accesses are made under one lock, writes exclusively, has no data race in any
    legal execution. -/
theorem C16_lockset (tr : List Ev) (hl : Legal tr) (l k : Nat) (hd : LockDisciplined tr l k) :
    ∀ i j, ¬ Race tr l i j := by
  intro i j ⟨hij, t, t', w, w', a, a', hei, hej, hne, hw, _, hnhb⟩
  obtain ⟨mi, hhi, hwi⟩ := hd i t w a hei
  obtain ⟨mj, hhj, hwj⟩ := hd j t' w' a' hej
  have hex : mi = .ex ∨ mj = .ex := by
    rcases hw with h | h
    · exact Or.inl (hwi h)
    · exact Or.inr (hwj h)
  exact hnhb (lock_pair_ordered tr hl i j t t' k mi mj _ _ hij hei hej rfl rfl hne (by intro m h; cases h) hhi hhj hex)

/-- **C16_atomic_discipline** — a location only ever accessed with sync/atomic has no data race (by definition of a race). -/
theorem C16_atomic_discipline (tr : List Ev) (l : Nat) (hd : AtomicDisciplined tr l) : ∀ i j, ¬ Race tr l i j := by
  intro i j ⟨_, t, t', w, w', a, a', hei, hej, _, _, hna, _⟩
  exact hna ⟨hd i t w a hei, hd j t' w' a' hej⟩

/-- **C16_close_receive_ordered** — the lock record of Failover: what the owner writes before `close(ch)` is ordered before
    what a waiter reads after `<-ch`. -/
theorem C16_close_receive_ordered (tr : List Ev) (i r a j t t' c : Nat) (ei ej : Ev)
    (hir : i < r) (hra : r < a) (haj : a < j)
    (hei : tr[i]? = some ei) (hti : ei.tid = t) (hr : tr[r]? = some (Ev.close t c))
    (ha : tr[a]? = some (Ev.recv t' c)) (hej : tr[j]? = some ej) (htj : ej.tid = t') : HB tr i j :=
  HB.trans (HB.po hir hei hr (by rw [hti]; rfl)) (HB.trans (HB.chan hra hr ha) (HB.po haj ha hej (by rw [htj]; rfl)))

/-- **C16_publication_ordered** — init-before-publish: what a goroutine writes into a fresh entry before it releases the
    (exclusively held) lock under which the entry is stored is ordered before every access by a goroutine that acquired
    that lock later (and so could find the entry). -/
theorem C16_publication_ordered (tr : List Ev) (i r a j t t' k : Nat) (m' : Mode) (ei ej : Ev)
    (hir : i < r) (hra : r < a) (haj : a < j)
    (hei : tr[i]? = some ei) (hti : ei.tid = t) (hr : tr[r]? = some (Ev.rel t k .ex))
    (ha : tr[a]? = some (Ev.acq t' k m')) (hej : tr[j]? = some ej) (htj : ej.tid = t') : HB tr i j :=
  HB.trans (HB.po hir hei hr (by rw [hti]; rfl))
    (HB.trans (HB.lock hra hr ha (Or.inl rfl)) (HB.po haj ha hej (by rw [htj]; rfl)))

/-! ### The footprint table's lock clause is sound for this semantics -/

def lockId : FP.Lock → Nat
  | .shard => 0 | .fLock => 1 | .idxMu => 2 | .invMu => 3

/-- The access at position p by goroutine t really is made under the guard its table row states (lock rows only; the lock
    instance is the one the location belongs to: one shard, one Failover, one index). -/
def underGuard (tr : List Ev) (p t : Nat) : FP.Guard → Prop
  | .lock l true => heldAt tr p t (lockId l) = some .ex
  | .lock l false => ∃ m, heldAt tr p t (lockId l) = some m
  | _ => True

/-- **C16_table_lock_clause_sound** — whenever the table's `protectedPair` says "protected" on the strength of its lock clause
    (both rows guarded by the same lock, one of them exclusively), any two accesses of different goroutines that conform to
    those rows are ordered by happens-before, in every legal execution. -/
theorem C16_table_lock_clause_sound (ra rb : FP.Access) (lk : FP.Lock) (x1 x2 : Bool)
    (hga : ra.guard = .lock lk x1) (hgb : rb.guard = .lock lk x2) (hp : FP.protectedPair ra rb = true)
    (tr : List Ev) (hl : Legal tr) (i j t t' l : Nat) (w w' a a' : Bool) (hij : i < j)
    (hei : tr[i]? = some (Ev.acc t l w a)) (hej : tr[j]? = some (Ev.acc t' l w' a')) (hne : t ≠ t')
    (hci : underGuard tr i t ra.guard) (hcj : underGuard tr j t' rb.guard) : HB tr i j := by
  rw [hga] at hci; rw [hgb] at hcj
  simp only [FP.protectedPair, hga, hgb, beq_self_eq_true, Bool.true_and] at hp
  cases x1 <;> cases x2 <;> simp only [underGuard] at hci hcj
  · simp at hp
  · obtain ⟨mi, hmi⟩ := hci
    exact lock_pair_ordered tr hl i j t t' _ mi .ex _ _ hij hei hej rfl rfl hne (by intro m h; cases h) hmi hcj (Or.inr rfl)
  · obtain ⟨mj, hmj⟩ := hcj
    exact lock_pair_ordered tr hl i j t t' _ .ex mj _ _ hij hei hej rfl rfl hne (by intro m h; cases h) hci hmj (Or.inl rfl)
  · exact lock_pair_ordered tr hl i j t t' _ .ex .ex _ _ hij hei hej rfl rfl hne (by intro m h; cases h) hci hcj (Or.inl rfl)

/-! ### Non-vacuity -/

/-- Two goroutines writing one location under an exclusive lock: legal, disciplined. -/
def goodTrace : List Ev :=
  [.acq 0 7 .ex, .acc 0 1 true false, .rel 0 7 .ex, .acq 1 7 .sh, .acc 1 1 false false, .rel 1 7 .sh]

example : Legal goodTrace := by
  intro n hn
  have : n = 0 ∨ n = 1 ∨ n = 2 ∨ n = 3 ∨ n = 4 ∨ n = 5 := by simp [goodTrace] at hn; omega
  rcases this with h | h | h | h | h | h <;> subst h <;>
    simp [goodTrace, heldAt, heldAfter, stepH, legalEv, Held.set]

example : HB goodTrace 1 4 :=
  HB.trans (HB.po (i := 1) (j := 2) (e := .acc 0 1 true false) (e' := .rel 0 7 .ex) (by decide) rfl rfl rfl)
    (HB.trans (HB.lock (i := 2) (j := 3) (t := 0) (t' := 1) (k := 7) (m := .ex) (m' := .sh) (by decide) rfl rfl (Or.inl rfl))
      (HB.po (i := 3) (j := 4) (e := .acq 1 7 .sh) (e' := .acc 1 1 false false) (by decide) rfl rfl rfl))

/-- The shape of known finding F9a: `ExpireAll` (goroutine 0) rewrites `E` under the shard lock while a reader (goroutine 1)
    looked at it with no lock held. The semantics calls it a race. -/
def f9aTrace : List Ev :=
  [.acc 1 1 false false, .acq 0 7 .ex, .acc 0 1 true false, .rel 0 7 .ex]

theorem HB.first_edge {tr : List Ev} {i j : Nat} (h : HB tr i j) :
    (∃ j' e e', i < j' ∧ tr[i]? = some e ∧ tr[j']? = some e' ∧ e.tid = e'.tid) ∨
    (∃ t k m, tr[i]? = some (Ev.rel t k m)) ∨ (∃ t l w, tr[i]? = some (Ev.acc t l w true)) ∨
    (∃ t c, tr[i]? = some (Ev.close t c)) := by
  induction h with
  | po h1 h2 h3 h4 => exact Or.inl ⟨_, _, _, h1, h2, h3, h4⟩
  | lock _ h2 _ _ => exact Or.inr (Or.inl ⟨_, _, _, h2⟩)
  | atomic _ h2 _ => exact Or.inr (Or.inr (Or.inl ⟨_, _, _, h2⟩))
  | chan _ h2 _ => exact Or.inr (Or.inr (Or.inr ⟨_, _, h2⟩))
  | trans _ _ ih _ => exact ih

/-- **C16_semantics_sees_F9a** — the trace semantics is not vacuous: it does report the known in-place-expiry race. -/
theorem C16_semantics_sees_F9a : Race f9aTrace 1 0 2 := by
  refine ⟨by decide, 1, 0, false, true, false, false, rfl, rfl, by decide, Or.inr rfl, by simp, ?_⟩
  intro h
  rcases h.first_edge with ⟨j', e, e', hlt, he, he', htid⟩ | ⟨t, k, m, h⟩ | ⟨t, l, w, h⟩ | ⟨t, c, h⟩
  · have he0 : e = .acc 1 1 false false := by simpa [f9aTrace] using he.symm
    subst he0
    match j', hlt, he' with
    | 1, _, he' => simp [f9aTrace] at he'; subst he'; simp [Ev.tid] at htid
    | 2, _, he' => simp [f9aTrace] at he'; subst he'; simp [Ev.tid] at htid
    | 3, _, he' => simp [f9aTrace] at he'; subst he'; simp [Ev.tid] at htid
    | n + 4, _, he' => simp [f9aTrace] at he'
  · simp [f9aTrace] at h
  · simp [f9aTrace] at h
  · simp [f9aTrace] at h

end Cache.MM
