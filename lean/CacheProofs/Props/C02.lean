import CacheProofs.Lemmas.ProvenanceStep
import CacheProofs.Props.C01

/-
  C02 — Failover results always have provenance; nothing is fabricated or mixed up.

  The ghost lists of the machine record, per key, every value a builder returned (`builtOk`), every error a builder
  returned (`buildErr`), every value the backend returned on a Read — fresh or stale — (`backendVals`) and every error a
  backend call returned (`backendErrs`). They are appended at the moment the builder / backend ANSWERS, so membership at
  the time a Get returns means "finished no later than the Get returned". Backend answers and builder outcomes are free
  labels: the theorems hold for every fault script, every schedule, every configuration and both API variants.
-/
namespace Cache

theorem reachable_prov {c : FCfg} {s : FState} (h : Reachable c s) : Prov s := by
  obtain ⟨ls, hl⟩ := h
  exact prov_run c ls _ _ inv_init prov_init hl

/-- **C02_provenance** — every result a Get has returned is `(v, nil)` with `v` built for, or stored in the backend under,
    THAT Get's key — or a non-nil error that a builder invocation for that key (possibly served from the failure cache or
    handed over by the lock owner) or a backend call for that key produced. -/
theorem C02_provenance (c : FCfg) (s : FState) (h : Reachable c s) (t : Nat) (r : GetResult)
    (hr : (s.th t).returned = some r) : Good s.g (s.th t).key r :=
  ((reachable_prov h).thr t).ret r hr

/-- It never returns a nil / zero value together with a nil error. -/
theorem C02_never_nil_nil (c : FCfg) (s : FState) (h : Reachable c s) (t : Nat) :
    (s.th t).returned ≠ some ⟨none, none⟩ := by
  intro hr
  obtain ⟨v, hv, _⟩ := (C02_provenance c s h t _ hr).1 rfl
  cases hv

/-- A returned value belongs to the Get's own key — never to another key. -/
theorem C02_no_cross_key (c : FCfg) (s : FState) (h : Reachable c s) (t : Nat) (v : Val)
    (hr : (s.th t).returned = some ⟨some v, none⟩) :
    ((s.th t).key, v) ∈ s.g.builtOk ∨ ((s.th t).key, v) ∈ s.g.backendVals := by
  obtain ⟨v', hv', hg⟩ := (C02_provenance c s h t _ hr).1 rfl
  cases hv'; exact hg

/-- A returned error belongs to the Get's own key. -/
theorem C02_error_provenance (c : FCfg) (s : FState) (h : Reachable c s) (t : Nat) (v : Option Val) (e : Err)
    (hr : (s.th t).returned = some ⟨v, some e⟩) :
    ((s.th t).key, e) ∈ s.g.buildErr ∨ ((s.th t).key, e) ∈ s.g.backendErrs :=
  (C02_provenance c s h t _ hr).2 e rfl

/-- What the lock owner publishes for the waiters has provenance for the waiters' key too. -/
theorem C02_waiters_get_owners_result (c : FCfg) (s : FState) (h : Reachable c s) (t : Nat)
    (hw : (s.th t).pc = .waiting) (hc : (s.kl (s.th t).lid).closed = true) :
    Good s.g (s.th t).key ⟨(s.kl (s.th t).lid).val, (s.kl (s.th t).lid).err⟩ := by
  have hp := reachable_prov h
  exact hp.klo t ⟨(hp.thr t).wto hw, Or.inr (Or.inr hw)⟩ hc

/-- Whatever the failure cache holds for a key is an error some builder invocation for that key returned. -/
theorem C02_failure_cache_provenance (c : FCfg) (s : FState) (h : Reachable c s) (k : Key) (e : Err) (E : Time)
    (he : s.errs k = some (e, E)) : (k, e) ∈ s.g.buildErr :=
  (reachable_prov h).ers k e E he

/-! ### Non-vacuity: a waiter receives the value the owner built; a stale value is served; a cached failure is served -/
example : ∃ s, run demoCfg01 FState.init
    [.begin 0 7 false none, .begin 1 7 false none, .readAns 0 .miss, .readAns 1 .miss, .elect 0, .elect 1,
     .local 0, .local 1, .errsRead 0 100, .local 0, .buildAns 0 (.ok 42 []), .writeAns 0 .ok, .local 0, .wake 1] = some s ∧
    (s.th 1).returned = some ⟨some 42, none⟩ ∧ (s.th 0).returned = some ⟨some 42, none⟩ := by
  refine ⟨_, rfl, ?_, ?_⟩ <;> decide
example : ∃ s, run demoCfg01 FState.init
    [.begin 0 7 false none, .readAns 0 (.stale 5 10), .elect 0, .local 0, .writeAns 0 .ok, .errsRead 0 100, .local 0] = some s ∧
    (s.th 0).returned = some ⟨some 5, none⟩ ∧ (s.th 0).pc = .building ∧ (s.th 0).bg = true := by
  refine ⟨_, rfl, ?_, ?_, ?_⟩ <;> decide
example : ∃ s, run demoCfg01 FState.init
    [.begin 0 7 false none, .readAns 0 .miss, .elect 0, .local 0, .errsRead 0 100, .local 0, .buildAns 0 (.err 9 []),
     .errsWrite 0 500, .local 0, .begin 1 7 false none, .readAns 1 .miss, .elect 1, .local 1, .errsRead 1 200] = some s ∧
    (s.th 1).returned = some ⟨none, some 9⟩ := by
  refine ⟨_, rfl, ?_⟩; decide

end Cache
