import CacheProofs.Lemmas.Backend
import CacheModel.Construct

/-
  C18 — metrics account for every cache event exactly once (backend half; the Failover counters are in C18F).

  Every model step emits its metric events; the theorems say the totals a stats tracker accumulates equal the number
  of events of each kind in the history — nothing dropped, nothing counted twice — for every history, hash function,
  backend kind and configuration.
-/
namespace Cache
open Std
variable (hash : Key → Nat)

/-- hit + miss + expired contributed by a list of metric events. -/
def readEvents : List Metric → Nat
  | [] => 0
  | .hit :: r => 1 + readEvents r
  | .miss :: r => 1 + readEvents r
  | .expired n :: r => n + readEvents r
  | _ :: r => readEvents r

def writeEvents : List Metric → Nat
  | [] => 0
  | .write :: r => 1 + writeEvents r
  | _ :: r => writeEvents r

def deleteEvents : List Metric → Nat
  | [] => 0
  | .delete n :: r => n + deleteEvents r
  | _ :: r => deleteEvents r

theorem readEvents_append (a b : List Metric) : readEvents (a ++ b) = readEvents a + readEvents b := by
  induction a with
  | nil => simp [readEvents]
  | cons m r ih => cases m <;> simp [readEvents, ih] <;> omega

theorem writeEvents_append (a b : List Metric) : writeEvents (a ++ b) = writeEvents a + writeEvents b := by
  induction a with
  | nil => simp [writeEvents]
  | cons m r ih => cases m <;> simp [writeEvents, ih] <;> omega

theorem deleteEvents_append (a b : List Metric) : deleteEvents (a ++ b) = deleteEvents a + deleteEvents b := by
  induction a with
  | nil => simp [deleteEvents]
  | cons m r ih => cases m <;> simp [deleteEvents, ih] <;> omega

/-- The totals a tracker accumulates are exactly these sums. -/
theorem C18_totals_are_sums (t : Totals) (ms : List Metric) :
    (t.addAll ms).hit + (t.addAll ms).miss + (t.addAll ms).expired = t.hit + t.miss + t.expired + readEvents ms ∧
    (t.addAll ms).write = t.write + writeEvents ms ∧
    (t.addAll ms).delete = t.delete + deleteEvents ms := by
  induction ms generalizing t with
  | nil => simp [Totals.addAll, readEvents, writeEvents, deleteEvents]
  | cons m r ih =>
    have := ih (t.add m)
    simp only [Totals.addAll, List.foldl_cons] at this ⊢
    cases m <;> simp only [Totals.add, readEvents, writeEvents, deleteEvents] at this ⊢ <;> omega

/-- What one operation must contribute: (reads counted, writes counted, deletes counted). -/
def expectedCounts (s : Store) : Op → Out → Nat × Nat × Nat
  | .read _ skip, _ => (if skip then 0 else 1, 0, 0)
  | .load _, _ => (1, 0, 0)
  | .expireAll, _ => (s.len, 0, 0)                 -- every entry touched by ExpireAll counts as expired
  | .write .., _ => (0, 1, 0)
  | .store .., _ => (0, 1, 0)
  | .delete _, .deleted ok => (0, 0, if ok then 1 else 0)
  | .deleteAll, _ => (0, 0, s.len)
  | _, _ => (0, 0, 0)

/-- One step emits exactly its events. -/
theorem C18_step_counts (kind : Kind) (cfg : Cfg) (s : Store) (now : Time) (op : Op) :
    let r := Backend.step hash kind cfg s now op
    (readEvents r.2.2, writeEvents r.2.2, deleteEvents r.2.2) = expectedCounts s op r.2.1 := by
  cases op with
  | read k skip =>
    simp only [Backend.step, expectedCounts, read_metrics]
    cases skip with
    | true => simp [readEvents, writeEvents, deleteEvents]
    | false =>
      simp only [Bool.false_eq_true, if_false]
      generalize (s.read hash kind cfg k false now).2.1 = r
      cases r <;> simp [readEvents, writeEvents, deleteEvents]
  | load k =>
    simp only [Backend.step, expectedCounts, read_metrics]
    simp only [Bool.false_eq_true, if_false]
    generalize (s.read hash kind cfg k false now).2.1 = r
    cases r <;> simp [readEvents, writeEvents, deleteEvents]
  | write k v c rn rd => simp [Backend.step, Store.write, expectedCounts, readEvents, writeEvents, deleteEvents]
  | store k v rn rd => simp [Backend.step, Store.write, expectedCounts, readEvents, writeEvents, deleteEvents]
  | delete k =>
    simp only [Backend.step, expectedCounts, Store.delete]
    split <;> simp [readEvents, writeEvents, deleteEvents]
  | expireAll => simp [Backend.step, Store.expireAll, Store.len, expectedCounts, readEvents, writeEvents, deleteEvents]
  | deleteAll => simp [Backend.step, Store.deleteAll, Store.len, expectedCounts, readEvents, writeEvents, deleteEvents]
  | len => simp [Backend.step, expectedCounts, readEvents, writeEvents, deleteEvents]
  | walk => simp [Backend.step, expectedCounts, readEvents, writeEvents, deleteEvents]

/-- Expected totals of a whole history (the intermediate stores matter for the batch operations). -/
def expectedRun (kind : Kind) (cfg : Cfg) : Store → History → Nat × Nat × Nat
  | _, [] => (0, 0, 0)
  | s, (now, op) :: rest =>
    let r := Backend.step hash kind cfg s now op
    let e := expectedCounts s op r.2.1
    let er := expectedRun kind cfg r.1 rest
    (e.1 + er.1, e.2.1 + er.2.1, e.2.2 + er.2.2)

/-- **C18_backend_totals** — for every history: hit+miss+expired = non-skipped reads + entries touched by ExpireAll,
    write = number of writes, delete = entries removed by Delete / DeleteAll. -/
theorem C18_backend_totals (kind : Kind) (cfg : Cfg) (h : History) :
    ∀ s : Store,
      let ms := (Backend.run hash kind cfg s h).2.2
      (readEvents ms, writeEvents ms, deleteEvents ms) = expectedRun hash kind cfg s h := by
  induction h with
  | nil => intro s; simp [Backend.run, expectedRun, readEvents, writeEvents, deleteEvents]
  | cons top rest ih =>
    intro s
    obtain ⟨now, op⟩ := top
    have hs := C18_step_counts hash kind cfg s now op
    have hr := ih (Backend.step hash kind cfg s now op).1
    simp only [Backend.run, expectedRun, readEvents_append, writeEvents_append, deleteEvents_append] at hs hr ⊢
    rw [← hs, ← hr]

/-- A cleanup cycle contributes one `cache_evict` event carrying the number of evicted entries when (and only when)
    eviction was triggered; it never touches the read / write / delete counters. -/
theorem C18_cleanup_metrics (kind : Kind) (cfg : Cfg) (s : Store) (env : CleanupEnv) :
    (s.cleanup kind cfg env).2 =
      match evictPlan cfg (s.cleanupScan kind cfg env.now).len env with
      | some k => [.evict k]
      | none => [] := by
  unfold Store.cleanup; simp only; split <;> simp_all

/-- **C18_default_backend_reports_under_failover_name** — the backend a Failover / FailoverOf creates when none is given counts
    its events with the tracker and under the name given to the failover: the totals of `C18_backend_totals` are found under
    that label, next to the failover's own counters. -/
theorem C18_default_backend_reports_under_failover_name (v : Variant) (failoverName altered : String) :
    defaultBackendName v failoverName altered = failoverName := by
  cases v <;> simp [defaultBackendName, backendCfgPassthrough, backendCfgIdentity, Gen.backendCfgPassthrough,
    Gen.backendCfgPassthroughOf, Gen.backendCfgIdentity, Gen.backendCfgIdentityOf]

/-! ### Non-vacuity -/
example :
    let cfg : Cfg := { ttl := -1, jn := -1, jd := 1, strategy := .lfu, deleteExpiredAfter := 10, countSoftLimit := 0, efn := 1, efd := 2 }
    let h : History := [(100, .write 1 (some 11) 0 0 1), (101, .write 2 (some 22) (-30) 0 1), (110, .read 1 false),
      (111, .read 2 false), (112, .read 3 false), (113, .read 1 true), (120, .expireAll), (130, .delete 2), (131, .delete 2), (140, .deleteAll)]
    expectedRun id .sharded cfg Store.empty h = (5, 2, 2) := by decide +kernel

end Cache
