import CacheProofs.Props.C04
import CacheProofs.Props.C03

/-
  C05 — build economy: SyncRead single-flight; cached failures suppress rebuilds.

  Single-flight is a property of the frontend COMPOSED with a well-behaved backend: once the result of a build was stored,
  the backend answers every (non-SkipRead) Read of that key with that fresh value. `wbOk` / `wbNext` express exactly this
  as a constraint on the labels; everything else (other keys, schedules, builder outcomes, what the backend says about keys
  nobody built yet, refresh writes) stays free. "While its result stays fresh" = the window in which the constraint holds.
-/
namespace Cache

/-- Fresh build results the backend holds. -/
abbrev BSt := Key → Option Val

/-- The label is consistent with the backend: a non-SkipRead Read of a key holding a fresh build result hits it. -/
def wbOk (b : BSt) (s : FState) : FLabel → Bool
  | .readAns t a =>
    (s.th t).skipRead ||
    (match b (s.th t).key with
     | some v => a == .hit v
     | none => true)
  | _ => true

/-- The final store of a build result makes it the fresh value of its key. -/
def wbNext (b : BSt) (s : FState) : FLabel → BSt
  | .writeAns t .ok =>
    match (s.th t).pc with
    | .storing v => fun k => if k = (s.th t).key then some v else b k
    | _ => b
  | _ => b

/-- Runs of the composed system. -/
def wbRun (c : FCfg) : BSt → FState → List FLabel → Option (BSt × FState)
  | b, s, [] => some (b, s)
  | b, s, l :: ls =>
    if wbOk b s l then
      match step c s l with
      | some s' => wbRun c (wbNext b s l) s' ls
      | none => none
    else none

/-- Single-flight invariant: while a key holds a fresh build result, a (non-SkipRead) owner of that key is either about
    to read it in the critical section or is the very thread that just stored it. -/
def SF (b : BSt) (s : FState) : Prop :=
  ∀ u, b (s.th u).key ≠ none → (s.th u).owning → (s.th u).skipRead = false →
    ((s.th u).pc = .lockedRead ∨ ∃ r, (s.th u).pc = .finish r)

theorem skip_captured (c : FCfg) (s s' : FState) (l : FLabel) (h : step c s l = some s') (t : Nat)
    (hstarted : (s.th t).pc ≠ .idle) : (s'.th t).skipRead = (s.th t).skipRead := by
  by_cases ht : t = l.thread
  · subst ht
    cases l with
    | begin t key skip cell =>
      simp only [step] at h
      split at h
      · cases h
      · rename_i hpc; simp only [FLabel.thread] at hstarted; exact absurd (by simpa using hpc) hstarted
    | readAns t a =>
      simp only [step, FLabel.thread] at h ⊢
      split at h
      · split at h <;> cases h <;> simp
      · split at h <;> cases h
        · split <;> simp
        · simp
      · cases h
    | elect t =>
      simp only [step, FLabel.thread] at h ⊢
      split at h
      · cases h
      · split at h <;> cases h <;> (cases hk : s.keyLocks (s.th t).key <;> simp [hk, FState.req, FState.setTh])
    | «local» t =>
      simp only [step, FLabel.thread] at h ⊢
      split at h
      · split at h
        · split at h
          · split at h <;> cases h <;> simp
          · split at h <;> cases h <;> simp
          · cases h; simp
        · split at h
          · split at h <;> cases h
            · simp only [FState.req, FState.setTh, if_true]; split <;> rfl
            · simp
          · split at h <;> cases h <;> simp
          · cases h; simp
      · split at h <;> cases h <;> simp [FState.req, FState.setTh]
      · split at h <;> cases h <;> simp
      · cases h
    | writeAns t a =>
      simp only [step, FLabel.thread] at h ⊢
      split at h
      · split at h <;> cases h <;> simp
      · split at h <;> cases h <;> simp [FState.setTh]
      · cases h
    | errsRead t now =>
      simp only [step, FLabel.thread] at h ⊢
      split at h
      · cases h
      · split at h <;> cases h <;> simp
    | buildAns t a =>
      simp only [step, FLabel.thread] at h ⊢
      split at h
      · cases h
      · split at h
        · cases h; simp [FState.req, FState.setTh]
        · split at h <;> cases h <;> simp [FState.setTh]
    | errsWrite t E =>
      simp only [step, FLabel.thread] at h ⊢
      split at h
      · cases h; simp [FState.req, FState.setTh]
      · cases h
    | wake t =>
      simp only [step, FLabel.thread] at h ⊢
      split at h
      · cases h
      · split at h <;> cases h; simp
  · rw [(C04_bounded_steps c s s' l h).2 t ht]

/-- One step of the composed system preserves the single-flight invariant (SyncRead on). -/
theorem sf_step (c : FCfg) (hsr : c.syncRead = true) (b : BSt) (s s' : FState) (l : FLabel)
    (hi : Inv s) (hsf : SF b s) (hwb : wbOk b s l = true) (h : step c s l = some s') : SF (wbNext b s l) s' := by
  have hframe := (C04_bounded_steps c s s' l h).2
  have hi' := inv_step c s s' l hi h
  -- threads other than the stepping one: unchanged; their key's freshness can only have been SET by the storing thread,
  -- which is then the unique owner of that key
  have others : ∀ u, u ≠ l.thread → (wbNext b s l) (s'.th u).key ≠ none → (s'.th u).owning → (s'.th u).skipRead = false →
      ((s'.th u).pc = .lockedRead ∨ ∃ r, (s'.th u).pc = .finish r) := by
    intro u hu hb ho hs
    rw [hframe u hu] at hb ho hs ⊢
    by_cases hbb : b (s.th u).key ≠ none
    · exact hsf u hbb ho hs
    · -- freshness newly set for u's key: the stepping thread was the storing owner of that key
      exfalso
      cases l with
      | writeAns t a =>
        cases a with
        | ok =>
          simp only [wbNext] at hb
          cases hpc : (s.th t).pc <;> simp only [hpc] at hb <;> try (exact hbb hb)
          rename_i v
          by_cases hk : (s.th u).key = (s.th t).key
          · have hot : (s.th t).owning := ⟨hi.role t (by simp [hpc, Pc.ownerOnly]), by simp [hpc]⟩
            exact hu (hi.uniq u t ho hot hk)
          · simp only [hk, if_false] at hb; exact hbb hb
        | err e => exact hbb hb
      | begin t key skip cell => exact hbb hb
      | readAns t a => exact hbb hb
      | elect t => exact hbb hb
      | «local» t => exact hbb hb
      | errsRead t now => exact hbb hb
      | buildAns t a => exact hbb hb
      | errsWrite t E => exact hbb hb
      | wake t => exact hbb hb
  intro u hb ho hs
  by_cases hu : u = l.thread
  · subst hu
    -- the stepping thread
    cases l with
    | begin t key skip cell =>
      exfalso
      simp only [step, hsr, if_true] at h
      split at h
      · cases h
      · cases h; simp [FLabel.thread, Thread.owning, FState.req, FState.setTh] at ho
    | readAns t a =>
      simp only [FLabel.thread, wbNext] at hb ho hs ⊢
      simp only [step] at h
      split at h
      · exfalso
        split at h <;> cases h <;> simp_all [Thread.owning, FState.finishThread, FState.setTh]
      · rename_i hpc
        split at h <;> cases h
        · exfalso
          revert ho; split <;> simp [Thread.owning, FState.finishThread, FState.setTh]
        · -- a non-hit answer in the critical section: the backend constraint says this key holds nothing fresh
          exfalso
          simp only [th_setTh, if_true] at hb hs
          try simp only [th_noteRead] at hb
          cases hbk : b (s.th t).key with
          | none => exact hb hbk
          | some v =>
            simp only [wbOk, hs, hbk, Bool.false_or, beq_iff_eq] at hwb
            subst hwb
            simp_all
      · cases h
    | elect t =>
      simp only [FLabel.thread] at ho hs ⊢
      simp only [step, hsr, ↓reduceIte] at h
      split at h
      · cases h
      · cases h
        cases hk : s.keyLocks (s.th t).key <;> simp [hk, FState.req, FState.setTh]
    | «local» t =>
      simp only [FLabel.thread, wbNext] at hb ho hs ⊢
      have hkey := C04_key_captured_by_value c s s' (.local t) h t
      have hskip := skip_captured c s s' (.local t) h t
      simp only [step] at h
      split at h
      · -- classify: an owner here contradicts SF unless the key holds nothing fresh
        rename_i hpc
        have hne : (s.th t).pc ≠ .idle := by simp [hpc]
        rw [hkey hne] at hb; rw [hskip hne] at hs
        split at h
        · -- waiter: not owning afterwards
          exfalso
          rename_i hno
          have hof : (s.th t).owner = false := by simpa using hno
          split at h
          · split at h <;> cases h <;> simp [Thread.owning, hof] at ho
          · split at h <;> cases h <;> simp [Thread.owning, hof] at ho
          · cases h; simp [Thread.owning, hof] at ho
        · rename_i hno
          have hot : (s.th t).owning := ⟨by simpa using hno, by simp [hpc]⟩
          rcases hsf t hb hot hs with h1 | ⟨r, h1⟩ <;> simp [hpc] at h1
      · rename_i hpc
        have hne : (s.th t).pc ≠ .idle := by simp [hpc]
        rw [hkey hne] at hb; rw [hskip hne] at hs
        have hot : (s.th t).owning := ⟨hi.role t (by simp [hpc, Pc.ownerOnly]), by simp [hpc]⟩
        rcases hsf t hb hot hs with h1 | ⟨r, h1⟩ <;> simp [hpc] at h1
      · exfalso
        split at h <;> cases h <;> simp [Thread.owning] at ho
      · cases h
    | writeAns t a =>
      simp only [FLabel.thread] at hb ho hs ⊢
      have hkey := C04_key_captured_by_value c s s' (.writeAns t a) h t
      have hskip := skip_captured c s s' (.writeAns t a) h t
      simp only [step] at h
      split at h
      · rename_i hpc
        have hne : (s.th t).pc ≠ .idle := by simp [hpc]
        have hot : (s.th t).owning := ⟨hi.role t (by simp [hpc, Pc.ownerOnly]), by simp [hpc]⟩
        have hb' : b (s.th t).key ≠ none := by
          rw [hkey hne] at hb
          cases a <;> simpa [wbNext, hpc] using hb
        rw [hskip hne] at hs
        rcases hsf t hb' hot hs with h1 | ⟨r, h1⟩ <;> simp [hpc] at h1
      · rename_i v hpc
        right
        split at h <;> cases h <;> simp
      · cases h
    | errsRead t now =>
      simp only [FLabel.thread, wbNext] at hb ho hs ⊢
      have hkey := C04_key_captured_by_value c s s' (.errsRead t now) h t
      have hskip := skip_captured c s s' (.errsRead t now) h t
      simp only [step] at h
      split at h
      · cases h
      · rename_i hpc
        have hp : (s.th t).pc = .checkErrs := by simpa using hpc
        have hne : (s.th t).pc ≠ .idle := by simp [hp]
        rw [hkey hne] at hb; rw [hskip hne] at hs
        have hot : (s.th t).owning := ⟨hi.role t (by simp [hp, Pc.ownerOnly]), by simp [hp]⟩
        rcases hsf t hb hot hs with h1 | ⟨r, h1⟩ <;> simp [hp] at h1
    | buildAns t a =>
      simp only [FLabel.thread, wbNext] at hb ho hs ⊢
      have hkey := C04_key_captured_by_value c s s' (.buildAns t a) h t
      have hskip := skip_captured c s s' (.buildAns t a) h t
      simp only [step] at h
      split at h
      · cases h
      · rename_i hpc
        have hp : (s.th t).pc = .building := by simpa using hpc
        have hne : (s.th t).pc ≠ .idle := by simp [hp]
        rw [hkey hne] at hb; rw [hskip hne] at hs
        have hot : (s.th t).owning := ⟨hi.role t (by simp [hp, Pc.ownerOnly]), by simp [hp]⟩
        rcases hsf t hb hot hs with h1 | ⟨r, h1⟩ <;> simp [hp] at h1
    | errsWrite t E =>
      simp only [FLabel.thread, wbNext] at hb ho hs ⊢
      right
      simp only [step] at h
      split at h
      · cases h; simp [FState.req, FState.setTh]
      · cases h
    | wake t =>
      exfalso
      simp only [FLabel.thread] at ho
      simp only [step] at h
      split at h
      · cases h
      · split at h <;> cases h
        simp [Thread.owning] at ho
  · exact others u hu hb ho hs

/-- The invariant holds along every run of the composed system. -/
theorem sf_run (c : FCfg) (hsr : c.syncRead = true) (ls : List FLabel) :
    ∀ (b : BSt) (s : FState) (b' : BSt) (s' : FState), Inv s → SF b s →
      wbRun c b s ls = some (b', s') → SF b' s' ∧ Inv s' := by
  induction ls with
  | nil => intro b s b' s' hi hsf h; simp [wbRun] at h; obtain ⟨rfl, rfl⟩ := h; exact ⟨hsf, hi⟩
  | cons l rest ih =>
    intro b s b' s' hi hsf h
    simp only [wbRun] at h
    split at h
    · rename_i hwb
      cases hs : step c s l with
      | none => simp [hs] at h
      | some s1 =>
        rw [hs] at h
        exact ih _ _ _ _ (inv_step c s s1 l hi hs) (sf_step c hsr b s s1 l hi hsf hwb hs) h
    · cases h

/-- **C05_syncread_single_flight** — SyncRead on, any number of Gets, any schedule: in every state reachable in composition
    with a well-behaved backend, while a key holds the fresh result of a build NO thread (whose context does not carry
    SkipRead) is inside the builder for that key, none is about to invoke it, and none re-stores a stale copy: a burst of
    N Gets on a missing or expired key costs exactly one successful build. -/
theorem C05_syncread_single_flight (c : FCfg) (hsr : c.syncRead = true) (ls : List FLabel) (b : BSt) (s : FState)
    (h : wbRun c (fun _ => none) FState.init ls = some (b, s)) (u : Nat)
    (hfresh : b (s.th u).key ≠ none) (hskip : (s.th u).skipRead = false) :
    (s.th u).pc ≠ .building ∧ (s.th u).pc ≠ .decideSync ∧ (s.th u).pc ≠ .checkErrs ∧ (s.th u).pc ≠ .refreshing ∧
    (∀ v, (s.th u).pc ≠ .storing v) := by
  have ⟨hsf, hi⟩ := sf_run c hsr ls _ _ _ _ inv_init (fun u hb => absurd rfl hb) h
  have key : ∀ p : Pc, p.ownerOnly = true → (s.th u).pc = p → (p = .lockedRead ∨ ∃ r, p = .finish r) := by
    intro p hp hpc
    have ho : (s.th u).owning := ⟨hi.role u (by rw [hpc]; exact hp), by
      cases p <;> simp [Pc.ownerOnly] at hp <;> simp [hpc]⟩
    rcases hsf u hfresh ho hskip with h1 | ⟨r, h1⟩
    · left; rw [← hpc]; exact h1
    · right; exact ⟨r, by rw [← hpc]; exact h1⟩
  refine ⟨?_, ?_, ?_, ?_, ?_⟩
  · intro hpc; rcases key _ rfl hpc with h1 | ⟨r, h1⟩ <;> cases h1
  · intro hpc; rcases key _ rfl hpc with h1 | ⟨r, h1⟩ <;> cases h1
  · intro hpc; rcases key _ rfl hpc with h1 | ⟨r, h1⟩ <;> cases h1
  · intro hpc; rcases key _ rfl hpc with h1 | ⟨r, h1⟩ <;> cases h1
  · intro v hpc; rcases key _ rfl hpc with h1 | ⟨r, h1⟩ <;> cases h1

/-- Failure suppression, step form: with the failure cache on, a Get (without SkipRead) that reaches the failure-cache
    lookup while an unexpired failure is cached for its key returns that error and does not proceed towards the builder. -/
theorem C05_failure_suppressed (c : FCfg) (s s' : FState) (t : Nat) (now E : Time) (e : Err)
    (hpc : (s.th t).pc = .checkErrs) (hec : c.errCache = true) (hskip : (s.th t).skipRead = false)
    (hcached : s.errs (s.th t).key = some (e, E)) (hfresh : Gen.isExpired E now = false)
    (h : step c s (.errsRead t now) = some s') :
    (s'.th t).pc = .done ∧ (∃ v, (s'.th t).returned = some ⟨v, some e⟩ ∨ (s.th t).bg = true) ∧ s'.g.buildCalls = s.g.buildCalls := by
  simp only [step, hpc, hec, hskip, hcached, hfresh] at h
  simp at h
  cases h
  refine ⟨by simp, ?_, rfl⟩
  cases hb : (s.th t).bg <;> cases c.variant <;> simp [hb]

/-- The builder is only ever invoked right after a failure-cache lookup that found nothing to serve: `decideSync` is entered
    from `checkErrs` by an `errsRead` step only. Together with the previous theorem: while a failure is cached (and not
    expired) for a key, no Get without SkipRead invokes the builder for it. -/
theorem C05_build_only_after_cache_miss (c : FCfg) (s s' : FState) (l : FLabel) (t : Nat)
    (h : step c s l = some s') (hnew : (s'.th t).pc = .decideSync) (hold : (s.th t).pc ≠ .decideSync) :
    ∃ now, l = .errsRead t now ∧ (s.th t).pc = .checkErrs := by
  by_cases ht : t = l.thread
  · subst ht
    cases l with
    | errsRead t now =>
      simp only [step] at h
      split at h
      · cases h
      · rename_i hpc; exact ⟨now, rfl, by simpa [FLabel.thread] using hpc⟩
    | begin t key skip cell =>
      exfalso; simp only [step, FLabel.thread] at h hnew
      split at h
      · cases h
      · split at h <;> cases h <;> simp [FState.req, FState.setTh] at hnew
    | readAns t a =>
      exfalso; simp only [step, FLabel.thread] at h hnew
      split at h
      · split at h <;> cases h <;> simp at hnew
      · split at h <;> cases h
        · revert hnew; split <;> simp
        · simp at hnew
      · cases h
    | elect t =>
      exfalso; simp only [step, FLabel.thread] at h hnew
      split at h
      · cases h
      · split at h <;> cases h <;> (cases hk : s.keyLocks (s.th t).key <;> simp [hk, FState.req, FState.setTh] at hnew <;>
          (split at hnew <;> simp at hnew))
    | «local» t =>
      exfalso; simp only [step, FLabel.thread] at h hnew hold
      split at h
      · split at h
        · split at h
          · split at h <;> cases h <;> simp at hnew
          · split at h <;> cases h <;> simp at hnew
          · cases h; simp at hnew
        · split at h
          · split at h <;> cases h
            · first
                | (simp [FState.req, FState.setTh] at hnew)
                | (revert hnew; simp only [FState.req, FState.setTh, if_true]; split <;> simp)
            · simp at hnew
          · split at h <;> cases h <;> simp at hnew
          · cases h; simp at hnew
      · rename_i hpc; exact hold hpc
      · split at h <;> cases h <;> simp at hnew
      · cases h
    | writeAns t a =>
      exfalso; simp only [step, FLabel.thread] at h hnew
      split at h
      · split at h <;> cases h <;> simp at hnew
      · split at h <;> cases h <;> simp [FState.setTh] at hnew
      · cases h
    | buildAns t a =>
      exfalso; simp only [step, FLabel.thread] at h hnew
      split at h
      · cases h
      · split at h
        · cases h; simp [FState.req, FState.setTh] at hnew
        · split at h <;> cases h <;> simp [FState.setTh] at hnew
    | errsWrite t E =>
      exfalso; simp only [step, FLabel.thread] at h hnew
      split at h
      · cases h; simp [FState.req, FState.setTh] at hnew
      · cases h
    | wake t =>
      exfalso; simp only [step, FLabel.thread] at h hnew
      split at h
      · cases h
      · split at h <;> cases h; simp at hnew
  · exfalso
    rw [(C04_bounded_steps c s s' l h).2 t ht] at hnew
    exact hold hnew

/-- FailedUpdateTTL = -1: failures are not cached — the lookup never short-circuits and the failure is not stored, so the
    next Get that finds no fresh value invokes the builder again. -/
theorem C05_no_failure_cache (c : FCfg) (s s' : FState) (t : Nat) (now : Time) (hec : c.errCache = false)
    (hpc : (s.th t).pc = .checkErrs) (h : step c s (.errsRead t now) = some s') :
    (s'.th t).pc = .decideSync ∧ s'.errs = s.errs := by
  simp only [step, hpc, hec] at h
  simp at h
  cases h
  simp [FState.setTh]

/-- `errCache` is exactly `FailedUpdateTTL > -1` (the three sites in each file agree: one kernel). -/
theorem C05_errCache_iff (c : FCfg) : c.errCache = true ↔ c.failedUpdateTTL > -1 := by
  cases hv : c.variant <;> simp [FCfg.errCache, hv, Gen.errCacheEnabled, Gen.errCacheEnabledOf]

/-! ### Non-vacuity: with SyncRead, the second owner hits the freshly built value and does not build -/
def demoCfg05 : FCfg := { demoCfg03 with syncRead := true }
example : ∃ b s, wbRun demoCfg05 (fun _ => none) FState.init
    [.begin 0 7 false none, .begin 1 7 false none, .elect 0, .readAns 0 .miss, .local 0, .errsRead 0 100, .local 0,
     .buildAns 0 (.ok 42 []), .writeAns 0 .ok, .local 0, .elect 1, .readAns 1 (.hit 42)] = some (b, s) ∧
    b 7 = some 42 ∧ (s.th 1).returned = some ⟨some 42, none⟩ ∧ s.g.buildCalls = 1 := by
  refine ⟨_, _, rfl, ?_, ?_, ?_⟩ <;> decide
-- … and the constraint really bites: answering that Read with a miss is not a run of the composed system
example : wbRun demoCfg05 (fun _ => none) FState.init
    [.begin 0 7 false none, .begin 1 7 false none, .elect 0, .readAns 0 .miss, .local 0, .errsRead 0 100, .local 0,
     .buildAns 0 (.ok 42 []), .writeAns 0 .ok, .local 0, .elect 1, .readAns 1 .miss] = none := by decide

end Cache
