import CacheModel.Lone

/-
  C03 — a lone Get follows the documented stale / failure decision table.

  `loneGet` is the Failover machine run with ONE thread against given environment answers (the cell of the table):
  what the backend answers to the Read, the failure-cache content, the builder outcome. Keys, values, errors, clock
  readings and `MaxStaleness` are universally quantified; the flags are case-split exhaustively. Each clause of the
  statement is one theorem. What value accompanies a CACHED failure is left open by the statement and by the theorems.
-/
namespace Cache

def demoCfg03 : FCfg := { variant := .failover, syncUpdate := false, syncRead := false, failHard := false, maxStaleness := 0,
                          failedUpdateTTL := 20000000000, updateTTL := 60000000000 }

attribute [local simp] loneGet loneRun loneLabel step FState.setTh FState.req FState.noteRead FState.noteWrite
  FState.finishThread FState.publishRelease FState.release FState.setKL FCfg.syncCond FCfg.fallback
  FCfg.refreshUpdateExisting FCfg.errsWriteResetsTTL Gen.syncUpdateCond Gen.syncUpdateCondOf Gen.fallbackCond
  Gen.fallbackCondOf Gen.refreshUpdateExisting Gen.refreshUpdateExistingOf Thread.storeTTL

/-- Fresh values are returned without building — whatever the configuration, failure cache and builder. -/
theorem C03_fresh_no_build (c : FCfg) (a : LoneEnv) (key : Key) (v : Val) (cached : Option (Err × Time))
    (hr : a.read = .hit v) :
    ((loneGet c a key false cached).th 0).returned = some ⟨some v, none⟩ ∧ (loneGet c a key false cached).g.buildCalls = 0 := by
  obtain ⟨variant, su, sr, fh, ms, fut, ut⟩ := c
  cases sr <;> simp [hr]

/-- No failure is served from the failure cache: it is disabled, or empty for the key, or the entry has expired. -/
def NoCachedFailure (c : FCfg) (cached : Option (Err × Time)) (now : Time) : Prop :=
  c.errCache = false ∨ cached = none ∨ ∃ e E, cached = some (e, E) ∧ Gen.isExpired E now = true

/-- Absent entry: Get blocks on a synchronous build; success returns the built value (which is stored), failure returns the
    builder error — with or without FailHard, there is nothing to fall back to. The builder runs exactly once. -/
theorem C03_absent_blocks_on_build (c : FCfg) (a : LoneEnv) (key : Key) (cached : Option (Err × Time))
    (hr : a.read = .miss) (hnc : NoCachedFailure c cached a.now) (hs : a.storeWrite = .ok) :
    (∀ u ups, a.build = .ok u ups →
        ((loneGet c a key false cached).th 0).returned = some ⟨some u, none⟩ ∧
        (0, Req.write key u 0) ∈ (loneGet c a key false cached).g.requests ∧
        ((loneGet c a key false cached).th 0).bg = false) ∧
    (∀ e ups, a.build = .err e ups →
        ((loneGet c a key false cached).th 0).returned = some ⟨none, some e⟩) ∧
    (loneGet c a key false cached).g.buildCalls = 1 := by
  obtain ⟨variant, su, sr, fh, ms, fut, ut⟩ := c
  cases hec : FCfg.errCache ⟨variant, su, sr, fh, ms, fut, ut⟩ with
  | false =>
    cases hb : a.build with
    | ok u ups =>
      refine ⟨?_, ?_, ?_⟩
      · intro u' ups' h'; cases h'
        cases variant <;> cases sr <;> simp [hr, hb, hs, hec]
      · intro e ups' h'; cases h'
      · cases variant <;> cases sr <;> simp [hr, hb, hs, hec]
    | err e ups =>
      refine ⟨?_, ?_, ?_⟩
      · intro u ups' h'; cases h'
      · intro e' ups' h'; cases h'
        cases variant <;> cases sr <;> cases fh <;> simp [hr, hb, hs, hec]
      · cases variant <;> cases sr <;> cases fh <;> simp [hr, hb, hs, hec]
  | true =>
    have hc : cached = none ∨ ∃ e E, cached = some (e, E) ∧ Gen.isExpired E a.now = true := by
      rcases hnc with h | h | h
      · rw [hec] at h; cases h
      · exact Or.inl h
      · exact Or.inr h
    cases hb : a.build with
    | ok u ups =>
      refine ⟨?_, ?_, ?_⟩
      · intro u' ups' h'; cases h'
        rcases hc with hc | ⟨e0, E0, hc, hx⟩ <;> subst hc <;> cases variant <;> cases sr <;> simp [hr, hb, hs, hec, *]
      · intro e ups' h'; cases h'
      · rcases hc with hc | ⟨e0, E0, hc, hx⟩ <;> subst hc <;> cases variant <;> cases sr <;> simp [hr, hb, hs, hec, *]
    | err e ups =>
      refine ⟨?_, ?_, ?_⟩
      · intro u ups' h'; cases h'
      · intro e' ups' h'; cases h'
        rcases hc with hc | ⟨e0, E0, hc, hx⟩ <;> subst hc <;> cases variant <;> cases sr <;> cases fh <;> simp [hr, hb, hs, hec, *]
      · rcases hc with hc | ⟨e0, E0, hc, hx⟩ <;> subst hc <;> cases variant <;> cases sr <;> cases fh <;> simp [hr, hb, hs, hec, *]

/-- The failure cache decides nothing here. -/
theorem noCached_cases {c : FCfg} {cached : Option (Err × Time)} {now : Time} (h : NoCachedFailure c cached now) :
    c.errCache = false ∨ (c.errCache = true ∧ cached = none) ∨
    (c.errCache = true ∧ ∃ e E, cached = some (e, E) ∧ Gen.isExpired E now = true) := by
  cases hec : c.errCache
  · exact Or.inl rfl
  · rcases h with h | h | h
    · rw [hec] at h; cases h
    · exact Or.inr (Or.inl ⟨rfl, h⟩)
    · exact Or.inr (Or.inr ⟨rfl, h⟩)

set_option maxHeartbeats 1600000 in
/-- An acceptable stale value (expired within MaxStaleness), background mode: it is re-stored with UpdateTTL and returned
    IMMEDIATELY — the Get has returned by the time the builder is invoked (`bg`, detached builder context) — whatever the
    builder does afterwards. -/
theorem C03_stale_served_bg_build (c : FCfg) (a : LoneEnv) (key : Key) (cached : Option (Err × Time)) (v : Val) (since : Int)
    (hr : a.read = .stale v since) (hf : c.freshEnough since = true) (hsu : c.syncUpdate = false)
    (hw : a.refreshWrite = .ok) (hnc : NoCachedFailure c cached a.now) :
    ((loneGet c a key false cached).th 0).returned = some ⟨some v, none⟩ ∧
    ((loneGet c a key false cached).th 0).bg = true ∧ ((loneGet c a key false cached).th 0).detached = true ∧
    (loneGet c a key false cached).g.buildCalls = 1 ∧ (loneGet c a key false cached).g.refreshed = 1 ∧
    (0, Req.write key v c.updateTTL) ∈ (loneGet c a key false cached).g.requests := by
  have hnc' := noCached_cases hnc
  obtain ⟨variant, su, sr, fh, ms, fut, ut⟩ := c
  simp only at hsu; subst hsu
  rcases hnc' with hec | ⟨hec, hc⟩ | ⟨hec, e0, E0, hc, hx⟩ <;> (try subst hc) <;>
    cases hb : a.build <;> cases hsw : a.storeWrite <;> cases variant <;> cases sr <;> cases fh <;> simp [*]

set_option maxHeartbeats 1600000 in
/-- An acceptable stale value with SyncUpdate: the Get waits for the build; success returns the NEW value, failure returns
    the stale value — unless FailHard, then the builder error. -/
theorem C03_stale_sync_update (c : FCfg) (a : LoneEnv) (key : Key) (cached : Option (Err × Time)) (v : Val) (since : Int)
    (hr : a.read = .stale v since) (hf : c.freshEnough since = true) (hsu : c.syncUpdate = true)
    (hw : a.refreshWrite = .ok) (hs : a.storeWrite = .ok) (hnc : NoCachedFailure c cached a.now) :
    (∀ u ups, a.build = .ok u ups → ((loneGet c a key false cached).th 0).returned = some ⟨some u, none⟩) ∧
    (∀ e ups, a.build = .err e ups →
      ((loneGet c a key false cached).th 0).returned = some (if c.failHard then ⟨none, some e⟩ else ⟨some v, none⟩)) ∧
    ((loneGet c a key false cached).th 0).bg = false ∧ (loneGet c a key false cached).g.buildCalls = 1 := by
  have hnc' := noCached_cases hnc
  obtain ⟨variant, su, sr, fh, ms, fut, ut⟩ := c
  simp only at hsu; subst hsu
  refine ⟨?_, ?_, ?_⟩
  · intro u ups hb
    rcases hnc' with hec | ⟨hec, hc⟩ | ⟨hec, e0, E0, hc, hx⟩ <;> (try subst hc) <;>
      cases variant <;> cases sr <;> cases fh <;> simp [*]
  · intro e ups hb
    rcases hnc' with hec | ⟨hec, hc⟩ | ⟨hec, e0, E0, hc, hx⟩ <;> (try subst hc) <;>
      cases variant <;> cases sr <;> cases fh <;> simp [*]
  · rcases hnc' with hec | ⟨hec, hc⟩ | ⟨hec, e0, E0, hc, hx⟩ <;> (try subst hc) <;>
      cases hb : a.build <;> cases variant <;> cases sr <;> cases fh <;> simp [*]

set_option maxHeartbeats 1600000 in
/-- A value expired longer than MaxStaleness: never served while its rebuild succeeds — the Get blocks on the build and
    returns the new value; if the build fails the stale value is served regardless of MaxStaleness, unless FailHard. No
    refresh-write happens. -/
theorem C03_too_stale_blocks_on_build (c : FCfg) (a : LoneEnv) (key : Key) (cached : Option (Err × Time)) (v : Val) (since : Int)
    (hr : a.read = .stale v since) (hf : c.freshEnough since = false)
    (hs : a.storeWrite = .ok) (hnc : NoCachedFailure c cached a.now) :
    (∀ u ups, a.build = .ok u ups → ((loneGet c a key false cached).th 0).returned = some ⟨some u, none⟩) ∧
    (∀ e ups, a.build = .err e ups →
      ((loneGet c a key false cached).th 0).returned = some (if c.failHard then ⟨none, some e⟩ else ⟨some v, none⟩)) ∧
    ((loneGet c a key false cached).th 0).bg = false ∧ (loneGet c a key false cached).g.buildCalls = 1 ∧
    (loneGet c a key false cached).g.refreshed = 0 := by
  have hnc' := noCached_cases hnc
  obtain ⟨variant, su, sr, fh, ms, fut, ut⟩ := c
  refine ⟨?_, ?_, ?_⟩
  · intro u ups hb
    rcases hnc' with hec | ⟨hec, hc⟩ | ⟨hec, e0, E0, hc, hx⟩ <;> (try subst hc) <;>
      cases variant <;> cases su <;> cases sr <;> cases fh <;> simp [*]
  · intro e ups hb
    rcases hnc' with hec | ⟨hec, hc⟩ | ⟨hec, e0, E0, hc, hx⟩ <;> (try subst hc) <;>
      cases variant <;> cases su <;> cases sr <;> cases fh <;> simp [*]
  · rcases hnc' with hec | ⟨hec, hc⟩ | ⟨hec, e0, E0, hc, hx⟩ <;> (try subst hc) <;>
      cases hb : a.build <;> cases variant <;> cases su <;> cases sr <;> cases fh <;> simp [*]

/-- A failure cached for the key (and not yet expired) short-circuits every Get that found no fresh value: the cached error is
    returned and the builder is NOT invoked (README: "all consecutive calls … fail immediately with same error"). -/
theorem C03_cached_failure_short_circuits (c : FCfg) (a : LoneEnv) (key : Key) (e : Err) (E : Time)
    (hr : (∃ v since, a.read = .stale v since ∧ c.freshEnough since = false) ∨ a.read = .miss)
    (hec : c.errCache = true) (hx : Gen.isExpired E a.now = false) :
    (∃ v, ((loneGet c a key false (some (e, E))).th 0).returned = some ⟨v, some e⟩) ∧
    (loneGet c a key false (some (e, E))).g.buildCalls = 0 := by
  obtain ⟨variant, su, sr, fh, ms, fut, ut⟩ := c
  rcases hr with ⟨v, since, hr, hf⟩ | hr <;>
    cases variant <;> cases su <;> cases sr <;> cases fh <;> simp [*]

/-- SkipRead forces a rebuild: the backend (honouring SkipRead) reports a miss and the failure cache is bypassed, so the
    builder runs even though a failure is cached; the result is stored. -/
theorem C03_skipread_bypasses_failure_cache (c : FCfg) (a : LoneEnv) (key : Key) (cached : Option (Err × Time)) (u : Val) (ups : List Int)
    (hr : a.read = .miss) (hb : a.build = .ok u ups) (hs : a.storeWrite = .ok) :
    ((loneGet c a key true cached).th 0).returned = some ⟨some u, none⟩ ∧
    (0, Req.write key u 0) ∈ (loneGet c a key true cached).g.requests := by
  obtain ⟨variant, su, sr, fh, ms, fut, ut⟩ := c
  cases cached <;> cases variant <;> cases sr <;> simp [*]

/-- The outcome is a function of the cell (entry state as answered by the backend, failure cache, flags, builder result):
    `loneGet` is a function; two runs on the same cell agree. -/
theorem C03_outcome_is_function_of_cell (c : FCfg) (a a' : LoneEnv) (key : Key) (skip : Bool) (cached : Option (Err × Time))
    (h : a = a') : loneGet c a key skip cached = loneGet c a' key skip cached := by rw [h]

/-! ### Non-vacuity: one concrete cell per clause -/
example : ((loneGet demoCfg03 { read := .stale 5 10, build := .ok 9 [] } 7 false none).th 0).returned = some ⟨some 5, none⟩ := by decide
example : ((loneGet { demoCfg03 with syncUpdate := true } { read := .stale 5 10, build := .err 3 [] } 7 false none).th 0).returned
    = some ⟨some 5, none⟩ := by decide
example : ((loneGet { demoCfg03 with syncUpdate := true, failHard := true } { read := .stale 5 10, build := .err 3 [] } 7 false none).th 0).returned
    = some ⟨none, some 3⟩ := by decide
example : ((loneGet { demoCfg03 with maxStaleness := 5 } { read := .stale 5 10, build := .ok 9 [] } 7 false none).th 0).returned
    = some ⟨some 9, none⟩ := by decide
example : ((loneGet demoCfg03 { read := .miss, now := 100, build := .ok 9 [] } 7 false (some (4, 500))).th 0).returned
    = some ⟨none, some 4⟩ := by decide

end Cache
