import CacheProofs.Props.C13

/-
  C14 — HTTP transfer imports exactly what was exported and refuses mismatched types; the types hash depends only on
  the SET of registered types.

  `net/http`, `encoding/gob` and `reflect` are trusted; the per-type fingerprint `fp` (FNV-64 over the recursive type
  description) is an ARBITRARY function here — the theorems hold for every fingerprint function, and the correspondence
  run checks in fresh processes that the real one is deterministic.
-/
namespace Cache
open Std

/-- XOR of the fingerprints of a list of types. -/
def xorAll (fp : Nat → BitVec 64) (ts : List Nat) : BitVec 64 := ts.foldr (fun t acc => fp t ^^^ acc) 0#64

theorem xorAll_perm (fp : Nat → BitVec 64) {a b : List Nat} (h : a.Perm b) : xorAll fp a = xorAll fp b := by
  induction h with
  | nil => rfl
  | cons x _ ih => simp [xorAll] at ih ⊢; rw [ih]
  | swap x y l =>
    simp only [xorAll, List.foldr_cons]
    rw [← BitVec.xor_assoc, ← BitVec.xor_assoc, BitVec.xor_comm (fp y) (fp x)]
  | trans _ _ ih1 ih2 => rw [ih1, ih2]

/-- Invariant of the registration fold: `seen` has no duplicates and the hash is the XOR over `seen`. -/
theorem register_inv (fp : Nat → BitVec 64) (regs : List Nat) : ∀ (r : GobReg),
    r.seen.Nodup → r.hash = xorAll fp r.seen →
    let r' := regs.foldl (GobReg.register fp) r
    r'.seen.Nodup ∧ r'.hash = xorAll fp r'.seen ∧ (∀ t, t ∈ r'.seen ↔ t ∈ r.seen ∨ t ∈ regs) := by
  induction regs with
  | nil => intro r hn hh; simp [hn, hh]
  | cons t rest ih =>
    intro r hn hh
    simp only [List.foldl_cons]
    by_cases hs : r.seen.contains t = true
    · have hmem : t ∈ r.seen := by simpa using hs
      have hr : GobReg.register fp r t = r := by simp [GobReg.register, hmem]
      rw [hr]
      have := ih r hn hh
      refine ⟨this.1, this.2.1, ?_⟩
      intro t'
      rw [this.2.2 t']
      constructor
      · rintro (h | h)
        · exact Or.inl h
        · exact Or.inr (List.mem_cons_of_mem _ h)
      · rintro (h | h)
        · exact Or.inl h
        · rcases List.mem_cons.mp h with rfl | h
          · exact Or.inl hmem
          · exact Or.inr h
    · have hnot : t ∉ r.seen := by simpa using hs
      have hr : GobReg.register fp r t = { seen := t :: r.seen, hash := r.hash ^^^ fp t } := by
        simp [GobReg.register, hnot]
      rw [hr]
      have hn' : (t :: r.seen).Nodup := List.nodup_cons.mpr ⟨hnot, hn⟩
      have hh' : r.hash ^^^ fp t = xorAll fp (t :: r.seen) := by
        simp only [xorAll, List.foldr_cons] at hh ⊢
        rw [hh, BitVec.xor_comm]
      have := ih { seen := t :: r.seen, hash := r.hash ^^^ fp t } hn' hh'
      refine ⟨this.1, this.2.1, ?_⟩
      intro t'
      rw [this.2.2 t']
      simp only [List.mem_cons]
      constructor
      · rintro ((rfl | h) | h)
        · exact Or.inr (Or.inl rfl)
        · exact Or.inl h
        · exact Or.inr (Or.inr h)
      · rintro (h | rfl | h)
        · exact Or.inl (Or.inr h)
        · exact Or.inl (Or.inl rfl)
        · exact Or.inr h

/-- **C14_hash_set_invariant** — the types hash is a function of the SET of registered types: any two registration
    sequences with the same members (any order, any multiplicity) give the same hash. -/
theorem C14_hash_set_invariant (fp : Nat → BitVec 64) (r₁ r₂ : List Nat) (hset : ∀ t, t ∈ r₁ ↔ t ∈ r₂) :
    typesHash fp r₁ = typesHash fp r₂ := by
  have h1 := register_inv fp r₁ {} (by simp) (by simp [xorAll])
  have h2 := register_inv fp r₂ {} (by simp) (by simp [xorAll])
  simp only at h1 h2
  unfold typesHash
  rw [h1.2.1, h2.2.1]
  apply xorAll_perm
  rw [List.perm_ext_iff_of_nodup h1.1 h2.1]
  intro t
  rw [h1.2.2 t, h2.2.2 t]
  simp [hset t]

/-- Registering a type again changes nothing. -/
theorem C14_reregister_idempotent (fp : Nat → BitVec 64) (regs : List Nat) (t : Nat) (ht : t ∈ regs) :
    typesHash fp (regs ++ [t]) = typesHash fp regs := by
  apply C14_hash_set_invariant
  intro t'; simp only [List.mem_append, List.mem_singleton]
  constructor
  · rintro (h | rfl); exact h; exact ht
  · intro h; exact Or.inl h

/-- Adding a NEW type with a non-zero fingerprint changes the hash. -/
theorem C14_hash_changes_on_add (fp : Nat → BitVec 64) (regs : List Nat) (t : Nat) (hnew : t ∉ regs) (hfp : fp t ≠ 0#64) :
    typesHash fp (regs ++ [t]) ≠ typesHash fp regs := by
  have h1 := register_inv fp regs {} (by simp) (by simp [xorAll])
  simp only at h1
  unfold typesHash
  rw [List.foldl_append, List.foldl_cons, List.foldl_nil]
  have hnot : (regs.foldl (GobReg.register fp) {}).seen.contains t = false := by
    have : t ∉ (regs.foldl (GobReg.register fp) {}).seen := by
      rw [h1.2.2 t]; simp [hnew]
    simpa using this
  simp only [GobReg.register, hnot, Bool.false_eq_true, if_false]
  intro heq
  apply hfp
  have : (regs.foldl (GobReg.register fp) {}).hash ^^^ ((regs.foldl (GobReg.register fp) {}).hash ^^^ fp t) =
         (regs.foldl (GobReg.register fp) {}).hash ^^^ (regs.foldl (GobReg.register fp) {}).hash := by rw [heq]
  rw [← BitVec.xor_assoc, BitVec.xor_self, BitVec.zero_xor] at this
  exact this

variable (hash : Key → Nat)

/-- Import of one named cache: when the exporter knows the name and the type hashes agree, the importer's (empty) cache
    ends up with exactly the exporter's entries (by C13), in whatever order the dump produced them. -/
theorem C14_import_exact (src : Store) (hw : src.WF hash) (dump : List Entry) (hperm : dump.Perm src.walk)
    (hE hI : BitVec 64) (heq : hE = hI) :
    ∀ k, (importOne hash Store.empty true hE hI dump).get hash k = src.get hash k := by
  intro k
  simp only [importOne, heq, beq_self_eq_true, Bool.and_self, if_true]
  exact (C13_same_entries hash src hw dump hperm).1 k

/-- A types-hash mismatch, or a name the exporter does not know, imports nothing: the target is left untouched. -/
theorem C14_mismatch_imports_nothing (target : Store) (dump : List Entry) (has : Bool) (hE hI : BitVec 64)
    (h : has = false ∨ hE ≠ hI) :
    importOne hash target has hE hI dump = target := by
  unfold importOne
  rcases h with h | h
  · simp [h]
  · have : (hE == hI) = false := by simpa using h
    simp [this]

/-! ### Non-vacuity -/
example : typesHash (fun t => BitVec.ofNat 64 (t * 7919 + 13)) [3, 1, 2, 3, 1] =
          typesHash (fun t => BitVec.ofNat 64 (t * 7919 + 13)) [2, 2, 1, 3] := by decide
example : typesHash (fun t => BitVec.ofNat 64 (t * 7919 + 13)) [3, 1, 2, 4] ≠
          typesHash (fun t => BitVec.ofNat 64 (t * 7919 + 13)) [3, 1, 2] := by decide

end Cache
