import CacheProofs.Props.C08

/-
  C08 — the other direction of the checker: a "not linearizable" verdict is sound.

  `C08_verdict_sound` says a history the checker ACCEPTS is linearizable. The correspondence run raises a violation when the
  search comes back empty-handed, so the search must not miss a witness: `C08_search_complete` proves that whenever ANY
  real-time respecting order replays on the model, the bounded search returns a witness or reports that its node budget ran
  out (`inconclusive`, never an alarm) - it never answers "not found".
-/
namespace Cache.Linz

/-- x occurs at an earlier position of w than y. -/
def Before (w : List Nat) (x y : Nat) : Prop := ∃ ia ib : Nat, ia < ib ∧ w[ia]? = some x ∧ w[ib]? = some y

theorem not_before_head {i : Nat} {rest : List Nat} (hnd : (i :: rest).Nodup) (x : Nat) : ¬ Before (i :: rest) x i := by
  intro ⟨ia, ib, hlt, _, hb⟩
  cases ib with
  | zero => omega
  | succ ib =>
    rw [List.getElem?_cons_succ] at hb
    have : i ∈ rest := List.mem_of_getElem? hb
    exact (List.nodup_cons.mp hnd).1 this

theorem before_tail {i x y : Nat} {rest : List Nat} (hx : x ≠ i) (h : Before (i :: rest) x y) : Before rest x y := by
  obtain ⟨ia, ib, hlt, ha, hb⟩ := h
  cases ia with
  | zero => simp at ha; exact absurd ha.symm hx
  | succ ia =>
    cases ib with
    | zero => omega
    | succ ib =>
      rw [List.getElem?_cons_succ] at ha hb
      exact ⟨ia, ib, by omega, ha, hb⟩

theorem tryEach_ne_notFound (f : Event → Nat → SRes × Nat) (e : Event)
    (he : ∀ b, (f e b).1 ≠ .notFound) : ∀ (l : List Event) (b : Nat), e ∈ l → (tryEach f l b).1 ≠ .notFound := by
  intro l
  induction l with
  | nil => intro b h; cases h
  | cons x rest ih =>
    intro b hmem
    unfold tryEach
    by_cases hb : b = 0
    · simp [hb]
    · simp only [hb, if_false]
      cases hr : f x (b - 1) with
      | mk r b' =>
        cases r with
        | found w => simp
        | exhausted => simp
        | notFound =>
          simp only
          rcases List.mem_cons.mp hmem with h | h
          · subst h; exact absurd (by rw [hr]) (he (b - 1))
          · exact ih b' h

theorem find_id {evs : List Event} (hnd : (evs.map (·.id)).Nodup) {e : Event} (he : e ∈ evs) :
    evs.find? (·.id == e.id) = some e := by
  induction evs with
  | nil => cases he
  | cons x rest ih =>
    rw [List.map_cons] at hnd
    have hc := List.nodup_cons.mp hnd
    rcases List.mem_cons.mp he with h | h
    · subst h; simp [List.find?_cons]
    · have hne : x.id ≠ e.id := by
        intro heq
        exact hc.1 (heq ▸ List.mem_map.mpr ⟨e, h, rfl⟩)
      have hb : (x.id == e.id) = false := by simpa using hne
      rw [List.find?_cons, hb]
      exact ih hc.2 h

/-- **C08_search_complete** — if some order of the pending events respects real time and replays on the model, the bounded
    search does not answer "not found" (it finds a witness, or runs out of budget). -/
theorem C08_search_complete (evs : List Event) (hnd : (evs.map (·.id)).Nodup) :
    ∀ (fuel : Nat) (pending : List Event) (w : List Nat) (s : Store) (budget : Nat),
      pending.length < fuel →
      (∀ e ∈ pending, e ∈ evs) →
      w.Nodup → (∀ i, i ∈ w ↔ ∃ e ∈ pending, e.id = i) →
      (∀ a ∈ pending, ∀ b ∈ pending, a.ret < b.inv → Before w a.id b.id) →
      replay evs s w = true →
      (searchB fuel budget s pending).1 ≠ .notFound := by
  intro fuel
  induction fuel with
  | zero => intro pending w s budget hlen; omega
  | succ fuel ih =>
    intro pending w s budget hlen hsub hwnd hwmem hrt hrep
    cases pending with
    | nil => simp [searchB]
    | cons p0 prest =>
      -- the witness is not empty: p0's id is in it
      cases w with
      | nil =>
        have : p0.id ∈ ([] : List Nat) := (hwmem p0.id).mpr ⟨p0, List.mem_cons_self .., rfl⟩
        cases this
      | cons i rest =>
        obtain ⟨e, hepend, heid⟩ := (hwmem i).mp (List.mem_cons_self ..)
        have heevs : e ∈ evs := hsub e hepend
        -- what the replay says about the first event
        have hfind : evs.find? (·.id == i) = some e := heid ▸ find_id hnd heevs
        unfold replay at hrep
        rw [hfind] at hrep
        simp only [Bool.and_eq_true, beq_iff_eq] at hrep
        obtain ⟨hres, hrep'⟩ := hrep
        -- e is minimal: nothing pending precedes it in real time
        have hmin : e ∈ (p0 :: prest).filter (fun e' => (p0 :: prest).all fun p => p.id == e'.id || !(p.ret < e'.inv)) := by
          rw [List.mem_filter]
          refine ⟨hepend, ?_⟩
          rw [List.all_eq_true]
          intro p hp
          by_cases hlt : p.ret < e.inv
          · exact absurd (heid ▸ hrt p hp e hepend hlt) (not_before_head hwnd p.id)
          · simp [hlt]
        unfold searchB
        apply tryEach_ne_notFound _ e _ _ _ hmin
        intro b
        simp only
        have hbeq : ((apply s e.op).2 == e.res) = true := by rw [hres]; exact beq_self_eq_true _
        rw [hbeq]
        simp only [if_true]
        -- the recursive call cannot answer "not found" by the induction hypothesis
        have hrec : (searchB fuel b (apply s e.op).1 ((p0 :: prest).filter (·.id != e.id))).1 ≠ .notFound := by
          apply ih ((p0 :: prest).filter (·.id != e.id)) rest (apply s e.op).1 b
          · have hlt : ((p0 :: prest).filter (·.id != e.id)).length < (p0 :: prest).length := by
              apply List.length_filter_lt_length_iff_exists.mpr
              exact ⟨e, hepend, by simp⟩
            omega
          · intro x hx; exact hsub x (List.mem_filter.mp hx).1
          · exact (List.nodup_cons.mp hwnd).2
          · intro j
            constructor
            · intro hj
              obtain ⟨x, hxp, hxid⟩ := (hwmem j).mp (List.mem_cons_of_mem _ hj)
              refine ⟨x, List.mem_filter.mpr ⟨hxp, ?_⟩, hxid⟩
              have : j ≠ i := fun h => (List.nodup_cons.mp hwnd).1 (h ▸ hj)
              simp only [bne_iff_ne, ne_eq]
              rw [hxid, heid]; exact this
            · intro ⟨x, hx, hxid⟩
              have hxp := (List.mem_filter.mp hx).1
              have hne : x.id ≠ e.id := by simpa using (List.mem_filter.mp hx).2
              have hjw : j ∈ i :: rest := (hwmem j).mpr ⟨x, hxp, hxid⟩
              rcases List.mem_cons.mp hjw with h | h
              · exact absurd (by rw [hxid, h, heid]) hne
              · exact h
          · intro a ha b' hb' hlt
            have hap := (List.mem_filter.mp ha).1
            have hbp := (List.mem_filter.mp hb').1
            have hane : a.id ≠ i := by
              have : a.id ≠ e.id := by simpa using (List.mem_filter.mp ha).2
              rw [heid] at this; exact this
            exact before_tail hane (hrt a hap b' hbp hlt)
          · exact hrep'
        cases hr : searchB fuel b (apply s e.op).1 ((p0 :: prest).filter (·.id != e.id)) with
        | mk r b2 =>
          rw [hr] at hrec
          cases r with
          | found w' => simp
          | exhausted => simp
          | notFound => exact absurd rfl hrec

/-- **C08_notlin_verdict_sound** — the driver reports "not linearizable" only when the search answers "not found"; for a
    linearizable history with distinct event ids that cannot happen. -/
theorem C08_notlin_verdict_sound (init : Store) (evs : List Event) (hnd : (evs.map (·.id)).Nodup)
    (w : List Nat) (hw : checkWitness init evs w = true) (budget : Nat) :
    (searchB (evs.length + 1) budget init evs).1 ≠ .notFound := by
  unfold checkWitness at hw
  simp only [Bool.and_eq_true, beq_iff_eq, decide_eq_true_eq, List.all_eq_true, List.contains_iff_mem] at hw
  obtain ⟨⟨⟨⟨hlen, hwnd⟩, hmem⟩, hrt⟩, hrep⟩ := hw
  apply C08_search_complete evs hnd (evs.length + 1) evs w init budget (Nat.lt_succ_self _) (fun e he => he) hwnd
  · -- w is a permutation of the ids: same length, no duplicates, every id present
    intro i
    constructor
    · intro hi
      -- pigeonhole: the ids of evs are |w| distinct members of w
      have hsub : ∀ x ∈ evs.map (·.id), x ∈ w := by
        intro x hx
        obtain ⟨e, he, rfl⟩ := List.mem_map.mp hx
        exact hmem e he
      have hin : i ∈ evs.map (·.id) := by
        apply Classical.byContradiction
        intro hni
        have hsub' : evs.map (·.id) ⊆ w.erase i := by
          intro x hx
          have hxi : x ≠ i := fun h => hni (h ▸ hx)
          exact (List.mem_erase_of_ne hxi).2 (hsub x hx)
        have h1 := List.Nodup.length_le_of_subset hnd hsub'
        have h2 : (w.erase i).length = w.length - 1 := by rw [List.length_erase]; simp [hi]
        have h3 : 1 ≤ w.length := List.length_pos_of_mem hi
        simp only [List.length_map] at h1
        omega
      obtain ⟨e, he, rfl⟩ := List.mem_map.mp hin
      exact ⟨e, he, rfl⟩
    · intro ⟨e, he, heid⟩; exact heid ▸ hmem e he
  · intro a ha b hb hlt
    unfold respectsRealTime at hrt
    simp only [List.all_eq_true, Bool.or_eq_true, Bool.not_eq_true', decide_eq_false_iff_not] at hrt
    rcases hrt a ha b hb with h1 | h1
    · exact absurd hlt h1
    · cases hia : w.idxOf? a.id <;> cases hib : w.idxOf? b.id <;> simp [hia, hib] at h1
      rename_i ia ib
      unfold List.idxOf? at hia hib
      obtain ⟨ha1, ha2, _⟩ := List.findIdx?_eq_some_iff_getElem.mp hia
      obtain ⟨hb1, hb2, _⟩ := List.findIdx?_eq_some_iff_getElem.mp hib
      refine ⟨ia, ib, h1, ?_, ?_⟩
      · rw [List.getElem?_eq_getElem ha1]; simpa using ha2
      · rw [List.getElem?_eq_getElem hb1]; simpa using hb2
  · exact hrep

end Cache.Linz
