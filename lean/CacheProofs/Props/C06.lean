import CacheProofs.Props.C03
import CacheModel.Construct

/-
  C06 — TTL and context travel through Failover as documented.

  * `WithTTL(ctx, ttl, true)` on an existing cell (`ttlUpdate`, built from the kernel regenerated from context.go): folding
    any updates into a cell yields the least non-zero ttl — order-independent, idempotent.
  * The final store of a build carries the caller's cell (backend default when there is none), lowered by the builder's
    updates; the temporary re-store of a stale value carries UpdateTTL in a NEW cell and leaves the caller's cell alone;
    the failure is cached under a context whose ttl is reset.
  * A background build runs under the detached context (not cancelled, no deadline, parent's values); a synchronous build
    under the caller's.
-/
namespace Cache

/-- The least non-zero element of a list (0 when there is none): what "minimal non-zero value is kept" means. -/
def minNZ : List Int → Int
  | [] => 0
  | x :: xs => let m := minNZ xs; if x = 0 then m else if m = 0 then x else if x < m then x else m

theorem ttlUpdate_def (e t : Int) : ttlUpdate e t = if t ≠ 0 ∧ (e = 0 ∨ e > t) then t else e := by
  unfold ttlUpdate Gen.withTTLShouldUpdate
  by_cases h1 : t = 0 <;> by_cases h2 : e = 0 <;> by_cases h3 : e > t <;> simp [h1, h2, h3]

/-- Two updates commute: the parties' ttl requirements can arrive in any order. -/
theorem C06_update_commutes (c a b : Int) : ttlUpdate (ttlUpdate c a) b = ttlUpdate (ttlUpdate c b) a := by
  simp only [ttlUpdate_def]
  by_cases h1 : a = 0 <;> by_cases h2 : b = 0 <;> by_cases h3 : c = 0 <;>
    by_cases h4 : c > a <;> by_cases h5 : c > b <;> by_cases h6 : a > b <;> by_cases h7 : b > a <;>
    simp [*] <;> omega

/-- Repeating an update changes nothing. -/
theorem C06_update_idempotent (c a : Int) : ttlUpdate (ttlUpdate c a) a = ttlUpdate c a := by
  simp only [ttlUpdate_def]
  by_cases h1 : a = 0 <;> by_cases h3 : c = 0 <;> by_cases h4 : c > a <;> simp [*]

/-- **C06_withTTL_keeps_min_nonzero** — folding updates `u₁ … uₙ` into a cell holding `c₀` leaves the least non-zero
    element of `{c₀, u₁, …, uₙ}` (0 if all are 0). In particular an update with 0 never erases a ttl. -/
theorem C06_withTTL_keeps_min_nonzero (us : List Int) : ∀ c0 : Int, us.foldl ttlUpdate c0 = minNZ (c0 :: us) := by
  induction us with
  | nil => intro c0; simp [minNZ]
  | cons u rest ih =>
    intro c0
    rw [List.foldl_cons, ih]
    simp only [minNZ, ttlUpdate_def]
    obtain ⟨m, hm⟩ : ∃ m, minNZ rest = m := ⟨_, rfl⟩
    simp only [hm]
    by_cases h1 : u = 0 <;> by_cases h2 : c0 = 0 <;> by_cases h3 : m = 0 <;> by_cases h4 : c0 > u <;>
      by_cases h5 : u < m <;> by_cases h6 : c0 < m <;> simp [*] <;> omega

/-- The final store of a successful build carries the caller's cell lowered by the builder's updates; no cell ⇒ ttl 0 ⇒
    the backend default, and the builder cannot change that (documented behaviour of WithTTL). -/
theorem C06_final_store_ttl (c : FCfg) (s s' : FState) (t : Nat) (v : Val) (ups : List Int)
    (h : step c s (.buildAns t (.ok v ups)) = some s') :
    s'.g.requests.head? = some (t, Req.write (s.th t).key v
      (match (s.th t).cell with | some c0 => minNZ (c0 :: ups) | none => 0)) ∧
    (s'.th t).cell = (s.th t).cell.map (fun c0 => minNZ (c0 :: ups)) := by
  simp only [step] at h
  split at h
  · cases h
  · cases h
    cases hc : (s.th t).cell <;> simp [FState.req, FState.setTh, Thread.storeTTL, hc, C06_withTTL_keeps_min_nonzero]

/-- The temporary re-store of a stale value: ttl = UpdateTTL, in a cell of its own — the caller's cell (hence the ttl of the
    final store) is untouched. -/
theorem C06_refresh_uses_update_ttl (c : FCfg) (s s' : FState) (t : Nat) (v : Val) (since : Int)
    (hpc : (s.th t).pc = .classify) (ho : (s.th t).owner = true) (hr : (s.th t).readRes = .stale v since)
    (hf : c.freshEnough since = true) (h : step c s (.local t) = some s') :
    s'.g.requests.head? = some (t, Req.write (s.th t).key v c.updateTTL) ∧ (s'.th t).cell = (s.th t).cell ∧
    (s'.th t).pc = .refreshing := by
  simp only [step, hpc, ho, hr, hf] at h
  cases hv : c.variant <;> simp [FCfg.refreshUpdateExisting, hv, Gen.refreshUpdateExisting, Gen.refreshUpdateExistingOf] at h <;>
    cases h <;> simp [FState.req, FState.setTh]

/-- The failure cache write happens under a context whose ttl was reset: the cached failure gets FailedUpdateTTL, never
    the caller's per-call ttl. -/
theorem C06_failure_ttl_reset (c : FCfg) (s s' : FState) (t : Nat) (E : Time) (e : Err)
    (hpc : (s.th t).pc = .storeErr e) (h : step c s (.errsWrite t E) = some s') :
    s'.g.requests.head? = some (t, Req.errWrite (s.th t).key e 0) := by
  simp only [step, hpc] at h
  cases h
  cases hv : c.variant <;> simp [FState.req, FState.setTh, FCfg.errsWriteResetsTTL, hv, Gen.errsWriteResetsTTL, Gen.errsWriteResetsTTLOf]

/-- A detached context is never cancelled or deadlined, whatever happens to its parent, and still exposes its values. -/
theorem C06_detached_context (p : CtxView) :
    (detach p).cancellable = false ∧ (detach p).err = none ∧ (detach p).deadline = none ∧ (detach p).value = p.value := by
  simp [detach, Gen.detachedNeverDone, Gen.detachedNoErr, Gen.detachedNoDeadline, Gen.detachedForwardsValues]

/-- The context a background build runs under (both frontends): not cancellable, no error, no deadline - whatever the caller's
    context carries or later becomes - and the caller's values. -/
theorem C06_bg_build_context (v : Variant) (caller : CtxView) :
    (bgBuildCtx v caller).cancellable = false ∧ (bgBuildCtx v caller).err = none ∧
    (bgBuildCtx v caller).deadline = none ∧ (bgBuildCtx v caller).value = caller.value := by
  have h : bgBuildCtx v caller = detach caller := by
    cases v <;> simp [bgBuildCtx, ctxSyncDetaches, Gen.ctxSyncDetaches, Gen.ctxSyncDetachesOf]
  rw [h]; exact C06_detached_context caller

/-- The builder runs under the detached context exactly when the Get has already returned (background update); a
    synchronous build gets the caller's own context. -/
theorem C06_bg_ctx_detached (c : FCfg) (s s' : FState) (t : Nat) (hpc : (s.th t).pc = .decideSync)
    (h : step c s (.local t) = some s') :
    (s'.th t).pc = .building ∧
    s'.g.requests.head? = some (t, Req.build (s.th t).key (s'.th t).detached) ∧
    ((s'.th t).detached = true → (s'.th t).bg = true ∧ (s'.th t).returned = some ⟨(s.th t).stale, none⟩) ∧
    ((s'.th t).detached = false → (s'.th t).returned = (s.th t).returned ∧ (s'.th t).bg = (s.th t).bg) := by
  simp only [step, hpc] at h
  split at h <;> cases h <;> simp [FState.req, FState.setTh]

/-- SkipRead forces a rebuild whose result is still stored (the lone-Get form is `C03_skipread_bypasses_failure_cache`). -/
theorem C06_skipread_rebuilds_and_stores (c : FCfg) (a : LoneEnv) (key : Key) (cached : Option (Err × Time)) (u : Val) (ups : List Int)
    (hr : a.read = .miss) (hb : a.build = .ok u ups) (hs : a.storeWrite = .ok) :
    ((loneGet c a key true cached).th 0).returned = some ⟨some u, none⟩ ∧
    (0, Req.write key u 0) ∈ (loneGet c a key true cached).g.requests :=
  C03_skipread_bypasses_failure_cache c a key cached u ups hr hb hs

/-! ### Non-vacuity -/
example : [300, 0, 120, 600].foldl ttlUpdate 0 = 120 ∧ [0].foldl ttlUpdate 5000 = 5000 ∧ [-1].foldl ttlUpdate 5000 = -1 := by decide

end Cache
