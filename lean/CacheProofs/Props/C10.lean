import CacheProofs.Lemmas.Backend
import CacheModel.DriverBackend

/-
  C10 — every entry's expiry lies within the documented TTL bounds.

  `T` = effective ttl (context ttl if non-zero, else configured TimeToLive), `J = jn/jd ∈ (0,1]` the jitter,
  `r = rn/rd ∈ [0,1)` the random number (an arbitrary input).  The stored expiry is
  `E = now + T + δ` with `δ = trunc(T·J·(r − ½))`; the theorems bound `δ` by `|T|·J/2`, show jitter can never turn a
  finite ttl into "never expires", and fix the read boundary.  float64 evaluation of the product is idealised by
  exact rationals (trusted base); the correspondence run measures the real code against these bounds.
-/
namespace Cache
open Std

/-- Effective ttl before jitter. -/
def effTTL (cfg : Cfg) (ctxTTL : Int) : Int := if ctxTTL = 0 then cfg.ttl else ctxTTL

/-- With jitter disabled the ttl is exactly the context ttl if non-zero, else the configured one;
    an unlimited configuration with no context ttl yields no expiry at all. -/
theorem C10_effective_ttl (cfg : Cfg) (ctxTTL : Int) (rn rd : Nat) (hj : cfg.jn ≤ 0) (now : Time) :
    (ctxTTL = 0 ∧ cfg.ttl = -1 → expireAt (ttlOf cfg ctxTTL rn rd).1 now = 0) ∧
    (¬(ctxTTL = 0 ∧ cfg.ttl = -1) → effTTL cfg ctxTTL ≠ 0 →
        expireAt (ttlOf cfg ctxTTL rn rd).1 now = now + effTTL cfg ctxTTL) := by
  have hjo : Gen.jitterOn cfg.jn = false := by simp [Gen.jitterOn]; omega
  constructor
  · rintro ⟨h0, hu⟩
    simp [ttlOf, expireAt, Gen.ttlIsDefault, Gen.cfgIsUnlimited, Gen.expireAtNonZero, h0, hu]
  · intro hne hT
    unfold ttlOf expireAt effTTL at *
    by_cases h0 : ctxTTL = 0
    · have hu : cfg.ttl ≠ -1 := fun h => hne ⟨h0, h⟩
      simp [Gen.ttlIsDefault, Gen.cfgIsUnlimited, Gen.expireAtNonZero, h0, hu, hjo] at hT ⊢
      intro h; exact absurd h hT
    · simp [Gen.ttlIsDefault, Gen.cfgIsUnlimited, Gen.expireAtNonZero, h0, hjo]

/-- Unlimited ttl and no context ttl: no expiry whatever the jitter setting. -/
theorem C10_unlimited_never_expires (cfg : Cfg) (rn rd : Nat) (now : Time) (hu : cfg.ttl = -1) :
    expireAt (ttlOf cfg 0 rn rd).1 now = 0 := by
  simp [ttlOf, expireAt, Gen.ttlIsDefault, Gen.cfgIsUnlimited, Gen.expireAtNonZero, hu]

/-- The jitter displacement is at most `|T|·J/2` in absolute value: `2·jd·|δ| ≤ |T|·jn`. -/
theorem C10_jitter_bound (cfg : Cfg) (T : Int) (rn rd : Nat) (hjn : 0 < cfg.jn) (hjd : 0 < cfg.jd) (hr : rn < rd) :
    2 * cfg.jd * (jitterDelta cfg T rn rd).natAbs ≤ T.natAbs * cfg.jn.natAbs := by
  unfold jitterDelta
  rw [Int.natAbs_tdiv]
  have hq : ((2 : Int) * cfg.jd * rd).natAbs = 2 * cfg.jd * rd := by
    simp [Int.natAbs_mul]
  have hp : (T * cfg.jn * (2 * (rn : Int) - rd)).natAbs = T.natAbs * cfg.jn.natAbs * (2 * (rn : Int) - rd).natAbs := by
    simp [Int.natAbs_mul]
  rw [hq, hp]
  have hd : (2 * (rn : Int) - rd).natAbs ≤ rd := by omega
  have h1 : T.natAbs * cfg.jn.natAbs * (2 * (rn : Int) - rd).natAbs / (2 * cfg.jd * rd) * (2 * cfg.jd * rd)
      ≤ T.natAbs * cfg.jn.natAbs * (2 * (rn : Int) - rd).natAbs := Nat.div_mul_le_self _ _
  have h2 : T.natAbs * cfg.jn.natAbs * (2 * (rn : Int) - rd).natAbs ≤ T.natAbs * cfg.jn.natAbs * rd :=
    Nat.mul_le_mul_left _ hd
  have h3 := Nat.le_trans h1 h2
  have hrd : 0 < rd := by omega
  apply Nat.le_of_mul_le_mul_right _ hrd
  calc 2 * cfg.jd * (T.natAbs * cfg.jn.natAbs * (2 * (rn : Int) - rd).natAbs / (2 * cfg.jd * rd)) * rd
      = T.natAbs * cfg.jn.natAbs * (2 * (rn : Int) - rd).natAbs / (2 * cfg.jd * rd) * (2 * cfg.jd * rd) := by
        ac_rfl
    _ ≤ T.natAbs * cfg.jn.natAbs * rd := h3

/-- Jitter never turns a finite ttl into "never expires" (nor flips its sign): `|δ| < |T|` for `J ≤ 1`. -/
theorem C10_jitter_keeps_nonzero (cfg : Cfg) (T : Int) (rn rd : Nat) (hT : T ≠ 0)
    (hjn : 0 < cfg.jn) (hjd : 0 < cfg.jd) (hj1 : cfg.jn ≤ cfg.jd) (hr : rn < rd) :
    T + jitterDelta cfg T rn rd ≠ 0 := by
  have hb := C10_jitter_bound cfg T rn rd hjn hjd hr
  have hle : T.natAbs * cfg.jn.natAbs ≤ T.natAbs * cfg.jd := by
    apply Nat.mul_le_mul_left; omega
  have h2 : 2 * cfg.jd * (jitterDelta cfg T rn rd).natAbs ≤ cfg.jd * T.natAbs := by
    rw [Nat.mul_comm cfg.jd]; exact Nat.le_trans hb hle
  have h3 : 2 * (jitterDelta cfg T rn rd).natAbs ≤ T.natAbs := by
    apply Nat.le_of_mul_le_mul_left _ hjd
    calc cfg.jd * (2 * (jitterDelta cfg T rn rd).natAbs) = 2 * cfg.jd * (jitterDelta cfg T rn rd).natAbs := by
          ac_rfl
      _ ≤ cfg.jd * T.natAbs := h2
  omega

/-- **C10_bounds** — the stored expiry of a write at `now` with effective ttl `T ≠ 0` and jitter `J = jn/jd ∈ (0,1]`:
    it is non-zero and within `±|T|·J/2` of `now + T`. -/
theorem C10_bounds (cfg : Cfg) (ctxTTL : Int) (rn rd : Nat) (now : Time)
    (hne : ¬(ctxTTL = 0 ∧ cfg.ttl = -1)) (hT : effTTL cfg ctxTTL ≠ 0)
    (hjn : 0 < cfg.jn) (hjd : 0 < cfg.jd) (hj1 : cfg.jn ≤ cfg.jd) (hr : rn < rd) :
    let E := expireAt (ttlOf cfg ctxTTL rn rd).1 now
    E = now + effTTL cfg ctxTTL + jitterDelta cfg (effTTL cfg ctxTTL) rn rd ∧
    E ≠ now ∧
    2 * cfg.jd * (E - (now + effTTL cfg ctxTTL)).natAbs ≤ (effTTL cfg ctxTTL).natAbs * cfg.jn.natAbs := by
  have hjo : Gen.jitterOn cfg.jn = true := by simp [Gen.jitterOn]; omega
  have hk := C10_jitter_keeps_nonzero cfg (effTTL cfg ctxTTL) rn rd hT hjn hjd hj1 hr
  have hE : expireAt (ttlOf cfg ctxTTL rn rd).1 now
      = now + effTTL cfg ctxTTL + jitterDelta cfg (effTTL cfg ctxTTL) rn rd := by
    have hcond : (Gen.ttlIsDefault ctxTTL && Gen.cfgIsUnlimited cfg.ttl) = false := by
      simp only [Gen.ttlIsDefault, Gen.cfgIsUnlimited, Bool.and_eq_false_iff, beq_eq_false_iff_ne, ne_eq]
      by_cases h0 : ctxTTL = 0
      · right; exact fun h => hne ⟨h0, h⟩
      · left; exact h0
    have hTeq : (if Gen.ttlIsDefault ctxTTL = true then cfg.ttl else ctxTTL) = effTTL cfg ctxTTL := by
      simp [Gen.ttlIsDefault, effTTL]
    have hnz : Gen.expireAtNonZero (effTTL cfg ctxTTL + jitterDelta cfg (effTTL cfg ctxTTL) rn rd) = true := by
      simp only [Gen.expireAtNonZero, bne_iff_ne, ne_eq]; exact hk
    unfold ttlOf expireAt
    simp only [hcond, Bool.false_eq_true, if_false, hTeq, hjo, if_true, hnz]
    exact (Int.add_assoc _ _ _).symm
  refine ⟨hE, ?_, ?_⟩
  · rw [hE]; intro h; apply hk; omega
  · rw [hE]
    have : now + effTTL cfg ctxTTL + jitterDelta cfg (effTTL cfg ctxTTL) rn rd - (now + effTTL cfg ctxTTL)
        = jitterDelta cfg (effTTL cfg ctxTTL) rn rd := by omega
    rw [this]
    exact C10_jitter_bound cfg _ rn rd hjn hjd hr

/-- An entry without expiry is a hit at every instant. -/
theorem C10_never_expires (hash : Key → Nat) (kind : Kind) (cfg : Cfg) (s : Store) (hw : s.WF hash) (hk : KindOK hash kind)
    (k : Key) (e : Entry) (he : s.get hash k = some e) (h0 : e.E = 0) (now : Time) :
    (s.read hash kind cfg k false now).2.1 = .hit e.V := by
  rw [read_out hash cfg hw hk, he]; simp [h0]

/-- Reads up to and including the expiry instant return the value; reads after it return the expiry error whose
    `ExpiredAt` is the stored expiry — the very value `Walk` reports for the entry. -/
theorem C10_read_boundary (hash : Key → Nat) (kind : Kind) (cfg : Cfg) (s : Store) (hw : s.WF hash) (hk : KindOK hash kind)
    (k : Key) (e : Entry) (he : s.get hash k = some e) (hE : e.E ≠ 0) (now : Time) :
    (now ≤ e.E → (s.read hash kind cfg k false now).2.1 = .hit e.V) ∧
    (e.E < now → (s.read hash kind cfg k false now).2.1 = .expired e.V e.E) ∧
    e ∈ s.walk := by
  refine ⟨?_, ?_, (mem_walk_iff hash hw e).mpr (by rw [(Store.get_some hash he).2] at *; exact he)⟩
  · intro h; rw [read_out hash cfg hw hk, he]
    have : ¬ (e.E < now) := by omega
    simp [this]
  · intro h; rw [read_out hash cfg hw hk, he]; simp [hE, h]

/-- The interval test the correspondence run applies to every observed expiry (`Drv.admissibleE`) accepts every expiry
    the model can produce for a clock reading inside the bracket `[t0, t1]` — the check cannot raise a false alarm in exact arithmetic. -/
theorem C10_admissible_complete (cfg : Cfg) (ctxTTL : Int) (rn rd : Nat) (t0 t1 now : Time)
    (h0 : t0 ≤ now) (h1 : now ≤ t1)
    (hjd : 0 < cfg.jd) (hj1 : cfg.jn ≤ cfg.jd) (hr : rn < rd)
    (hT : ¬(ctxTTL = 0 ∧ cfg.ttl = -1) → effTTL cfg ctxTTL ≠ 0)
    -- the clock is further from the unix epoch than twice the ttl (else `now + ttl` could land on 0 = "never expires")
    (hpos : 2 * ((effTTL cfg ctxTTL).natAbs : Int) < t0) :
    Drv.admissibleE cfg ctxTTL t0 t1 (expireAt (ttlOf cfg ctxTTL rn rd).1 now) = true := by
  unfold Drv.admissibleE Drv.expiryBounds
  by_cases hne : ctxTTL = 0 ∧ cfg.ttl = -1
  · obtain ⟨h0', hu⟩ := hne
    simp [ttlOf, expireAt, Gen.ttlIsDefault, Gen.cfgIsUnlimited, Gen.expireAtNonZero, h0', hu]
  · have hT' := hT hne
    have hcond : (ctxTTL == 0 && cfg.ttl == -1) = false := by
      simp only [Bool.and_eq_false_iff, beq_eq_false_iff_ne, ne_eq]
      by_cases h0 : ctxTTL = 0
      · right; exact fun h => hne ⟨h0, h⟩
      · left; exact h0
    have hTeq : (if (ctxTTL == 0) = true then cfg.ttl else ctxTTL) = effTTL cfg ctxTTL := by
      simp [effTTL]
    simp only [hcond, Bool.false_eq_true, if_false, hTeq]
    by_cases hjn : 0 < cfg.jn
    · have hjo : Gen.jitterOn cfg.jn = true := by simp [Gen.jitterOn]; omega
      have ⟨hE, hnz, hb⟩ := C10_bounds cfg ctxTTL rn rd now hne hT' hjn hjd hj1 hr
      have hk := C10_jitter_keeps_nonzero cfg (effTTL cfg ctxTTL) rn rd hT' hjn hjd hj1 hr
      rw [if_pos (show cfg.jn > 0 from hjn)]
      rw [hE] at hb ⊢
      have hd : (now + effTTL cfg ctxTTL + jitterDelta cfg (effTTL cfg ctxTTL) rn rd - (now + effTTL cfg ctxTTL))
          = jitterDelta cfg (effTTL cfg ctxTTL) rn rd := by omega
      rw [hd] at hb
      -- |δ| ≤ |T|·jn / (2·jd)
      have hdiv : (jitterDelta cfg (effTTL cfg ctxTTL) rn rd).natAbs ≤ (effTTL cfg ctxTTL).natAbs * cfg.jn.natAbs / (2 * cfg.jd) := by
        rw [Nat.le_div_iff_mul_le (by omega)]
        rw [Nat.mul_comm]; exact hb
      have hI : ((jitterDelta cfg (effTTL cfg ctxTTL) rn rd).natAbs : Int)
          ≤ ((effTTL cfg ctxTTL).natAbs : Int) * (cfg.jn.natAbs : Int) / (2 * (cfg.jd : Int)) := by
        have := Int.ofNat_le.mpr hdiv
        simpa [Int.natCast_ediv, Int.natCast_mul] using this
      have hX : (0 : Int) ≤ ((effTTL cfg ctxTTL).natAbs : Int) / 2 ^ 40 := Int.ediv_nonneg (by omega) (by decide)
      simp only [Bool.and_eq_true, bne_iff_ne, ne_eq, decide_eq_true_eq]
      have h2 : 2 * ((jitterDelta cfg (effTTL cfg ctxTTL) rn rd).natAbs : Int) ≤ ((effTTL cfg ctxTTL).natAbs : Int) := by
        have := C10_jitter_keeps_nonzero cfg (effTTL cfg ctxTTL) rn rd hT' hjn hjd hj1 hr
        have hle : (effTTL cfg ctxTTL).natAbs * cfg.jn.natAbs ≤ (effTTL cfg ctxTTL).natAbs * cfg.jd := by
          apply Nat.mul_le_mul_left; omega
        have h3 : 2 * (jitterDelta cfg (effTTL cfg ctxTTL) rn rd).natAbs ≤ (effTTL cfg ctxTTL).natAbs := by
          apply Nat.le_of_mul_le_mul_left _ hjd
          calc cfg.jd * (2 * (jitterDelta cfg (effTTL cfg ctxTTL) rn rd).natAbs)
              = 2 * cfg.jd * (jitterDelta cfg (effTTL cfg ctxTTL) rn rd).natAbs := by ac_rfl
            _ ≤ (effTTL cfg ctxTTL).natAbs * cfg.jn.natAbs := hb
            _ ≤ (effTTL cfg ctxTTL).natAbs * cfg.jd := hle
            _ = cfg.jd * (effTTL cfg ctxTTL).natAbs := Nat.mul_comm _ _
        omega
      generalize ((effTTL cfg ctxTTL).natAbs : Int) * (cfg.jn.natAbs : Int) / (2 * (cfg.jd : Int)) = X at hI ⊢
      generalize ((effTTL cfg ctxTTL).natAbs : Int) / 2 ^ 40 = S at hX ⊢
      generalize jitterDelta cfg (effTTL cfg ctxTTL) rn rd = δ at hk hI h2 ⊢
      generalize effTTL cfg ctxTTL = T at hk hpos h2 ⊢
      refine ⟨⟨?_, ?_⟩, ?_⟩
      · omega
      · omega
      · omega
    · have hjo : Gen.jitterOn cfg.jn = false := by simp [Gen.jitterOn]; omega
      have hE : expireAt (ttlOf cfg ctxTTL rn rd).1 now = now + effTTL cfg ctxTTL := by
        have := (C10_effective_ttl cfg ctxTTL rn rd (by omega) now).2 hne hT'
        exact this
      rw [if_neg (show ¬ cfg.jn > 0 from hjn), hE]
      simp only [Bool.and_eq_true, bne_iff_ne, ne_eq, decide_eq_true_eq]
      generalize effTTL cfg ctxTTL = T at hT' hpos ⊢
      refine ⟨⟨?_, ?_⟩, ?_⟩ <;> omega

/-! ### Non-vacuity -/
example : let cfg : Cfg := { ttl := 1000, jn := 1, jd := 2, strategy := .mostExpired, deleteExpiredAfter := 1, countSoftLimit := 0, efn := 1, efd := 2 }
    expireAt (ttlOf cfg 0 9 10).1 5000 = 6200 ∧ expireAt (ttlOf cfg 0 0 10).1 5000 = 5750 ∧
    expireAt (ttlOf cfg (-400) 9 10).1 5000 = 4520 := by decide

end Cache
