import CacheProofs.Props.C04
import CacheProofs.Props.C02

/-
  C18 (Failover half) — cache_build, cache_failed, cache_refreshed account for every event exactly once.
  The counters are ghost fields of the machine, bumped at the positions where the code calls `stat.Add`
  (`cache_build`: the deferred Add at the exit of doBuild; `cache_failed`: when the builder returns an error;
  `cache_refreshed`: before the stale re-store).
-/
namespace Cache

/-- Is the thread inside `doBuild` (builder invoked, deferred `cache_build` not yet counted)? -/
def Pc.inDoBuild : Pc → Bool
  | .building | .storing _ | .storeErr _ => true
  | _ => false

def pendingBuilds (s : FState) (n : Nat) : Nat := ((List.range n).filter (fun t => (s.th t).pc.inDoBuild)).length

theorem pending_frame (s s' : FState) (n : Nat) (h : ∀ u, u < n → (s'.th u).pc.inDoBuild = (s.th u).pc.inDoBuild) :
    pendingBuilds s' n = pendingBuilds s n := by
  unfold pendingBuilds
  congr 1
  apply List.filter_congr
  intro u hu
  exact h u (List.mem_range.mp hu)

theorem pending_update (s s' : FState) (n t : Nat) (ht : t < n)
    (h : ∀ u, u ≠ t → s'.th u = s.th u) :
    pendingBuilds s' n + (if (s.th t).pc.inDoBuild then 1 else 0) = pendingBuilds s n + (if (s'.th t).pc.inDoBuild then 1 else 0) := by
  unfold pendingBuilds
  induction n with
  | zero => omega
  | succ n ih =>
    rw [List.range_succ, List.filter_append, List.filter_append, List.length_append, List.length_append]
    by_cases htn : t = n
    · subst htn
      have hfr : ((List.range t).filter (fun u => (s'.th u).pc.inDoBuild)) = ((List.range t).filter (fun u => (s.th u).pc.inDoBuild)) := by
        apply List.filter_congr
        intro u hu
        have : u ≠ t := by have := List.mem_range.mp hu; omega
        rw [h u this]
      rw [hfr]
      cases h1 : (s.th t).pc.inDoBuild <;> cases h2 : (s'.th t).pc.inDoBuild <;> simp [List.filter_cons, h1, h2]
    · have hlt : t < n := by omega
      have := ih hlt
      have hn : s'.th n = s.th n := h n (fun hh => htn hh.symm)
      simp only [List.filter_cons, List.filter_nil, hn]
      omega

def b2n (b : Bool) : Nat := if b then 1 else 0

@[simp] theorem noteRead_builds (s : FState) (k : Key) (a : ReadAns) : (s.noteRead k a).g.builds = s.g.builds := by cases a <;> rfl
@[simp] theorem noteRead_buildCalls (s : FState) (k : Key) (a : ReadAns) : (s.noteRead k a).g.buildCalls = s.g.buildCalls := by cases a <;> rfl
@[simp] theorem noteRead_failed (s : FState) (k : Key) (a : ReadAns) : (s.noteRead k a).g.failed = s.g.failed := by cases a <;> rfl
@[simp] theorem noteRead_buildErr (s : FState) (k : Key) (a : ReadAns) : (s.noteRead k a).g.buildErr = s.g.buildErr := by cases a <;> rfl
@[simp] theorem noteRead_refreshed (s : FState) (k : Key) (a : ReadAns) : (s.noteRead k a).g.refreshed = s.g.refreshed := by cases a <;> rfl
@[simp] theorem noteWrite_builds (s : FState) (k : Key) (a : WriteAns) : (s.noteWrite k a).g.builds = s.g.builds := by cases a <;> rfl
@[simp] theorem noteWrite_buildCalls (s : FState) (k : Key) (a : WriteAns) : (s.noteWrite k a).g.buildCalls = s.g.buildCalls := by cases a <;> rfl
@[simp] theorem noteWrite_failed (s : FState) (k : Key) (a : WriteAns) : (s.noteWrite k a).g.failed = s.g.failed := by cases a <;> rfl
@[simp] theorem noteWrite_buildErr (s : FState) (k : Key) (a : WriteAns) : (s.noteWrite k a).g.buildErr = s.g.buildErr := by cases a <;> rfl
@[simp] theorem noteWrite_refreshed (s : FState) (k : Key) (a : WriteAns) : (s.noteWrite k a).g.refreshed = s.g.refreshed := by cases a <;> rfl

/-- What one step does to the counters, relative to the stepping thread's position. -/
theorem acct_local (c : FCfg) (s s' : FState) (l : FLabel) (h : step c s l = some s') :
    s'.g.builds + b2n (s'.th l.thread).pc.inDoBuild + s.g.buildCalls = s.g.builds + b2n (s.th l.thread).pc.inDoBuild + s'.g.buildCalls ∧
    s'.g.failed + s.g.buildErr.length = s.g.failed + s'.g.buildErr.length := by
  cases l with
  | begin t key skip cell =>
    simp only [step] at h
    split at h
    · cases h
    · rename_i hpc
      have hidle : (s.th t).pc = .idle := by simpa using hpc
      split at h <;> cases h <;> simp [FLabel.thread, Pc.inDoBuild, b2n, hidle, FState.req, FState.setTh]
  | readAns t a =>
    simp only [step] at h
    split at h
    · rename_i hpc
      split at h <;> cases h <;> simp [FLabel.thread, Pc.inDoBuild, b2n, hpc, FState.finishThread, FState.setTh]
    · rename_i hpc
      split at h <;> cases h
      · simp only [FLabel.thread, hpc, Pc.inDoBuild, b2n]
        split <;> simp [FState.finishThread, FState.setTh, FState.publishRelease, FState.release, FState.setKL, Pc.inDoBuild]
      · simp [FLabel.thread, Pc.inDoBuild, b2n, hpc, FState.setTh]
    · cases h
  | elect t =>
    simp only [step] at h
    split at h
    · cases h
    · rename_i hpc
      have hw : (s.th t).pc = .wantLock := by simpa using hpc
      split at h <;> cases h <;> (cases hk : s.keyLocks (s.th t).key <;>
        simp [FLabel.thread, Pc.inDoBuild, b2n, hw, hk, FState.req, FState.setTh, *])
  | «local» t =>
    simp only [step] at h
    split at h
    · rename_i hpc
      split at h
      · split at h
        · split at h <;> cases h <;> simp [FLabel.thread, Pc.inDoBuild, b2n, hpc, FState.finishThread, FState.setTh]
        · split at h <;> cases h <;> simp [FLabel.thread, Pc.inDoBuild, b2n, hpc, FState.finishThread, FState.setTh]
        · cases h; simp [FLabel.thread, Pc.inDoBuild, b2n, hpc, FState.setTh]
      · split at h
        · split at h <;> cases h
          · simp [FLabel.thread, Pc.inDoBuild, b2n, hpc, FState.req, FState.setTh]
          · simp [FLabel.thread, Pc.inDoBuild, b2n, hpc, FState.setTh]
        · split at h <;> cases h <;> simp [FLabel.thread, Pc.inDoBuild, b2n, hpc, FState.finishThread, FState.setTh, FState.publishRelease, FState.release, FState.setKL]
        · cases h; simp [FLabel.thread, Pc.inDoBuild, b2n, hpc, FState.setTh]
    · rename_i hpc
      split at h <;> cases h <;> simp [FLabel.thread, Pc.inDoBuild, b2n, hpc, FState.req, FState.setTh] <;> (try omega)
    · rename_i r hpc
      split at h <;> cases h <;> simp [FLabel.thread, Pc.inDoBuild, b2n, hpc, FState.finishThread, FState.setTh, FState.publishRelease, FState.release, FState.setKL]
    · cases h
  | writeAns t a =>
    simp only [step] at h
    split at h
    · rename_i hpc
      split at h <;> cases h <;> simp [FLabel.thread, Pc.inDoBuild, b2n, hpc, FState.finishThread, FState.setTh, FState.publishRelease, FState.release, FState.setKL]
    · rename_i v hpc
      split at h <;> cases h <;> simp [FLabel.thread, Pc.inDoBuild, b2n, hpc, FState.setTh] <;> (try omega)
    · cases h
  | errsRead t now =>
    simp only [step] at h
    split at h
    · cases h
    · rename_i hpc
      have hp : (s.th t).pc = .checkErrs := by simpa using hpc
      split at h <;> cases h <;> simp [FLabel.thread, Pc.inDoBuild, b2n, hp, FState.finishThread, FState.setTh, FState.publishRelease, FState.release, FState.setKL]
  | buildAns t a =>
    simp only [step] at h
    split at h
    · cases h
    · rename_i hpc
      have hp : (s.th t).pc = .building := by simpa using hpc
      split at h
      · cases h; simp [FLabel.thread, Pc.inDoBuild, b2n, hp, FState.req, FState.setTh]
      · split at h <;> cases h <;> simp [FLabel.thread, Pc.inDoBuild, b2n, hp, FState.setTh] <;> (try omega)
  | errsWrite t E =>
    simp only [step] at h
    split at h
    · rename_i e hpc
      cases h; simp [FLabel.thread, Pc.inDoBuild, b2n, hpc, FState.req, FState.setTh]; try omega
    · cases h
  | wake t =>
    simp only [step] at h
    split at h
    · cases h
    · rename_i hpc
      have hp : (s.th t).pc = .waiting := by simpa using hpc
      split at h <;> cases h
      simp [FLabel.thread, Pc.inDoBuild, b2n, hp, FState.finishThread, FState.setTh]

/-- Accounting invariant. Threads `≥ n` never started. -/
structure Acct (n : Nat) (s : FState) : Prop where
  builds : s.g.builds + pendingBuilds s n = s.g.buildCalls
  failed : s.g.failed = s.g.buildErr.length

theorem acct_init (n : Nat) : Acct n FState.init := by
  refine ⟨?_, rfl⟩
  simp [pendingBuilds, FState.init, Pc.inDoBuild]

theorem acct_step (c : FCfg) (n : Nat) (s s' : FState) (l : FLabel) (hl : l.thread < n) (ha : Acct n s)
    (h : step c s l = some s') : Acct n s' := by
  have ⟨h1, h2⟩ := acct_local c s s' l h
  have hframe := (C04_bounded_steps c s s' l h).2
  have hp := pending_update s s' n l.thread hl hframe
  refine ⟨?_, ?_⟩
  · have := ha.builds
    simp only [b2n] at h1
    omega
  · have := ha.failed; omega

/-- All labels of a run belong to threads below `n`. -/
def ThreadsBelow (n : Nat) (ls : List FLabel) : Prop := ∀ l ∈ ls, l.thread < n

theorem acct_run (c : FCfg) (n : Nat) (ls : List FLabel) : ∀ s s', ThreadsBelow n ls → Acct n s → run c s ls = some s' → Acct n s' := by
  induction ls with
  | nil => intro s s' _ ha h; simp [run] at h; subst h; exact ha
  | cons l rest ih =>
    intro s s' hb ha h
    simp only [run] at h
    cases hs : step c s l with
    | none => simp [hs] at h
    | some s1 =>
      rw [hs] at h
      exact ih s1 s' (fun l' hl' => hb l' (List.mem_cons_of_mem _ hl')) (acct_step c n s s1 l (hb l List.mem_cons_self) ha hs) h

/-- **C18_failover_totals** — for any run (any number `n` of threads, any schedule, any outcomes): once every thread has
    finished, `cache_build` equals the number of builder invocations and `cache_failed` the number of failed ones;
    in any intermediate state the difference is exactly the number of threads still inside `doBuild`. -/
theorem C18_failover_totals (c : FCfg) (n : Nat) (ls : List FLabel) (s : FState) (hb : ThreadsBelow n ls)
    (h : run c FState.init ls = some s) :
    s.g.builds + pendingBuilds s n = s.g.buildCalls ∧ s.g.failed = s.g.buildErr.length ∧
    ((∀ t, t < n → (s.th t).pc = .done ∨ (s.th t).pc = .idle) → s.g.builds = s.g.buildCalls) := by
  have ha := acct_run c n ls _ _ hb (acct_init n) h
  refine ⟨ha.builds, ha.failed, ?_⟩
  intro hq
  have : pendingBuilds s n = 0 := by
    unfold pendingBuilds
    rw [List.length_eq_zero_iff, List.filter_eq_nil_iff]
    intro t ht
    rcases hq t (List.mem_range.mp ht) with hp | hp <;> simp [hp, Pc.inDoBuild]
  have := ha.builds
  omega

/-- `cache_refreshed` is bumped exactly when the stale re-store is issued. -/
theorem C18_refreshed_counts_restores (c : FCfg) (s s' : FState) (l : FLabel) (h : step c s l = some s') :
    s'.g.refreshed = s.g.refreshed + (if (s'.th l.thread).pc = .refreshing then 1 else 0) := by
  cases l with
  | «local» t =>
    simp only [step] at h
    split at h
    · split at h
      · split at h
        · split at h <;> cases h <;> simp [FLabel.thread, FState.finishThread, FState.setTh]
        · split at h <;> cases h <;> simp [FLabel.thread, FState.finishThread, FState.setTh]
        · cases h; simp [FLabel.thread, FState.setTh]
      · split at h
        · split at h <;> cases h <;> simp [FLabel.thread, FState.req, FState.setTh]
        · split at h <;> cases h <;> simp [FLabel.thread, FState.finishThread, FState.setTh, FState.publishRelease, FState.release, FState.setKL]
        · cases h; simp [FLabel.thread, FState.setTh]
    · split at h <;> cases h <;> simp [FLabel.thread, FState.req, FState.setTh]
    · split at h <;> cases h <;> simp [FLabel.thread, FState.finishThread, FState.setTh, FState.publishRelease, FState.release, FState.setKL]
    · cases h
  | begin t key skip cell =>
    simp only [step] at h
    split at h
    · cases h
    · split at h <;> cases h <;> simp [FLabel.thread, FState.req, FState.setTh]
  | readAns t a =>
    simp only [step] at h
    split at h
    · split at h <;> cases h <;> simp [FLabel.thread, FState.finishThread, FState.setTh]
    · split at h <;> cases h
      · simp only [FLabel.thread]
        split <;> simp [FState.finishThread, FState.setTh, FState.publishRelease, FState.release, FState.setKL]
      · simp [FLabel.thread, FState.setTh]
    · cases h
  | elect t =>
    simp only [step] at h
    split at h
    · cases h
    · split at h <;> cases h <;> (cases hk : s.keyLocks (s.th t).key <;> simp [FLabel.thread, hk, FState.req, FState.setTh] <;> (split <;> simp))
  | writeAns t a =>
    simp only [step] at h
    split at h
    · split at h <;> cases h <;> simp [FLabel.thread, FState.finishThread, FState.setTh, FState.publishRelease, FState.release, FState.setKL]
    · split at h <;> cases h <;> simp [FLabel.thread, FState.setTh]
    · cases h
  | errsRead t now =>
    simp only [step] at h
    split at h
    · cases h
    · split at h <;> cases h <;> simp [FLabel.thread, FState.finishThread, FState.setTh, FState.publishRelease, FState.release, FState.setKL]
  | buildAns t a =>
    simp only [step] at h
    split at h
    · cases h
    · split at h
      · cases h; simp [FLabel.thread, FState.req, FState.setTh]
      · split at h <;> cases h <;> simp [FLabel.thread, FState.setTh]
  | errsWrite t E =>
    simp only [step] at h
    split at h
    · cases h; simp [FLabel.thread, FState.req, FState.setTh]
    · cases h
  | wake t =>
    simp only [step] at h
    split at h
    · cases h
    · split at h <;> cases h
      simp [FLabel.thread, FState.finishThread, FState.setTh]

end Cache
