import CacheModel.Prims

/-
  C18 under concurrency, for SyncMap's delete counter: whatever the interleaving of Writes, Deletes and the per-key steps of
  any number of DeleteAll calls, `cache_delete` equals the number of entries that ceased to exist, and entries are conserved
  per key. Proved over ALL primitive sequences (induction), with the reporting decisions taken from the regenerated kernels.
-/
namespace Cache.Prims

theorem step_counted (s : St) (p : Prim) (h : s.counted = s.removedTotal) : (step s p).counted = (step s p).removedTotal := by
  cases p with
  | store k => simp only [step]; split <;> exact h
  | delete k => simp only [step, Gen.syncDeleteMisses]; cases s.present k <;> simp [h]
  | sweep k => simp only [step, Gen.syncDeleteAllCounts]; cases s.present k <;> simp [h]

/-- **C18_syncmap_removals_counted_exactly** — under any interleaving, the delete counter equals the entries removed. -/
theorem C18_syncmap_removals_counted_exactly (ps : List Prim) : (run {} ps).counted = (run {} ps).removedTotal := by
  suffices h : ∀ s : St, s.counted = s.removedTotal → (run s ps).counted = (run s ps).removedTotal from h {} rfl
  induction ps with
  | nil => intro s h; exact h
  | cons p rest ih => intro s h; exact ih (step s p) (step_counted s p h)

def Conserved (s : St) : Prop := ∀ k, s.created k = s.removed k + (if s.present k then 1 else 0)

theorem step_conserved (s : St) (p : Prim) (h : Conserved s) : Conserved (step s p) := by
  intro k'
  have hk := h k'
  cases p with
  | store k =>
    simp only [step]
    split
    · exact hk
    · rename_i hp
      simp only [upd]
      by_cases e : k' = k
      · subst e; simp [hp] at hk ⊢; omega
      · simp only [if_neg e]; exact hk
  | delete k =>
    simp only [step, upd]
    by_cases e : k' = k
    · subst e
      by_cases hp : s.present k' = true <;> simp [hp] at hk ⊢ <;> omega
    · simp only [if_neg e]; exact hk
  | sweep k =>
    simp only [step, upd]
    by_cases e : k' = k
    · subst e
      by_cases hp : s.present k' = true <;> simp [hp] at hk ⊢ <;> omega
    · simp only [if_neg e]; exact hk

/-- **C18_syncmap_entries_conserved** — per key: entries created = entries removed + (1 if one is present). -/
theorem C18_syncmap_entries_conserved (ps : List Prim) : Conserved (run {} ps) := by
  suffices h : ∀ s : St, Conserved s → Conserved (run s ps) from h {} (by intro k; rfl)
  induction ps with
  | nil => intro s h; exact h
  | cons p rest ih => intro s h; exact ih (step s p) (step_conserved s p h)

/-- **C18_blind_sweep_overcounts** — the code before repair F15 (count every key the Range visits) is refuted by two DeleteAll
    calls meeting on one key: one entry removed, two counted. -/
theorem C18_blind_sweep_overcounts :
    let s := [Prim.store 1, Prim.sweep 1, Prim.sweep 1].foldl stepBlind {}
    s.removedTotal = 1 ∧ s.counted = 2 := by decide

/-! ### Non-vacuity -/
example : (run {} [.store 1, .store 2, .sweep 1, .delete 1, .sweep 2, .sweep 2, .store 1]).counted = 2 := by decide

end Cache.Prims
