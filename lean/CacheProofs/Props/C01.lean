import CacheProofs.Lemmas.FailoverStep

/-
  C01 — Failover never runs two builds for the same key at the same time.

  The theorem quantifies over every configuration (all flag combinations, both API variants), ANY number of threads and
  keys, every schedule at the granularity of single shared actions, every backend answer (nothing / stale / too stale /
  error, write failures) and every builder outcome: all of these are free labels of the machine.
-/
namespace Cache

/-- A state reachable from the initial one by any sequence of labels. -/
def Reachable (c : FCfg) (s : FState) : Prop := ∃ ls, run c FState.init ls = some s

theorem reachable_inv {c : FCfg} {s : FState} (h : Reachable c s) : Inv s := by
  obtain ⟨ls, hl⟩ := h
  exact inv_run c ls _ _ inv_init hl

/-- **C01_no_overlapping_builds** — in every reachable state, two distinct threads inside the builder (between the builder
    call-out and its answer) work on different keys. -/
theorem C01_no_overlapping_builds (c : FCfg) (s : FState) (h : Reachable c s) (t u : Nat) (htu : t ≠ u)
    (ht : (s.th t).pc = .building) (hu : (s.th u).pc = .building) : (s.th t).key ≠ (s.th u).key := by
  have hi := reachable_inv h
  have ot : (s.th t).owning := ⟨hi.role t (by simp [ht, Pc.ownerOnly]), by simp [ht]⟩
  have ou : (s.th u).owning := ⟨hi.role u (by simp [hu, Pc.ownerOnly]), by simp [hu]⟩
  exact fun hk => htu (hi.uniq t u ot ou hk)

/-- The same for the whole owner region: from winning the election to the release, a key has at most one owner — so
    refresh-writes, failure-cache writes and final stores of one key never overlap either. -/
theorem C01_single_owner (c : FCfg) (s : FState) (h : Reachable c s) (t u : Nat)
    (ht : (s.th t).owning) (hu : (s.th u).owning) (hk : (s.th t).key = (s.th u).key) : t = u :=
  (reachable_inv h).uniq t u ht hu hk

/-- A thread is in the builder only while it holds the (open) key lock registered for its key. -/
theorem C01_build_under_lock (c : FCfg) (s : FState) (h : Reachable c s) (t : Nat) (ht : (s.th t).pc = .building) :
    s.keyLocks (s.th t).key = some (s.th t).lid ∧ (s.kl (s.th t).lid).closed = false := by
  have hi := reachable_inv h
  exact hi.own t ⟨hi.role t (by simp [ht, Pc.ownerOnly]), by simp [ht]⟩

/-! ### Non-vacuity: two threads on one key, one building while the other waits -/
def demoCfg01 : FCfg := { variant := .failover, syncUpdate := false, syncRead := false, failHard := false, maxStaleness := 0,
                          failedUpdateTTL := 20000000000, updateTTL := 60000000000 }
example : ∃ s, run demoCfg01 FState.init
    [.begin 0 7 false none, .begin 1 7 false none, .readAns 0 .miss, .readAns 1 .miss, .elect 0, .elect 1,
     .local 0, .local 1, .errsRead 0 100, .local 0] = some s ∧ (s.th 0).pc = .building ∧ (s.th 1).pc = .waiting := by
  refine ⟨_, rfl, ?_, ?_⟩ <;> decide

end Cache
