import CacheProofs.Props.C02
import CacheProofs.Props.C04

/-
  C09 (Failover half) — the frontend keys everything by the KEY, never by a hash, and captures the key by value.
  `keyLocks`, the failure cache `errs` and the provenance sets are functions / lists over `Key`; the theorems below say that
  what a thread holds, publishes or caches is tied to ITS key in every reachable state. The aliasing half of the property
  (no component keeps a reference to the caller's slice) is enforced by the harness rewriting every buffer after each call.
-/
namespace Cache

/-- The lock a thread owns is the one registered under its own key, and two distinct keys never share a lock record. -/
theorem C09_failover_locks_by_key (c : FCfg) (s : FState) (h : Reachable c s) :
    (∀ t, (s.th t).owning → s.keyLocks (s.th t).key = some (s.th t).lid) ∧
    (∀ k k' l, s.keyLocks k = some l → s.keyLocks k' = some l → k = k') :=
  ⟨fun t ht => ((reachable_inv h).own t ht).1, (reachable_inv h).inj⟩

/-- What a background build writes to and unlocks is the key captured at the start of the Get: no later step changes it. -/
theorem C09_key_never_changes (c : FCfg) (s s' : FState) (l : FLabel) (h : step c s l = some s') (t : Nat)
    (hstarted : (s.th t).pc ≠ .idle) : (s'.th t).key = (s.th t).key :=
  C04_key_captured_by_value c s s' l h t hstarted

/-- The failure cache never serves a key an error that belongs to another key. -/
theorem C09_failure_cache_by_key (c : FCfg) (s : FState) (h : Reachable c s) (k : Key) (e : Err) (E : Time)
    (he : s.errs k = some (e, E)) : (k, e) ∈ s.g.buildErr :=
  C02_failure_cache_provenance c s h k e E he

end Cache

namespace Cache

/-- **C09_skeleton_key_handling** — the text of the code does what the machine's representation of keys presupposes (facts
    re-read from the source by `tools/gokernel` on every run): the key-lock table of both frontends is indexed by
    `string(key)` at every access of `Get` (so it is a function of the KEY, as `FState.keyLocks : Key → _` says, not of its
    hash); `Get` copies the key before the `go` statement of the background update (so a thread's `key` is a value, as
    `C09_key_never_changes` says of the machine); and every backend `Write` stores a slice it made and filled itself
    (so a stored key never aliases the caller's buffer). -/
theorem C09_skeleton_key_handling :
    Gen.keyLocksByKey = true ∧ Gen.keyLocksByKeyOf = true ∧ Gen.bgKeyCopied = true ∧ Gen.bgKeyCopiedOf = true ∧
    Gen.storedKeyCopied = true ∧ Gen.storedKeyCopiedOf = true ∧ Gen.storedKeyCopiedSync = true := by decide

end Cache
