import CacheProofs.Lemmas.Backend

/-
  C09 — keys are isolated: hash collisions never leak (backend half).

  Every theorem here holds for EVERY slot function `hash` — no injectivity assumption — so in particular for
  xxhash64 with all its collisions.  (For the SyncMap kind the slot numbering is injective by construction: `KindOK`.)
  The key-buffer half of C09 is about aliasing, a runtime fact the value-semantics model cannot exhibit: it is
  enforced by the harness rewriting every key buffer after each call (see DESIGN.md §6 C09).
-/
namespace Cache
open Std
variable (hash : Key → Nat)

/-- A Read of `k` never returns (fresh or stale) anything but the entry stored under `k` itself. -/
theorem C09_read_never_foreign (kind : Kind) (cfg : Cfg) (s : Store) (hw : s.WF hash) (hk : KindOK hash kind)
    (k : Key) (now : Time) (v : Option Val) :
    ((s.read hash kind cfg k false now).2.1 = .hit v ∨ ∃ e, (s.read hash kind cfg k false now).2.1 = .expired v e) →
    ∃ ent, s.slots[hash k]? = some ent ∧ ent.K = k ∧ ent.V = v := by
  rw [read_out hash cfg hw hk]
  simp only [Bool.false_eq_true, if_false]
  cases hg : s.get hash k with
  | none => simp
  | some ent =>
    have ⟨hs, hek⟩ := Store.get_some hash hg
    intro h
    refine ⟨ent, hs, hek, ?_⟩
    by_cases hx : ent.E ≠ 0 ∧ ent.E < now
    · simp [hx] at h; exact h
    · simp [hx] at h; exact h

/-- Delete of `k` removes only an entry whose key IS `k`, reports NotFound otherwise, and never touches what is
    stored under any other key — colliding or not. -/
theorem C09_delete_never_foreign (kind : Kind) (s : Store) (hw : s.WF hash) (hk : KindOK hash kind) (k : Key) :
    ((s.delete hash kind k).2.1 = true ↔ ∃ ent, s.slots[hash k]? = some ent ∧ ent.K = k) ∧
    (∀ k', k' ≠ k → (s.delete hash kind k).1.get hash k' = s.get hash k') := by
  constructor
  · rw [delete_ok_iff hash hw hk]
    constructor
    · intro h
      cases hg : s.get hash k with
      | none => simp [hg] at h
      | some ent => exact ⟨ent, Store.get_some hash hg⟩
    · rintro ⟨ent, hs, hek⟩
      simp [Store.get_of_slot hash hs hek]
  · intro k' hne
    rw [get_delete hash hw hk]; simp [hne]

/-- A collision costs at most a miss: after a write of the colliding twin `k'`, `k` reads as missing — never as `v'` —
    and `k'` reads its own value. -/
theorem C09_collision_costs_a_miss (kind : Kind) (cfg : Cfg) (s : Store) (hw : s.WF hash) (hk : KindOK hash kind)
    (k k' : Key) (hne : k ≠ k') (hcol : hash k = hash k') (v' : Option Val) (b : Bool) (now : Time) :
    ((s.writeCore hash k' v' 0 b).read hash kind cfg k false now).2.1 = .miss ∧
    ((s.writeCore hash k' v' 0 b).read hash kind cfg k' false now).2.1 = .hit v' := by
  constructor
  · rw [read_out hash cfg (wf_writeCore hash hw _ _ _ _) hk, get_writeCore]; simp [hne, hcol]
  · rw [read_out hash cfg (wf_writeCore hash hw _ _ _ _) hk, get_writeCore]; simp

/-- A write of `k` leaves every other key's entry as it was, or (only when the slots collide) drops it. It never
    changes the value another key maps to. -/
theorem C09_write_frame (s : Store) (k k' : Key) (hne : k' ≠ k) (v : Option Val) (E : Time) (b : Bool) :
    (s.writeCore hash k v E b).get hash k' = s.get hash k' ∨
    ((s.writeCore hash k v E b).get hash k' = none ∧ hash k' = hash k) := by
  rw [get_writeCore]
  by_cases hh : hash k' = hash k
  · right; simp [hne, hh]
  · left; simp [hne, hh]

/-! ### History level: every value ever returned for a key was written for that very key -/

/-- The (key, value) pairs written by a history. -/
def writesOf : History → List (Key × Option Val)
  | [] => []
  | (_, .write k v _ _ _) :: r => (k, v) :: writesOf r
  | (_, .store k v _ _) :: r => (k, v) :: writesOf r
  | _ :: r => writesOf r

/-- Every stored entry holds a value that was written for its own key. -/
def BProv (W : List (Key × Option Val)) (s : Store) : Prop :=
  ∀ k e, s.get hash k = some e → (k, e.V) ∈ W

/-- What a single output may contain, given the writes so far. -/
def OutProv (W : List (Key × Option Val)) : Op → Out → Prop
  | .read k _, .read (.hit v) => (k, v) ∈ W
  | .read k _, .read (.expired v _) => (k, v) ∈ W
  | .load k, .loaded (some v) => (k, v) ∈ W
  | _, .walk es => ∀ e ∈ es, (e.K, e.V) ∈ W
  | _, _ => True

theorem bprov_mono {W W' : List (Key × Option Val)} {s : Store} (h : BProv hash W s) (hsub : ∀ x, x ∈ W → x ∈ W') :
    BProv hash W' s := fun k e he => hsub _ (h k e he)

theorem bread_prov {W : List (Key × Option Val)} {s : Store} {kind : Kind} (cfg : Cfg) (hw : s.WF hash)
    (hk : KindOK hash kind) (hp : BProv hash W s) (k : Key) (skip : Bool) (now : Time) :
    BProv hash W (s.read hash kind cfg k skip now).1 := by
  intro k' e' he'
  have hv := get_read_view hash cfg hw hk k skip now k'
  rw [he'] at hv
  cases hg : s.get hash k' with
  | none => simp [hg] at hv
  | some e0 =>
    simp [hg, Entry.view] at hv
    have := hp k' e0 hg
    rw [← hv.2.1] at this; exact this

theorem C09_step_provenance {W : List (Key × Option Val)} {s : Store} (kind : Kind) (cfg : Cfg)
    (hw : s.WF hash) (hk : KindOK hash kind) (hp : BProv hash W s) (now : Time) (op : Op) :
    OutProv W op (Backend.step hash kind cfg s now op).2.1 ∧
    BProv hash (W ++ writesOf [(now, op)]) (Backend.step hash kind cfg s now op).1 := by
  cases op with
  | write k v ctxTTL rn rd =>
    refine ⟨trivial, ?_⟩
    intro k' e' he'
    simp only [Backend.step, Store.write, get_writeCore] at he'
    simp only [writesOf, List.mem_append, List.mem_singleton]
    by_cases hkk : k' = k
    · simp [hkk] at he'; subst he'; right; simp [hkk]
    · by_cases hh : hash k' = hash k
      · simp [hkk, hh] at he'
      · simp [hkk, hh] at he'; left; exact hp k' e' he'
  | store k v rn rd =>
    refine ⟨trivial, ?_⟩
    intro k' e' he'
    simp only [Backend.step, Store.write, get_writeCore] at he'
    simp only [writesOf, List.mem_append, List.mem_singleton]
    by_cases hkk : k' = k
    · simp [hkk] at he'; subst he'; right; simp [hkk]
    · by_cases hh : hash k' = hash k
      · simp [hkk, hh] at he'
      · simp [hkk, hh] at he'; left; exact hp k' e' he'
  | read k skip =>
    simp only [Backend.step, writesOf, List.append_nil]
    refine ⟨?_, bread_prov hash cfg hw hk hp k skip now⟩
    rw [read_out hash cfg hw hk]
    by_cases hs : skip = true
    · simp [hs, OutProv]
    · simp only [hs, Bool.false_eq_true, if_false]
      cases hg : s.get hash k with
      | none => simp [OutProv]
      | some e =>
        have := hp k e hg
        by_cases hx : e.E ≠ 0 ∧ e.E < now <;> simp [hx, OutProv, this]
  | load k =>
    simp only [Backend.step, writesOf, List.append_nil]
    refine ⟨?_, bread_prov hash cfg hw hk hp k false now⟩
    rw [read_out hash cfg hw hk]
    simp only [Bool.false_eq_true, if_false]
    cases hg : s.get hash k with
    | none => simp [OutProv]
    | some e =>
      have := hp k e hg
      by_cases hx : e.E ≠ 0 ∧ e.E < now <;> simp [hx, OutProv, this]
  | delete k =>
    simp only [Backend.step, writesOf, List.append_nil]
    refine ⟨trivial, ?_⟩
    intro k' e' he'
    rw [get_delete hash hw hk] at he'
    by_cases hkk : k' = k
    · simp [hkk] at he'
    · simp [hkk] at he'; exact hp k' e' he'
  | expireAll =>
    simp only [Backend.step, writesOf, List.append_nil]
    refine ⟨trivial, ?_⟩
    intro k' e' he'
    rw [get_expireAll] at he'
    cases hg : s.get hash k' with
    | none => simp [hg] at he'
    | some e0 => simp [hg] at he'; subst he'; exact hp k' e0 hg
  | deleteAll =>
    simp only [Backend.step, writesOf, List.append_nil]
    exact ⟨trivial, fun k' e' he' => by simp at he'⟩
  | len => simp only [Backend.step, writesOf, List.append_nil]; exact ⟨trivial, hp⟩
  | walk =>
    simp only [Backend.step, writesOf, List.append_nil]
    refine ⟨?_, hp⟩
    intro e he
    exact hp e.K e ((mem_walk_iff hash hw e).mp he)

/-- Outputs of a run, each checked against the writes that preceded it. -/
def OutsProv : List (Key × Option Val) → History → List Out → Prop
  | _, [], [] => True
  | W, (now, op) :: r, o :: os => OutProv W op o ∧ OutsProv (W ++ writesOf [(now, op)]) r os
  | _, _, _ => False

/-- **C09_values_have_provenance** — for every hash function (collisions included), every history: whatever a
    Read/Load/Walk returns for a key was written for that very key earlier in the history. -/
theorem C09_values_have_provenance (kind : Kind) (cfg : Cfg) (hk : KindOK hash kind) (h : History) :
    ∀ (W : List (Key × Option Val)) (s : Store), s.WF hash → BProv hash W s →
      OutsProv W h (Backend.run hash kind cfg s h).2.1 := by
  induction h with
  | nil => intro W s _ _; trivial
  | cons top rest ih =>
    intro W s hw hp
    obtain ⟨now, op⟩ := top
    have ⟨ho, hp'⟩ := C09_step_provenance hash kind cfg hw hk hp now op
    have hw' : (Backend.step hash kind cfg s now op).1.WF hash := by
      cases op <;> simp only [Backend.step, Store.write]
      · exact wf_writeCore hash hw _ _ _ _
      · exact wf_read hash cfg hw hk _ _ _
      · exact wf_delete hash hw _
      · exact wf_expireAll hash hw now
      · exact wf_deleteAll hash s
      · exact hw
      · exact hw
      · exact wf_read hash cfg hw hk _ _ _
      · exact wf_writeCore hash hw _ _ _ _
    simp only [Backend.run]
    exact ⟨ho, ih _ _ hw' hp'⟩

/-! ### Non-vacuity: a concrete colliding pair under a 1-bit hash -/
example : (2 : Key) ≠ 4 ∧ (fun k : Key => k % 2) 2 = (fun k : Key => k % 2) 4 := by decide
example :
    let s := (Store.empty).writeCore (fun k => k % 2) 2 (some 7) 0 false
    ((s.writeCore (fun k => k % 2) 4 (some 9) 0 false).read (fun k => k % 2) .sharded
      { ttl := -1, jn := -1, jd := 1, strategy := .mostExpired, deleteExpiredAfter := 1, countSoftLimit := 0, efn := 1, efd := 2 }
      2 false 100).2.1 = .miss := by decide

end Cache
