import CacheProofs.Lemmas.Index

/-
  C15 — label invalidation is complete, precise and loses nothing on failure.

  The theorems quantify over every index content (any incidence structure, repeated labelling), every label argument list
  (repeats and unknown labels included), every visiting order of the cache names, every number of caches per name and every
  fault oracle (a deleter failure at any delete position). Deleters answer truthfully apart from injected failures.
  "Never panics" is totality of the model; that the real put-back loop does not panic is the correspondence run's job.
-/
namespace Cache

/-! ### The three nested loops -/

/-- Delete `k` everywhere: shrinks; only `k` can disappear and only from the given deleters; on success `k` is gone from all of them. -/
theorem deleteEverywhere_spec (faults : Nat → Bool) (k : Key) (ds : List Did) : ∀ (s : IdxState) (cnt : Nat),
    Shrinks s (deleteEverywhere faults s ds k cnt).1 ∧
    (∀ d' k', k' ∈ s.cache d' → k' ∉ (deleteEverywhere faults s ds k cnt).1.cache d' → d' ∈ ds ∧ k' = k) ∧
    ((deleteEverywhere faults s ds k cnt).2.2 = true → ∀ d ∈ ds, k ∉ (deleteEverywhere faults s ds k cnt).1.cache d) := by
  induction ds with
  | nil => intro s cnt; exact ⟨Shrinks.refl s, fun _ _ h1 h2 => absurd h1 h2, fun _ d hd => by cases hd⟩
  | cons d rest ih =>
    intro s cnt
    have hc := deleteCall_spec s faults d k
    unfold deleteEverywhere
    cases hans : (s.deleteCall faults d k).2 with
    | fail =>
      have : s.deleteCall faults d k = ((s.deleteCall faults d k).1, .fail) := by rw [← hans]
      rw [this]; simp only
      refine ⟨hc.1, ?_, by simp⟩
      intro d' k' h1 h2
      have := hc.2.1 d' k' h1 h2
      exact ⟨by rw [this.1]; exact List.mem_cons_self, this.2⟩
    | ok =>
      have : s.deleteCall faults d k = ((s.deleteCall faults d k).1, .ok) := by rw [← hans]
      rw [this]; simp only
      have hi := ih (s.deleteCall faults d k).1 (cnt + 1)
      refine ⟨hc.1.trans hi.1, ?_, ?_⟩
      · intro d' k' h1 h2
        by_cases hm : k' ∈ (s.deleteCall faults d k).1.cache d'
        · have := hi.2.1 d' k' hm h2
          exact ⟨List.mem_cons_of_mem _ this.1, this.2⟩
        · have := hc.2.1 d' k' h1 hm
          exact ⟨by rw [this.1]; exact List.mem_cons_self, this.2⟩
      · intro hok d' hd'
        rcases List.mem_cons.mp hd' with rfl | hr
        · intro hmem
          exact hc.2.2 (by rw [hans]; simp) (hi.1.sub _ _ hmem)
        · exact hi.2.2 hok d' hr
    | notFound =>
      have : s.deleteCall faults d k = ((s.deleteCall faults d k).1, .notFound) := by rw [← hans]
      rw [this]; simp only
      have hi := ih (s.deleteCall faults d k).1 cnt
      refine ⟨hc.1.trans hi.1, ?_, ?_⟩
      · intro d' k' h1 h2
        by_cases hm : k' ∈ (s.deleteCall faults d k).1.cache d'
        · have := hi.2.1 d' k' hm h2
          exact ⟨List.mem_cons_of_mem _ this.1, this.2⟩
        · have := hc.2.1 d' k' h1 hm
          exact ⟨by rw [this.1]; exact List.mem_cons_self, this.2⟩
      · intro hok d' hd'
        rcases List.mem_cons.mp hd' with rfl | hr
        · intro hmem
          exact hc.2.2 (by rw [hans]; simp) (hi.1.sub _ _ hmem)
        · exact hi.2.2 hok d' hr

/-- "Gone": `k` is in no cache of the deleters `ds`. Stable under shrinking. -/
def Gone (s : IdxState) (ds : List Did) (k : Key) : Prop := ∀ d ∈ ds, k ∉ s.cache d

theorem Gone.mono {s s' : IdxState} {ds : List Did} {k : Key} (h : Gone s ds k) (hs : Shrinks s s') : Gone s' ds k :=
  fun d hd hm => h d hd (hs.sub d k hm)

/-- The keys of one label. -/
theorem processKeys_spec (faults : Nat → Bool) (ds : List Did) (ks : List Key) :
    ∀ (s : IdxState) (deleted : List Key) (cnt : Nat),
    (∀ k ∈ deleted, Gone s ds k) →
    let r := processKeys faults ds s ks deleted cnt
    Shrinks s r.1 ∧
    (∀ d' k', k' ∈ s.cache d' → k' ∉ r.1.cache d' → d' ∈ ds ∧ k' ∈ ks) ∧
    (∀ k ∈ r.2.1, Gone r.1 ds k) ∧
    (∀ k ∈ deleted, k ∈ r.2.1) ∧
    (r.2.2.2 = true → ∀ k ∈ ks, k ∈ r.2.1) := by
  induction ks with
  | nil =>
    intro s deleted cnt hg
    exact ⟨Shrinks.refl s, fun _ _ h1 h2 => absurd h1 h2, hg, fun _ h => h, fun _ k hk => by cases hk⟩
  | cons k rest ih =>
    intro s deleted cnt hg
    unfold processKeys
    by_cases hd : deleted.contains k = true
    · simp only [hd, if_true]
      have hi := ih s deleted cnt hg
      refine ⟨hi.1, ?_, hi.2.2.1, hi.2.2.2.1, ?_⟩
      · intro d' k' h1 h2
        have := hi.2.1 d' k' h1 h2
        exact ⟨this.1, List.mem_cons_of_mem _ this.2⟩
      · intro hok k' hk'
        rcases List.mem_cons.mp hk' with rfl | hr
        · exact hi.2.2.2.1 _ (by simpa using hd)
        · exact hi.2.2.2.2 hok k' hr
    · simp only [hd, Bool.false_eq_true, if_false]
      have he := deleteEverywhere_spec faults k ds s cnt
      cases hres : (deleteEverywhere faults s ds k cnt).2.2 with
      | false =>
        have : deleteEverywhere faults s ds k cnt =
            ((deleteEverywhere faults s ds k cnt).1, (deleteEverywhere faults s ds k cnt).2.1, false) := by rw [← hres]
        rw [this]; simp only
        refine ⟨he.1, ?_, fun k' hk' => (hg k' hk').mono he.1, fun _ h => h, by simp⟩
        intro d' k' h1 h2
        have := he.2.1 d' k' h1 h2
        exact ⟨this.1, by rw [this.2]; exact List.mem_cons_self⟩
      | true =>
        have : deleteEverywhere faults s ds k cnt =
            ((deleteEverywhere faults s ds k cnt).1, (deleteEverywhere faults s ds k cnt).2.1, true) := by rw [← hres]
        rw [this]; simp only
        have hg' : ∀ k' ∈ k :: deleted, Gone (deleteEverywhere faults s ds k cnt).1 ds k' := by
          intro k' hk'
          rcases List.mem_cons.mp hk' with rfl | hr
          · exact he.2.2 hres
          · exact (hg k' hr).mono he.1
        have hi := ih (deleteEverywhere faults s ds k cnt).1 (k :: deleted) (deleteEverywhere faults s ds k cnt).2.1 hg'
        refine ⟨he.1.trans hi.1, ?_, hi.2.2.1, fun k' hk' => hi.2.2.2.1 k' (List.mem_cons_of_mem _ hk'), ?_⟩
        · intro d' k' h1 h2
          by_cases hm : k' ∈ (deleteEverywhere faults s ds k cnt).1.cache d'
          · have := hi.2.1 d' k' hm h2
            exact ⟨this.1, List.mem_cons_of_mem _ this.2⟩
          · have := he.2.1 d' k' h1 hm
            exact ⟨this.1, by rw [this.2]; exact List.mem_cons_self⟩
        · intro hok k' hk'
          rcases List.mem_cons.mp hk' with rfl | hr
          · exact hi.2.2.2.1 _ List.mem_cons_self
          · exact hi.2.2.2.2 hok k' hr

/-- The label loop. On success every key of every processed label is in `deleted` (hence gone); on failure every such key
    is either gone or still in what remains of `cut`. -/
theorem processLabels_spec (faults : Nat → Bool) (ds : List Did) (ls : List Label) :
    ∀ (s : IdxState) (cut : LabeledKeys) (deleted : List Key) (cnt : Nat),
    (∀ k ∈ deleted, Gone s ds k) →
    let r := processLabels faults ds s ls cut deleted cnt
    Shrinks s r.1 ∧
    (∀ d' k', k' ∈ s.cache d' → k' ∉ r.1.cache d' → d' ∈ ds ∧ ∃ l ∈ ls, k' ∈ lkGet cut l) ∧
    (∀ k ∈ r.2.2.1, Gone r.1 ds k) ∧
    (∀ k ∈ deleted, k ∈ r.2.2.1) ∧
    (∀ l ∈ ls, ∀ k ∈ lkGet cut l, k ∈ r.2.2.1 ∨ k ∈ lkGet r.2.1 l) ∧
    (r.2.2.2.2 = true → r.2.1 = ls.foldl lkErase cut ∧ ∀ l ∈ ls, ∀ k ∈ lkGet cut l, k ∈ r.2.2.1) := by
  induction ls with
  | nil =>
    intro s cut deleted cnt hg
    exact ⟨Shrinks.refl s, fun _ _ h1 h2 => absurd h1 h2, hg, fun _ h => h, fun _ hl => (by cases hl),
      fun _ => ⟨rfl, fun _ hl => (by cases hl)⟩⟩
  | cons l rest ih =>
    intro s cut deleted cnt hg
    have hp := processKeys_spec faults ds (lkGet cut l) s deleted cnt hg
    unfold processLabels
    cases hres : (processKeys faults ds s (lkGet cut l) deleted cnt).2.2.2 with
    | false =>
      have : processKeys faults ds s (lkGet cut l) deleted cnt =
          ((processKeys faults ds s (lkGet cut l) deleted cnt).1, (processKeys faults ds s (lkGet cut l) deleted cnt).2.1,
           (processKeys faults ds s (lkGet cut l) deleted cnt).2.2.1, false) := by rw [← hres]
      rw [this]; simp only
      refine ⟨hp.1, ?_, hp.2.2.1, hp.2.2.2.1, ?_, by simp⟩
      · intro d' k' h1 h2
        have := hp.2.1 d' k' h1 h2
        exact ⟨this.1, l, List.mem_cons_self, this.2⟩
      · intro l' _ k hk; exact Or.inr hk
    | true =>
      have : processKeys faults ds s (lkGet cut l) deleted cnt =
          ((processKeys faults ds s (lkGet cut l) deleted cnt).1, (processKeys faults ds s (lkGet cut l) deleted cnt).2.1,
           (processKeys faults ds s (lkGet cut l) deleted cnt).2.2.1, true) := by rw [← hres]
      rw [this]; simp only
      have hi := ih (processKeys faults ds s (lkGet cut l) deleted cnt).1 (lkErase cut l)
        (processKeys faults ds s (lkGet cut l) deleted cnt).2.1 (processKeys faults ds s (lkGet cut l) deleted cnt).2.2.1 hp.2.2.1
      have hkeys : ∀ k ∈ lkGet cut l, k ∈ (processKeys faults ds s (lkGet cut l) deleted cnt).2.1 := hp.2.2.2.2 hres
      refine ⟨hp.1.trans hi.1, ?_, hi.2.2.1, fun k hk => hi.2.2.2.1 k (hp.2.2.2.1 k hk), ?_, ?_⟩
      · intro d' k' h1 h2
        by_cases hm : k' ∈ (processKeys faults ds s (lkGet cut l) deleted cnt).1.cache d'
        · obtain ⟨hd, l', hl', hk'⟩ := hi.2.1 d' k' hm h2
          rw [lkGet_lkErase] at hk'
          by_cases hll : l' = l
          · simp [hll] at hk'
          · simp only [hll, if_false] at hk'
            exact ⟨hd, l', List.mem_cons_of_mem _ hl', hk'⟩
        · have := hp.2.1 d' k' h1 hm
          exact ⟨this.1, l, List.mem_cons_self, this.2⟩
      · intro l' hl' k hk
        by_cases hll : l' = l
        · subst hll; exact Or.inl (hi.2.2.2.1 k (hkeys k hk))
        · rcases List.mem_cons.mp hl' with rfl | hr
          · exact absurd rfl hll
          · have hk2 : k ∈ lkGet (lkErase cut l) l' := by rw [lkGet_lkErase]; simp [hll, hk]
            exact hi.2.2.2.2.1 l' hr k hk2
      · intro hok
        have := hi.2.2.2.2.2 hok
        refine ⟨by rw [this.1]; rfl, ?_⟩
        intro l' hl' k hk
        by_cases hll : l' = l
        · subst hll; exact hi.2.2.2.1 k (hkeys k hk)
        · rcases List.mem_cons.mp hl' with rfl | hr
          · exact absurd rfl hll
          · have hk2 : k ∈ lkGet (lkErase cut l) l' := by rw [lkGet_lkErase]; simp [hll, hk]
            exact this.2 l' hr k hk2

/-! ### cutKeys and put-back -/

/-- What `cutKeys` moves out: for every requested label exactly its key list; the index keeps the other labels. -/
theorem cutKeys_spec (labels : List Label) : ∀ (acc rest : LabeledKeys),
    let r := labels.foldl (fun (acc : LabeledKeys × LabeledKeys) l =>
      if lkHas acc.1 l then acc else (acc.1 ++ [(l, lkGet acc.2 l)], lkErase acc.2 l)) (acc, rest)
    (∀ l, l ∈ labels → lkHas acc l = false → lkGet r.1 l = lkGet rest l) ∧
    (∀ l, lkHas acc l = true → lkGet r.1 l = lkGet acc l) ∧
    (∀ l, l ∉ labels → lkGet r.2 l = lkGet rest l) := by
  induction labels with
  | nil => intro acc rest; simp
  | cons l ls ih =>
    intro acc rest
    simp only [List.foldl_cons]
    have hfind : ∀ (a : LabeledKeys) (x : Label) (ks : List Key) (y : Label),
        lkGet (a ++ [(x, ks)]) y = if lkHas a y then lkGet a y else if y = x then ks else [] := by
      intro a x ks y
      unfold lkGet lkHas
      rw [List.find?_append]
      cases hf : a.find? (fun p => p.1 == y) with
      | some p => simp
      | none =>
        by_cases hyx : y = x
        · subst hyx; simp [List.find?_cons]
        · have : (x == y) = false := by simp; exact fun h => hyx h.symm
          simp [List.find?_cons, this, hyx]
    have hhas : ∀ (a : LabeledKeys) (x : Label) (ks : List Key) (y : Label),
        lkHas (a ++ [(x, ks)]) y = (lkHas a y || (y == x)) := by
      intro a x ks y
      unfold lkHas
      rw [List.find?_append]
      cases hf : a.find? (fun p => p.1 == y) with
      | some p => simp
      | none =>
        by_cases hyx : y = x
        · subst hyx; simp [List.find?_cons]
        · have : (x == y) = false := by simp; exact fun h => hyx h.symm
          simp [List.find?_cons, this, hyx]
    by_cases hh : lkHas acc l = true
    · simp only [hh, if_true]
      have hi := ih acc rest
      refine ⟨?_, hi.2.1, ?_⟩
      · intro l' hl' hno
        rcases List.mem_cons.mp hl' with rfl | hr
        · rw [hh] at hno; cases hno
        · exact hi.1 l' hr hno
      · intro l' hl'
        exact hi.2.2 l' (fun h => hl' (List.mem_cons_of_mem _ h))
    · simp only [hh, Bool.false_eq_true, if_false]
      have hi := ih (acc ++ [(l, lkGet rest l)]) (lkErase rest l)
      refine ⟨?_, ?_, ?_⟩
      · intro l' hl' hno
        by_cases hll : l' = l
        · subst hll
          have h1 : lkHas (acc ++ [(l', lkGet rest l')]) l' = true := by rw [hhas]; simp
          rw [hi.2.1 l' h1, hfind]; simp [hno]
        · rcases List.mem_cons.mp hl' with rfl | hr
          · exact absurd rfl hll
          · have h1 : lkHas (acc ++ [(l, lkGet rest l)]) l' = false := by
              rw [hhas, hno]; simp [hll]
            rw [hi.1 l' hr h1, lkGet_lkErase]; simp [hll]
      · intro l' hl'
        have h1 : lkHas (acc ++ [(l, lkGet rest l)]) l' = true := by rw [hhas, hl']; simp
        rw [hi.2.1 l' h1, hfind]; simp [hl']
      · intro l' hl'
        have hne : l' ≠ l := fun h => hl' (by rw [h]; exact List.mem_cons_self)
        rw [hi.2.2 l' (fun h => hl' (List.mem_cons_of_mem _ h)), lkGet_lkErase]; simp [hne]

/-- The put-back re-indexes every cut key that is not known deleted. -/
theorem putBack_mem (cut : LabeledKeys) (deleted : List Key) : ∀ (lk : LabeledKeys) (l : Label) (k : Key),
    (k ∈ lkGet lk l ∨ (k ∈ lkGet cut l ∧ k ∉ deleted)) → k ∈ lkGet (putBack lk cut deleted) l := by
  unfold putBack
  induction cut with
  | nil =>
    intro lk l k h
    rcases h with h | h
    · exact h
    · simp [lkGet] at h
  | cons p rest ih =>
    intro lk l k h
    simp only [List.foldl_cons]
    apply ih
    rcases h with h | ⟨hc, hd⟩
    · left
      rw [lkGet_lkSet]
      by_cases hl : l = p.1
      · subst hl; simp [h]
      · simp [hl, h]
    · unfold lkGet at hc
      simp only [List.find?_cons] at hc
      by_cases hp : p.1 = l
      · left
        have : (p.1 == l) = true := by simp [hp]
        simp only [this, Option.map_some, Option.getD_some] at hc
        rw [lkGet_lkSet]
        simp only [← hp, if_true, List.mem_append, List.mem_filter]
        right; exact ⟨hc, by simpa using hd⟩
      · right
        have : (p.1 == l) = false := by simp [hp]
        simp only [this] at hc
        exact ⟨hc, hd⟩

/-! ### One cache name -/

/-- **C15 for one cache name** — precise, complete on success, nothing lost on failure. -/
theorem C15_invalidateName (s : IdxState) (faults : Nat → Bool) (n : Name) (labels : List Label) :
    let r := s.invalidateName faults n labels
    -- caches only shrink, and only by keys labelled (under this name) with one of the labels, in this name's caches
    (∀ d k, k ∈ r.1.cache d → k ∈ s.cache d) ∧
    (∀ d k, k ∈ s.cache d → k ∉ r.1.cache d → d ∈ s.deletersOf n ∧ ∃ l ∈ labels, k ∈ lkGet (s.labeled n) l) ∧
    -- other names' index entries are untouched; the deleter registry is untouched
    (∀ n', n' ≠ n → r.1.labeled n' = s.labeled n') ∧
    (∀ n', r.1.deletersOf n' = s.deletersOf n') ∧
    -- success: every labelled key is gone from every cache of the name
    (r.2.2 = true → ∀ l ∈ labels, ∀ k ∈ lkGet (s.labeled n) l, ∀ d ∈ s.deletersOf n, k ∉ r.1.cache d) ∧
    -- failure: every labelled key is gone from every cache of the name, or is still indexed under its label
    (r.2.2 = false → ∀ l ∈ labels, ∀ k ∈ lkGet (s.labeled n) l,
        (∀ d ∈ s.deletersOf n, k ∉ r.1.cache d) ∨ k ∈ lkGet (r.1.labeled n) l) := by
  have hcut := cutKeys_spec labels [] (s.labeled n)
  simp only at hcut
  have hcutget : ∀ l ∈ labels, lkGet (cutKeys (s.labeled n) labels).1 l = lkGet (s.labeled n) l :=
    fun l hl => hcut.1 l hl (by simp [lkHas])
  have hpl := processLabels_spec faults (s.deletersOf n) labels
    (s.setLabeled n (cutKeys (s.labeled n) labels).2) (cutKeys (s.labeled n) labels).1 [] 0 (by simp)
  simp only [deletersOf_setLabeled, cache_setLabeled] at hpl
  obtain ⟨hsh, hprec, hgone, _, hfail, hok⟩ := hpl
  unfold IdxState.invalidateName
  simp only
  generalize hr : processLabels faults (s.deletersOf n) (s.setLabeled n (cutKeys (s.labeled n) labels).2) labels
    (cutKeys (s.labeled n) labels).1 [] 0 = r at *
  obtain ⟨s1, cut1, deleted, cnt, ok⟩ := r
  simp only at hsh hprec hgone hfail hok ⊢
  refine ⟨?_, ?_, ?_, ?_, ?_, ?_⟩
  · intro d k hk
    have : k ∈ s1.cache d := by split at hk <;> exact hk
    exact hsh.sub d k this
  · intro d k h1 h2
    have h2' : k ∉ s1.cache d := by split at h2 <;> exact h2
    obtain ⟨hd, l, hl, hk⟩ := hprec d k h1 h2'
    exact ⟨hd, l, hl, by rw [← hcutget l hl]; exact hk⟩
  · intro n' hn'
    have h1 : s1.labeled n' = s.labeled n' := by
      rw [hsh.labeled n', labeled_setLabeled]; simp [hn']
    split
    · exact h1
    · rw [labeled_setLabeled]; simp [hn', h1]
  · intro n'
    have h1 : s1.deletersOf n' = s.deletersOf n' := by rw [hsh.deletersOf n', deletersOf_setLabeled]
    split
    · exact h1
    · rw [deletersOf_setLabeled]; exact h1
  · intro hokb l hl k hk d hd
    have hk' : k ∈ lkGet (cutKeys (s.labeled n) labels).1 l := by rw [hcutget l hl]; exact hk
    have := (hok hokb).2 l hl k hk'
    have hg := hgone k this d hd
    intro hm; apply hg
    split at hm <;> exact hm
  · intro _ l hl k hk
    have hk' : k ∈ lkGet (cutKeys (s.labeled n) labels).1 l := by rw [hcutget l hl]; exact hk
    by_cases hdel : k ∈ deleted
    · left
      intro d hd hm
      apply hgone k hdel d hd
      split at hm <;> exact hm
    · rcases hfail l hl k hk' with h | h
      · exact absurd h hdel
      · right
        have hne : cut1.isEmpty = false := by
          cases cut1 with
          | nil => simp [lkGet] at h
          | cons _ _ => rfl
        simp only [hne, Bool.false_eq_true, if_false, labeled_setLabeled, if_true]
        exact putBack_mem cut1 deleted _ l k (Or.inr ⟨h, hdel⟩)

/-! ### All cache names -/

/-- **C15_invalidate** — `InvalidateByLabels` over any visiting order of distinct cache names:
    caches only shrink; whatever disappears was labelled with one of the labels under a name owning that cache (precision);
    on success every labelled key is gone from all caches of its name (completeness); on failure every labelled key is gone
    or still indexed under its label, so that a later fault-free call removes it (nothing is lost). -/
theorem C15_invalidate (faults : Nat → Bool) (labels : List Label) (order : List Name) :
    ∀ (s : IdxState) (cnt : Nat), order.Nodup →
    let r := IdxState.invalidate faults s order labels cnt
    (∀ d k, k ∈ r.1.cache d → k ∈ s.cache d) ∧
    (∀ d k, k ∈ s.cache d → k ∉ r.1.cache d → ∃ n ∈ order, d ∈ s.deletersOf n ∧ ∃ l ∈ labels, k ∈ lkGet (s.labeled n) l) ∧
    (∀ n', n' ∉ order → r.1.labeled n' = s.labeled n') ∧
    (∀ n', r.1.deletersOf n' = s.deletersOf n') ∧
    (r.2.2 = true → ∀ n ∈ order, ∀ l ∈ labels, ∀ k ∈ lkGet (s.labeled n) l, ∀ d ∈ s.deletersOf n, k ∉ r.1.cache d) ∧
    (∀ n ∈ order, ∀ l ∈ labels, ∀ k ∈ lkGet (s.labeled n) l,
        (∀ d ∈ s.deletersOf n, k ∉ r.1.cache d) ∨ k ∈ lkGet (r.1.labeled n) l) := by
  induction order with
  | nil =>
    intro s cnt _
    exact ⟨fun _ _ h => h, fun _ _ h1 h2 => absurd h1 h2, fun _ _ => rfl, fun _ => rfl,
      fun _ n hn => (by cases hn), fun n hn => (by cases hn)⟩
  | cons n rest ih =>
    intro s cnt hnd
    have hn := C15_invalidateName s faults n labels
    simp only at hn
    obtain ⟨hsub, hprec, hlab, hdel, hok, hfail⟩ := hn
    have hnotin : n ∉ rest := (List.nodup_cons.mp hnd).1
    have hnd' : rest.Nodup := (List.nodup_cons.mp hnd).2
    unfold IdxState.invalidate
    cases hres : (s.invalidateName faults n labels).2.2 with
    | false =>
      have : s.invalidateName faults n labels =
          ((s.invalidateName faults n labels).1, (s.invalidateName faults n labels).2.1, false) := by rw [← hres]
      rw [this]; simp only
      refine ⟨hsub, ?_, ?_, hdel, by simp, ?_⟩
      · intro d k h1 h2
        obtain ⟨hd, hl⟩ := hprec d k h1 h2
        exact ⟨n, List.mem_cons_self, hd, hl⟩
      · intro n' hn'
        exact hlab n' (fun h => hn' (by rw [h]; exact List.mem_cons_self))
      · intro n' hn' l hl k hk
        rcases List.mem_cons.mp hn' with rfl | hr
        · exact hfail hres l hl k hk
        · right
          have hne : n' ≠ n := fun h => hnotin (h ▸ hr)
          rw [hlab n' hne]; exact hk
    | true =>
      have : s.invalidateName faults n labels =
          ((s.invalidateName faults n labels).1, (s.invalidateName faults n labels).2.1, true) := by rw [← hres]
      rw [this]; simp only
      have hi := ih (s.invalidateName faults n labels).1 (cnt + (s.invalidateName faults n labels).2.1) hnd'
      simp only at hi
      obtain ⟨isub, iprec, ilab, idel, iok, ifail⟩ := hi
      refine ⟨fun d k h => hsub d k (isub d k h), ?_, ?_, fun n' => (idel n').trans (hdel n'), ?_, ?_⟩
      · intro d k h1 h2
        by_cases hm : k ∈ (s.invalidateName faults n labels).1.cache d
        · obtain ⟨n', hn', hd, l, hl, hk⟩ := iprec d k hm h2
          have hne : n' ≠ n := fun h => hnotin (h ▸ hn')
          exact ⟨n', List.mem_cons_of_mem _ hn', by rw [← hdel n']; exact hd, l, hl, by rw [← hlab n' hne]; exact hk⟩
        · obtain ⟨hd, hl⟩ := hprec d k h1 hm
          exact ⟨n, List.mem_cons_self, hd, hl⟩
      · intro n' hn'
        have h1 : n' ∉ rest := fun h => hn' (List.mem_cons_of_mem _ h)
        have h2 : n' ≠ n := fun h => hn' (by rw [h]; exact List.mem_cons_self)
        rw [ilab n' h1, hlab n' h2]
      · intro hokb n' hn' l hl k hk d hd
        rcases List.mem_cons.mp hn' with rfl | hr
        · intro hm; exact hok hres l hl k hk d hd (isub d k hm)
        · have hne : n' ≠ n := fun h => hnotin (h ▸ hr)
          exact iok hokb n' hr l hl k (by rw [hlab n' hne]; exact hk) d (by rw [hdel n']; exact hd)
      · intro n' hn' l hl k hk
        rcases List.mem_cons.mp hn' with rfl | hr
        · left; intro d hd hm; exact hok hres l hl k hk d hd (isub d k hm)
        · have hne : n' ≠ n := fun h => hnotin (h ▸ hr)
          have := ifail n' hr l hl k (by rw [hlab n' hne]; exact hk)
          rcases this with h | h
          · left; intro d hd; exact h d (by rw [hdel n']; exact hd)
          · right; exact h

/-- **C15_retry_completes** — after a failed call, a fault-free call with the same labels leaves every key that was labelled
    at the time of the FIRST call absent from all caches of its name. -/
theorem C15_retry_completes (faults : Nat → Bool) (labels : List Label) (order order2 : List Name)
    (s : IdxState) (hnd : order.Nodup) (hnd2 : order2.Nodup) (hcover : ∀ n ∈ order, n ∈ order2)
    (hnofault : (IdxState.invalidate (fun _ => false) (IdxState.invalidate faults s order labels 0).1 order2 labels 0).2.2 = true) :
    ∀ n ∈ order, ∀ l ∈ labels, ∀ k ∈ lkGet (s.labeled n) l, ∀ d ∈ s.deletersOf n,
      k ∉ (IdxState.invalidate (fun _ => false) (IdxState.invalidate faults s order labels 0).1 order2 labels 0).1.cache d := by
  intro n hn l hl k hk d hd
  have h1 := C15_invalidate faults labels order s 0 hnd
  have h2 := C15_invalidate (fun _ => false) labels order2 (IdxState.invalidate faults s order labels 0).1 0 hnd2
  simp only at h1 h2
  rcases h1.2.2.2.2.2 n hn l hl k hk with hgone | hidx
  · intro hm; exact hgone d hd (h2.1 d k hm)
  · exact h2.2.2.2.2.1 hnofault n (hcover n hn) l hl k hidx d (by rw [h1.2.2.2.1 n]; exact hd)

/-! ### Non-vacuity: labels sharing keys, a failure at the last delete, and the retry -/
example :
    let s : IdxState := ((((({} : IdxState).addCache 1 10).setCache 10 [1, 2, 3, 9]).addLabels 1 1 [1, 2]).addLabels 1 2 [1, 2]).addLabels 1 3 [2]
    let r := s.invalidateName (fun i => i == 2) 1 [1, 2]
    r.2.2 = false ∧ r.1.cache 10 = [3, 9] ∧ lkGet (r.1.labeled 1) 2 = [3] ∧
    ((r.1.invalidateName (fun _ => false) 1 [1, 2]).1.cache 10 = [9]) := by decide

end Cache
