import CacheModel.Linz

/-
  C08 — per-key linearizability of the backends under concurrent use (PARTIAL by nature).

  What is proved:
  * the verdict of the executable checker the correspondence run applies to every observed per-slot history is sound: a
    history it accepts has a witness order that is a permutation of the events, respects real-time precedence and replays
    sequentially on the proved backend model (`C08_verdict_sound`);
  * the one operation of the sharded maps that is NOT a single lock-delimited section — `Read`: fetch the entry pointer under
    the read lock, evaluate the fetched entry after unlocking, while `ExpireAll` rewrites the expiry of live entries in
    place — still takes effect at one instant inside its interval, for every interleaving of other operations' sections
    (`C08_read_linearizes`). All other operations touch a slot in one lock-delimited section, which is their
    linearization point.
  Assumed, not proved: sync.RWMutex / sync.Map provide mutual exclusion and linearizable single-key operations; Go map
  iteration yields every entry present during the whole iteration exactly once. The implementation side is statistical
  (free-running goroutines), since the real scheduler cannot be steered inside the backends without editing them.
-/
namespace Cache.Linz

/-! ### The checker's verdict is sound -/

/-- Declarative linearizability of a per-slot history w.r.t. the sequential backend model. -/
def Linearizable (init : Store) (evs : List Event) : Prop :=
  ∃ order : List Nat,
    order.length = evs.length ∧ order.Nodup ∧ (∀ e ∈ evs, e.id ∈ order) ∧
    (∀ a ∈ evs, ∀ b ∈ evs, a.ret < b.inv → ∃ ia ib, order.idxOf? a.id = some ia ∧ order.idxOf? b.id = some ib ∧ ia < ib) ∧
    replay evs init order = true

theorem C08_witness_sound (init : Store) (evs : List Event) (w : List Nat) (h : checkWitness init evs w = true) :
    Linearizable init evs := by
  unfold checkWitness at h
  simp only [Bool.and_eq_true, beq_iff_eq, decide_eq_true_eq, List.all_eq_true, List.contains_iff_mem] at h
  obtain ⟨⟨⟨⟨hlen, hnd⟩, hmem⟩, hrt⟩, hrep⟩ := h
  refine ⟨w, hlen, hnd, fun e he => hmem e he, ?_, hrep⟩
  intro a ha b hb hlt
  unfold respectsRealTime at hrt
  simp only [List.all_eq_true, Bool.or_eq_true, Bool.not_eq_true', decide_eq_false_iff_not] at hrt
  rcases hrt a ha b hb with h1 | h1
  · exact absurd hlt h1
  · cases hia : w.idxOf? a.id <;> cases hib : w.idxOf? b.id <;> simp [hia, hib] at h1
    exact ⟨_, _, rfl, rfl, h1⟩

/-- **C08_verdict_sound** — whenever the driver reports "linearizable", the history is linearizable. -/
theorem C08_verdict_sound (init : Store) (evs : List Event) (w : List Nat) (h : linearizable init evs = some w) :
    Linearizable init evs := by
  unfold linearizable at h
  split at h
  · rename_i w' _
    split at h
    · rename_i hc; exact C08_witness_sound init evs w' hc
    · cases h
  · cases h

/-! ### The two-phase Read against in-place expiry rewrites -/

/-- One slot of a sharded map as the Go heap sees it: the map holds a POINTER (`cur`) to an entry object; objects live in
    `heap` and are never freed while referenced. -/
structure SlotHeap where
  cur : Option Nat := none
  heap : Nat → Entry := fun _ => default
  next : Nat := 0

/-- The lock-delimited sections other operations perform on the slot. -/
inductive Sec
  | write (e : Entry)                 -- Write / Restore: allocate a fresh object, point the slot at it
  | remove                            -- Delete (key matched) / DeleteAll / deleteExpired / evict: unlink the object
  | expireAll (t : Time)              -- ExpireAll: rewrite the expiry of the LINKED object in place
  | other                             -- any section that does not touch this slot
  deriving Repr

def SlotHeap.apply (σ : SlotHeap) : Sec → SlotHeap
  | .write e => { cur := some σ.next, heap := fun i => if i = σ.next then e else σ.heap i, next := σ.next + 1 }
  | .remove => { σ with cur := none }
  | .expireAll t =>
    match σ.cur with
    | some i => { σ with heap := fun j => if j = i then { σ.heap i with E := t } else σ.heap j }
    | none => σ
  | .other => σ

def SlotHeap.run (σ : SlotHeap) (secs : List Sec) : SlotHeap := secs.foldl SlotHeap.apply σ

/-- What `PrepareRead` answers for an entry object at clock reading `now`. -/
def classify (e : Entry) (now : Time) : ReadOut :=
  if Gen.isExpired e.E now then .expired e.V e.E else .hit e.V

/-- A Read that happens atomically at state `σ`. -/
def atomicRead (σ : SlotHeap) (now : Time) : ReadOut :=
  match σ.cur with
  | some i => classify (σ.heap i) now
  | none => .miss

/-- The real Read: the pointer fetched at `σ0`, the object evaluated after the sections `mid` of other goroutines ran. -/
def twoPhaseRead (σ0 : SlotHeap) (mid : List Sec) (now : Time) : ReadOut :=
  match σ0.cur with
  | some i => classify ((σ0.run mid).heap i) now
  | none => .miss

def WFHeap (σ : SlotHeap) : Prop := ∀ i, σ.cur = some i → i < σ.next

theorem wf_apply {σ : SlotHeap} (h : WFHeap σ) (s : Sec) : WFHeap (σ.apply s) ∧ σ.next ≤ (σ.apply s).next := by
  cases s with
  | write e => exact ⟨fun i hi => by simp [SlotHeap.apply] at hi ⊢; omega, by simp [SlotHeap.apply]⟩
  | remove => exact ⟨fun i hi => by simp [SlotHeap.apply] at hi, by simp [SlotHeap.apply]⟩
  | expireAll t =>
    unfold SlotHeap.apply
    cases hc : σ.cur with
    | none => exact ⟨h, Nat.le_refl _⟩
    | some i => exact ⟨fun j hj => h j (by simpa [hc] using hj), Nat.le_refl _⟩
  | other => exact ⟨h, Nat.le_refl _⟩

theorem run_snoc (σ : SlotHeap) (secs : List Sec) (s : Sec) : σ.run (secs ++ [s]) = (σ.run secs).apply s := by
  simp [SlotHeap.run, List.foldl_append]

theorem wf_run {σ : SlotHeap} (h : WFHeap σ) (secs : List Sec) : WFHeap (σ.run secs) ∧ σ.next ≤ (σ.run secs).next := by
  have aux : ∀ r : List Sec, WFHeap (σ.run r.reverse) ∧ σ.next ≤ (σ.run r.reverse).next := by
    intro r
    induction r with
    | nil => exact ⟨h, Nat.le_refl _⟩
    | cons s r ih =>
      rw [List.reverse_cons, run_snoc]
      have := wf_apply ih.1 s
      exact ⟨this.1, Nat.le_trans ih.2 this.2⟩
  simpa using aux secs.reverse

/-- **C08_read_linearizes** — for every interleaving `mid` of other operations' sections between the pointer fetch and the
    evaluation, the two-phase Read returns exactly what an atomic Read would return at SOME instant in between (after a prefix
    of `mid`): either at the fetch, or right after the last ExpireAll that rewrote the fetched — still linked — entry. -/
theorem C08_read_linearizes (σ0 : SlotHeap) (hwf : WFHeap σ0) (now : Time) (mid : List Sec) :
    ∃ k, k ≤ mid.length ∧ twoPhaseRead σ0 mid now = atomicRead (σ0.run (mid.take k)) now := by
  suffices aux : ∀ r : List Sec, ∃ k, k ≤ r.reverse.length ∧
      twoPhaseRead σ0 r.reverse now = atomicRead (σ0.run (r.reverse.take k)) now by
    simpa using aux mid.reverse
  intro r
  induction r with
  | nil =>
    refine ⟨0, Nat.le_refl _, ?_⟩
    simp [twoPhaseRead, atomicRead, SlotHeap.run]
  | cons s r ih =>
    rw [List.reverse_cons]
    generalize r.reverse = mid at ih ⊢
    obtain ⟨k, hk, hres⟩ := ih
    cases hc : σ0.cur with
    | none =>
      refine ⟨0, Nat.zero_le _, ?_⟩
      simp [twoPhaseRead, atomicRead, SlotHeap.run, hc]
    | some i =>
      have hi : i < σ0.next := hwf i hc
      have hwf1 := wf_run hwf mid
      -- does the last section rewrite the fetched object?
      by_cases hmut : (∃ t, s = .expireAll t) ∧ (σ0.run mid).cur = some i
      · obtain ⟨⟨t, rfl⟩, hcur⟩ := hmut
        refine ⟨(mid ++ [Sec.expireAll t]).length, Nat.le_refl _, ?_⟩
        rw [List.take_length]
        simp only [twoPhaseRead, hc, atomicRead, run_snoc, SlotHeap.apply, hcur]
      · -- the fetched object is untouched by `s`
        have hsame : ((σ0.run mid).apply s).heap i = (σ0.run mid).heap i := by
          cases s with
          | write e =>
            have : i ≠ (σ0.run mid).next := by have := hwf1.2; omega
            simp [SlotHeap.apply, this]
          | remove => rfl
          | expireAll t =>
            unfold SlotHeap.apply
            cases hcur : (σ0.run mid).cur with
            | none => rfl
            | some j =>
              have : i ≠ j := fun h => hmut ⟨⟨t, rfl⟩, by rw [hcur, h]⟩
              simp [this]
          | other => rfl
        refine ⟨k, by simp; omega, ?_⟩
        have htake : (mid ++ [s]).take k = mid.take k := by
          rw [List.take_append_of_le_length hk]
        rw [htake, ← hres]
        simp only [twoPhaseRead, hc, run_snoc, hsame]

/-! ### Non-vacuity -/
example : linearizable {} [⟨1, .write 1 5 false, .unit, 1, 4⟩, ⟨2, .read 1, .hit 5, 2, 6⟩, ⟨3, .read 1, .miss, 2, 3⟩] = some [3, 1, 2] := by
  decide +kernel
example : linearizable {} [⟨1, .write 1 5 false, .unit, 1, 2⟩, ⟨2, .read 1, .miss, 3, 4⟩] = none := by decide +kernel
-- a Read that fetched the entry before ExpireAll and evaluated it afterwards answers "expired": the instant right after ExpireAll
example :
    let σ0 : SlotHeap := ({} : SlotHeap).apply (.write { K := 1, V := some 9, E := 0, C := 0 })
    twoPhaseRead σ0 [.expireAll 7] 10 = .expired (some 9) 7 ∧ atomicRead σ0 10 = .hit (some 9) := by decide

end Cache.Linz
