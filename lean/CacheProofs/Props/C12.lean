import CacheProofs.Lemmas.Janitor
import CacheModel.DriverBackend

/-
  C12 — eviction fires only on limit breach, removes the right amount, in strategy order.

  `EvictFraction = a/b` is an exact rational here; float64 evaluation of `float64(n) * frac` is idealised (trusted
  base, the correspondence run allows one entry of slack only within 2⁻²⁰ of an integer boundary).
-/
namespace Cache
open Std
variable (hash : Key → Nat)

/-- No limit exceeded and `EvictionNeeded` absent or false ⇒ the cycle evicts nothing: it is exactly the
    delete-expired scan (whose effect C11 characterises). -/
theorem C12_no_breach_no_evict (kind : Kind) (cfg : Cfg) (s : Store) (env : CleanupEnv)
    (hho : env.ho = false) (hso : env.so = false) (hn : (env.hasNeeded && env.needed) = false)
    (hco : countOverflow cfg (s.cleanupScan kind cfg env.now).len = false) :
    s.cleanup kind cfg env = (s.cleanupScan kind cfg env.now, []) := by
  unfold Store.cleanup evictPlan
  simp [Gen.evictTrigger, hho, hso, hco, hn]

/-- Count overflow means exactly: a limit is configured and the number of entries exceeds it. -/
theorem C12_count_overflow_iff (cfg : Cfg) (n : Nat) :
    countOverflow cfg n = true ↔ cfg.countSoftLimit ≠ 0 ∧ cfg.countSoftLimit < n := by
  unfold countOverflow Gen.countOverflowOff Gen.countOver
  by_cases h0 : cfg.countSoftLimit = 0
  · simp [h0]
  · have : ¬ ((cfg.countSoftLimit : Int) = 0) := by omega
    simp [h0, this]

/-- A triggered cycle WITHOUT count breach (heap / sys limit or EvictionNeeded) plans to remove `⌊n·a/b⌋` entries. -/
theorem C12_amount_fraction (cfg : Cfg) (n : Nat) (env : CleanupEnv) (hfrac : cfg.efn ≠ 0)
    (hco : countOverflow cfg n = false) (htrig : env.ho = true ∨ env.so = true ∨ (env.hasNeeded && env.needed) = true) :
    evictPlan cfg n env = some (n * cfg.efn / cfg.efd) := by
  have ht : Gen.evictTrigger env.ho env.so false env.hasNeeded env.needed = true := by
    unfold Gen.evictTrigger
    rcases htrig with h | h | h
    · simp [h]
    · simp [h]
    · simp only [Bool.and_eq_true] at h; simp [h.1, h.2]
  have hf : Gen.fracIsDefault (cfg.efn : Int) = false := by
    simp [Gen.fracIsDefault]; omega
  unfold evictPlan evictAmount
  simp [hco, ht, hf]

/-- A cycle with a COUNT breach (`n > L`, `EvictFraction = a/b ∈ (0,1]`) plans to remove `k` entries such that the kept
    number `m = n − k` is within one entry of `L·(1 − a/b)`:  `L·(b−a) ≤ m·b < L·(b−a) + b`. -/
theorem C12_amount_count (cfg : Cfg) (n : Nat) (env : CleanupEnv) (hfrac : cfg.efn ≠ 0)
    (hab : cfg.efn ≤ cfg.efd) (hb : 0 < cfg.efd) (hco : countOverflow cfg n = true) :
    ∃ k, evictPlan cfg n env = some k ∧ k ≤ n ∧
      cfg.countSoftLimit * (cfg.efd - cfg.efn) ≤ (n - k) * cfg.efd ∧
      (n - k) * cfg.efd < cfg.countSoftLimit * (cfg.efd - cfg.efn) + cfg.efd := by
  have ⟨_, hlt⟩ := (C12_count_overflow_iff cfg n).mp hco
  have hf : Gen.fracIsDefault (cfg.efn : Int) = false := by
    simp [Gen.fracIsDefault]; omega
  have ht : Gen.evictTrigger env.ho env.so true env.hasNeeded env.needed = true := by
    simp [Gen.evictTrigger]
  refine ⟨(n * cfg.efd - cfg.countSoftLimit * (cfg.efd - cfg.efn)) / cfg.efd, ?_, ?_, ?_, ?_⟩
  · unfold evictPlan evictAmount; simp [hco, ht, hf]
  · -- k ≤ n
    apply Nat.div_le_of_le_mul
    rw [Nat.mul_comm cfg.efd n]; exact Nat.sub_le _ _
  all_goals
    generalize hL : cfg.countSoftLimit = L at *
    generalize ha : cfg.efn = a at *
    generalize hbb : cfg.efd = b at *
    have hX : L * (b - a) ≤ n * b :=
      Nat.le_trans (Nat.mul_le_mul_left L (Nat.sub_le b a)) (Nat.mul_le_mul_right b (Nat.le_of_lt hlt))
    generalize hXd : n * b - L * (b - a) = X at *
    have h1 : X / b * b ≤ X := Nat.div_mul_le_self X b
    have h2 : X < X / b * b + b := by
      have := Nat.lt_div_mul_add (a := X) hb
      omega
    have hkn : X / b ≤ n := by
      apply Nat.div_le_of_le_mul; rw [Nat.mul_comm b n]; omega
    have h3 : (n - X / b) * b = n * b - X / b * b := Nat.sub_mul n (X / b) b
    have h4 : X / b * b ≤ n * b := Nat.mul_le_mul_right b hkn
    generalize X / b * b = Y at *
    generalize L * (b - a) = Z at *
    generalize n * b = W at *
    omega

/-- Rank under the configured strategy: stored expiry for EvictMostExpired (note `E = 0`, "never expires", ranks lowest —
    that is the code's and the test-suite's behaviour), last-served stamp for LRU, serve count for LFU. -/
theorem C12_metric_def (e : Entry) :
    metricOf .mostExpired e = e.E ∧ metricOf .lru e = e.C ∧ metricOf .lfu e = e.C := ⟨rfl, rfl, rfl⟩

/-- **C12_order** — every entry the model's eviction removes ranks no higher than every entry it keeps. -/
theorem C12_order (st : Strategy) (s : Store) (k : Nat) (hv he : Nat) (ev ee : Entry)
    (hvic : hv ∈ s.victims st k) (hev : s.slots[hv]? = some ev)
    (hkept : he ∉ s.victims st k) (hee : s.slots[he]? = some ee) :
    metricOf st ev ≤ metricOf st ee := by
  unfold Store.victims at hvic hkept
  let le := fun (a b : Nat × Entry) => decide (metricOf st a.2 ≤ metricOf st b.2)
  have hsorted : (s.slots.toList.mergeSort le).Pairwise (fun a b => le a b = true) :=
    List.pairwise_mergeSort (le := le)
      (fun a b c hab hbc => by simp only [le, decide_eq_true_eq] at *; omega)
      (fun a b => by simp only [le, Bool.or_eq_true, decide_eq_true_eq]; omega) _
  have hsplit := List.take_append_drop k (s.slots.toList.mergeSort le)
  rw [← hsplit, List.pairwise_append] at hsorted
  obtain ⟨_, _, hcross⟩ := hsorted
  -- the victim is in the first k, the kept entry is in the rest
  obtain ⟨pv, hpv, hpv1⟩ := List.mem_map.mp hvic
  have hpe : (he, ee) ∈ s.slots.toList.mergeSort le :=
    List.mem_mergeSort.mpr ((TreeMap.mem_toList_iff_getElem?_eq_some).mpr hee)
  rw [← hsplit, List.mem_append] at hpe
  have hdrop : (he, ee) ∈ (s.slots.toList.mergeSort le).drop k := by
    rcases hpe with h | h
    · exact absurd (List.mem_map.mpr ⟨(he, ee), h, rfl⟩) hkept
    · exact h
  have hpvmem : pv ∈ s.slots.toList := List.mem_mergeSort.mp (List.mem_of_mem_take hpv)
  have hpv2 : s.slots[pv.1]? = some pv.2 := (TreeMap.mem_toList_iff_getElem?_eq_some).mp hpvmem
  rw [hpv1, hev] at hpv2
  have := hcross pv hpv (he, ee) hdrop
  simp only [le, decide_eq_true_eq] at this
  cases hpv2
  exact this

/-- Soundness of the executable check the correspondence run applies to every OBSERVED eviction (which resolves ties its
    own way): if `validEviction` accepts, every removed entry ranks no higher than every kept one. -/
theorem C12_validEviction_sound (st : Strategy) (s : Store) (removed : List Nat)
    (hval : s.validEviction st removed = true) (hv he : Nat) (ev ee : Entry)
    (hvic : hv ∈ removed) (hev : s.slots[hv]? = some ev) (hkept : he ∉ removed) (hee : s.slots[he]? = some ee) :
    metricOf st ev ≤ metricOf st ee := by
  unfold Store.validEviction at hval
  simp only [Bool.and_eq_true, List.all_eq_true] at hval
  have h3 := hval.2 hv hvic
  simp only [hev] at h3
  rw [List.all_eq_true] at h3
  have := h3 (he, ee) ((TreeMap.mem_toList_iff_getElem?_eq_some).mpr hee)
  simp only [Bool.or_eq_true, decide_eq_true_eq] at this
  rcases this with h | h
  · have : he ∈ removed := by simpa using h
    exact absurd this hkept
  · exact h

/-- The model's own choice passes that check's ordering clause (so check and model agree on what "in order" means). -/
theorem C12_model_eviction_in_order (st : Strategy) (s : Store) (k : Nat) :
    ∀ hv ∈ s.victims st k, ∀ ev, s.slots[hv]? = some ev →
      ∀ he ee, he ∉ s.victims st k → s.slots[he]? = some ee → metricOf st ev ≤ metricOf st ee :=
  fun hv hvic ev hev he ee hkept hee => C12_order st s k hv he ev ee hvic hev hkept hee

/-- Eviction removes only victims: every other key keeps its entry, victims' keys read as missing afterwards. -/
theorem C12_evict_frame (st : Strategy) (s : Store) (k : Nat) (key : Key) :
    (s.evictLeast st k).get hash key = if hash key ∈ s.victims st k then none else s.get hash key :=
  get_evict hash s _ key

/-- The usage metric tracks the access history: a (non-skipped) read that finds the key stamps `now` (LRU) or adds one
    (LFU) — for hits and stale reads alike — and leaves it alone under EvictMostExpired; a write resets it to 0. -/
theorem C12_metric_tracks_history (kind : Kind) (cfg : Cfg) (s : Store) (hw : s.WF hash) (hk : KindOK hash kind)
    (k : Key) (e : Entry) (he : s.get hash k = some e) (now : Time) :
    ((s.read hash kind cfg k false now).1.get hash k).map (·.C) =
      some (match cfg.strategy with | .mostExpired => e.C | .lru => now | .lfu => e.C + 1) ∧
    ∀ v E b, ((s.writeCore hash k v E b).get hash k).map (·.C) = some 0 := by
  constructor
  · have ⟨hsl, hek⟩ := Store.get_some hash he
    unfold Store.read
    simp only [Bool.false_eq_true, if_false, keyMismatchRead_eq hash hw hk]
    simp only [he, Option.isNone_some, Bool.false_eq_true, if_false, Store.slot, hsl]
    have key : ∀ c', ((Store.get hash { s with slots := s.slots.insert (hash k) { e with C := c' } } k).map (·.C)) = some c' := by
      intro c'; unfold Store.get; simp [hek]
    split <;> exact key _
  · intro v E b; rw [get_writeCore]; simp

/-- **C12_oracle_is_the_model** — the literal trigger / amount the correspondence run judges observed cycles with
    (`Drv.specShouldEvict`, `Drv.specAmount`: the property's wording) is the model's plan for the decision kernels read off
    the source: with the unchanged kernels the oracle can neither alarm on a cycle the model allows nor miss one it forbids. -/
theorem C12_oracle_is_the_model (cfg : Cfg) (n : Nat) (env : CleanupEnv) :
    (evictPlan cfg n env).isSome = Drv.specShouldEvict cfg n env ∧
    evictAmount cfg n (countOverflow cfg n) = Drv.specAmount cfg n := by
  have hco : countOverflow cfg n = Drv.specCountOver cfg n := by
    unfold countOverflow Drv.specCountOver Gen.countOverflowOff Gen.countOver
    by_cases h : cfg.countSoftLimit = 0
    · simp [h]
    · have : ¬ ((cfg.countSoftLimit : Int) = 0) := by omega
      simp [h, this]
  constructor
  · unfold evictPlan Drv.specShouldEvict Gen.evictTrigger
    rw [hco]
    cases h : (env.ho || env.so || Drv.specCountOver cfg n || (env.hasNeeded && env.needed)) <;> simp [h]
  · unfold evictAmount Drv.specAmount Gen.fracIsDefault Gen.defaultEvictFracN Gen.defaultEvictFracD
    rw [hco]
    by_cases h : cfg.efn = 0
    · simp [h]
    · have : ¬ ((cfg.efn : Int) = 0) := by omega
      simp [h, this]

/-! ### Non-vacuity -/
example : let cfg : Cfg := { ttl := -1, jn := -1, jd := 1, strategy := .lfu, deleteExpiredAfter := 100, countSoftLimit := 10, efn := 1, efd := 4 }
    countOverflow cfg 13 = true ∧ evictPlan cfg 13 { now := 0, ho := false, so := false, hasNeeded := false, needed := false } = some 5 ∧
    evictPlan cfg 9 { now := 0, ho := false, so := false, hasNeeded := true, needed := true } = some 2 ∧
    evictPlan cfg 9 { now := 0, ho := false, so := false, hasNeeded := true, needed := false } = none := by decide

end Cache
