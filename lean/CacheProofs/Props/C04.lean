import CacheProofs.Props.C01

/-
  C04 — Get always completes and key locks are always released.

  Liveness is stated in the form a transition system supports: (1) no lock outlives its owner (`locks_released`),
  (2) a waiting thread is never orphaned — its lock is closed (so it can return at once) or a live owner thread that is
  itself not waiting holds it (`no_stuck_waiter`), (3) every thread that is neither waiting nor finished can take a step
  as soon as the call-out it waits for answers (`enabled`), and (4) every step strictly decreases the stepping thread's
  rank and leaves all other threads alone (`bounded_steps`), so each Get finishes within 12 of its own steps once its
  call-outs return. Caller behaviour after return (cancelling its context, rewriting the key buffer) cannot affect the
  machine: the key is captured by value at `begin` and no later step reads the caller's context.
-/
namespace Cache

/-- All Gets and background builds finished ⇒ no key lock remains. -/
theorem C04_locks_released_when_quiescent (c : FCfg) (s : FState) (h : Reachable c s)
    (hq : ∀ t, (s.th t).pc = .idle ∨ (s.th t).pc = .done) : ∀ k, s.keyLocks k = none := by
  intro k
  cases hk : s.keyLocks k with
  | none => rfl
  | some l =>
    obtain ⟨t, ht, _, _⟩ := (reachable_inv h).held k l hk
    rcases hq t with hp | hp <;> simp [Thread.owning, hp] at ht

/-- A waiter is never orphaned. -/
theorem C04_no_stuck_waiter (c : FCfg) (s : FState) (h : Reachable c s) (t : Nat) (hw : (s.th t).pc = .waiting)
    (ho : (s.th t).owner = false) :
    (s.kl (s.th t).lid).closed = true ∨
    ∃ u, u ≠ t ∧ (s.th u).owning ∧ (s.th u).key = (s.th t).key ∧ (s.th u).lid = (s.th t).lid := by
  have hi := reachable_inv h
  rcases (hi.att t ⟨ho, Or.inr (Or.inr hw)⟩).2 with hc | hreg
  · exact Or.inl hc
  · obtain ⟨u, hu1, hu2, hu3⟩ := hi.held _ _ hreg
    refine Or.inr ⟨u, ?_, hu1, hu2, hu3⟩
    intro hut; subst hut
    simp [Thread.owning, hw] at hu1

/-- A closed lock lets its waiter return immediately. -/
theorem C04_wake_enabled (c : FCfg) (s : FState) (t : Nat) (hw : (s.th t).pc = .waiting)
    (hc : (s.kl (s.th t).lid).closed = true) : (step c s (.wake t)).isSome = true := by
  simp [step, hw, hc]

/-- Rank of a program position: strictly decreasing along every path of `Get` (there is no loop). -/
def Pc.rank : Pc → Nat
  | .idle => 12 | .preRead => 11 | .wantLock => 10 | .lockedRead => 9 | .classify => 8 | .refreshing => 7
  | .checkErrs => 6 | .decideSync => 5 | .building => 4 | .storeErr _ => 3 | .storing _ => 3 | .finish _ => 2
  | .waiting => 1 | .done => 0

end Cache

namespace Cache

@[simp] theorem th_finishThread (s : FState) (t : Nat) (x : Thread) (r : GetResult) (u : Nat) :
    (s.finishThread t x r).th u = if u = t then { x with pc := .done, returned := if x.bg then x.returned else some r } else s.th u := by
  simp [FState.finishThread, FState.setTh]
@[simp] theorem th_publishRelease (s : FState) (k : Key) (l : Nat) (r : GetResult) : (s.publishRelease k l r).th = s.th := rfl
@[simp] theorem th_setTh (s : FState) (t : Nat) (x : Thread) (u : Nat) : (s.setTh t x).th u = if u = t then x else s.th u := rfl
@[simp] theorem th_noteRead (s : FState) (k : Key) (a : ReadAns) : (s.noteRead k a).th = s.th := rfl
@[simp] theorem th_noteWrite (s : FState) (k : Key) (a : WriteAns) : (s.noteWrite k a).th = s.th := by cases a <;> rfl

/-- **C04_bounded_steps** — every step strictly lowers the rank of the thread that takes it and does not touch any other
    thread: a Get (including its background continuation) performs at most 12 steps. -/
theorem C04_bounded_steps (c : FCfg) (s s' : FState) (l : FLabel) (h : step c s l = some s') :
    (s'.th l.thread).pc.rank < (s.th l.thread).pc.rank ∧ ∀ u, u ≠ l.thread → s'.th u = s.th u := by
  cases l with
  | begin t key skip cell =>
    simp only [step] at h
    split at h
    · cases h
    · rename_i hpc
      have hidle : (s.th t).pc = .idle := by simpa using hpc
      split at h <;> cases h <;> simp [FLabel.thread, Pc.rank, hidle, FState.req] <;> intro u hu <;> simp [hu]
  | readAns t a =>
    simp only [step] at h
    split at h
    · rename_i hpc
      split at h <;> cases h <;> simp [FLabel.thread, Pc.rank, hpc] <;> intro u hu <;> simp [hu]
    · rename_i hpc
      split at h <;> cases h
      · refine ⟨by simp [FLabel.thread, Pc.rank, hpc], ?_⟩
        intro u hu
        simp only [FLabel.thread] at hu
        split <;> simp [hu]
      · simp [FLabel.thread, Pc.rank, hpc]; intro u hu; simp [hu]
    · cases h
  | elect t =>
    simp only [step] at h
    split at h
    · cases h
    · rename_i hpc
      have hw : (s.th t).pc = .wantLock := by simpa using hpc
      split at h <;> cases h <;> (cases hk : s.keyLocks (s.th t).key <;>
        simp [FLabel.thread, Pc.rank, hw, hk, FState.req, FState.setTh, *] <;> intro u hu <;> simp [hu])
  | «local» t =>
    simp only [step] at h
    split at h
    · rename_i hpc
      split at h
      · split at h
        · split at h <;> cases h <;> simp [FLabel.thread, Pc.rank, hpc] <;> intro u hu <;> simp [hu]
        · split at h <;> cases h <;> simp [FLabel.thread, Pc.rank, hpc] <;> intro u hu <;> simp [hu]
        · cases h; simp [FLabel.thread, Pc.rank, hpc]; intro u hu; simp [hu]
      · split at h
        · split at h <;> cases h
          · refine ⟨by simp [FLabel.thread, Pc.rank, hpc, FState.req, FState.setTh], ?_⟩
            intro u hu; simp only [FLabel.thread] at hu; simp [FState.req, FState.setTh, hu]
          · simp [FLabel.thread, Pc.rank, hpc]; intro u hu; simp [hu]
        · split at h <;> cases h <;> simp [FLabel.thread, Pc.rank, hpc] <;> intro u hu <;> simp [hu]
        · cases h; simp [FLabel.thread, Pc.rank, hpc]; intro u hu; simp [hu]
    · rename_i hpc
      split at h <;> cases h <;> simp [FLabel.thread, Pc.rank, hpc, FState.req, FState.setTh] <;> intro u hu <;> simp [hu]
    · rename_i r hpc
      split at h <;> cases h <;> simp [FLabel.thread, Pc.rank, hpc] <;> intro u hu <;> simp [hu]
    · cases h
  | writeAns t a =>
    simp only [step] at h
    split at h
    · rename_i hpc
      split at h <;> cases h <;> simp [FLabel.thread, Pc.rank, hpc] <;> intro u hu <;> simp [hu]
    · rename_i v hpc
      split at h <;> cases h <;> simp [FLabel.thread, Pc.rank, hpc, FState.setTh] <;> intro u hu <;> simp [hu]
    · cases h
  | errsRead t now =>
    simp only [step] at h
    split at h
    · cases h
    · rename_i hpc
      have hp : (s.th t).pc = .checkErrs := by simpa using hpc
      split at h <;> cases h <;> simp [FLabel.thread, Pc.rank, hp] <;> intro u hu <;> simp [hu]
  | buildAns t a =>
    simp only [step] at h
    split at h
    · cases h
    · rename_i hpc
      have hp : (s.th t).pc = .building := by simpa using hpc
      split at h
      · cases h; simp [FLabel.thread, Pc.rank, hp, FState.req, FState.setTh]; intro u hu; simp [hu]
      · split at h <;> cases h <;> simp [FLabel.thread, Pc.rank, hp, FState.setTh] <;> intro u hu <;> simp [hu]
  | errsWrite t E =>
    simp only [step] at h
    split at h
    · rename_i e hpc
      cases h; simp [FLabel.thread, Pc.rank, hpc, FState.req, FState.setTh]; intro u hu; simp [hu]
    · cases h
  | wake t =>
    simp only [step] at h
    split at h
    · cases h
    · rename_i hpc
      have hp : (s.th t).pc = .waiting := by simpa using hpc
      split at h <;> cases h
      simp [FLabel.thread, Pc.rank, hp]; intro u hu; simp [hu]

/-- **C04_enabled** — a thread that is neither finished, idle nor waiting can always take its next step (given the answer
    of the call-out it is blocked in, whatever that answer is): nothing inside `Get` can block except the wait for a lock. -/
theorem C04_enabled (c : FCfg) (s : FState) (t : Nat) :
    match (s.th t).pc with
    | .idle | .done | .waiting => True
    | .preRead | .lockedRead => ∀ a, (step c s (.readAns t a)).isSome = true
    | .wantLock => (step c s (.elect t)).isSome = true
    | .classify | .decideSync | .finish _ => (step c s (.local t)).isSome = true
    | .refreshing | .storing _ => ∀ a, (step c s (.writeAns t a)).isSome = true
    | .checkErrs => ∀ now, (step c s (.errsRead t now)).isSome = true
    | .building => ∀ a, (step c s (.buildAns t a)).isSome = true
    | .storeErr _ => ∀ E, (step c s (.errsWrite t E)).isSome = true := by
  cases hpc : (s.th t).pc <;> simp only
  case preRead => intro a; cases a <;> simp [step, hpc]
  case lockedRead => intro a; cases a <;> simp [step, hpc]
  case wantLock => simp only [step, hpc]; split <;> simp_all <;> split <;> simp
  case classify =>
    simp only [step, hpc]
    split
    · split
      · split <;> simp
      · split <;> simp
      · simp
    · split
      · split <;> simp
      · split <;> simp
      · simp
  case decideSync => simp only [step, hpc]; split <;> simp
  case finish r => simp only [step, hpc]; split <;> simp
  case refreshing => intro a; cases a <;> simp [step, hpc]
  case storing v => intro a; cases a <;> simp [step, hpc]
  case checkErrs => intro now; simp only [step, hpc]; split <;> simp_all <;> split <;> simp
  case building => intro a; cases a <;> simp [step, hpc] <;> split <;> simp
  case storeErr e => intro E; simp [step, hpc]

/-- Rewriting the caller's key buffer or cancelling its context after `begin` is not a label of the machine at all: the
    thread captured the key by value, and no step reads the caller's context again. What ties this to the code is the
    correspondence run, which rewrites every key buffer and cancels contexts at every opportunity. -/
theorem C04_key_captured_by_value (c : FCfg) (s s' : FState) (l : FLabel) (h : step c s l = some s') (t : Nat)
    (hstarted : (s.th t).pc ≠ .idle) : (s'.th t).key = (s.th t).key := by
  by_cases ht : t = l.thread
  · subst ht
    cases l with
    | begin t key skip cell =>
      simp only [step] at h
      split at h
      · cases h
      · rename_i hpc; simp only [FLabel.thread] at hstarted; exact absurd (by simpa using hpc) hstarted
    | readAns t a =>
      simp only [step, FLabel.thread] at h ⊢
      split at h
      · split at h <;> cases h <;> simp
      · split at h <;> cases h
        · split <;> simp
        · simp
      · cases h
    | elect t =>
      simp only [step, FLabel.thread] at h ⊢
      split at h
      · cases h
      · split at h <;> cases h <;> (cases hk : s.keyLocks (s.th t).key <;> simp [hk, FState.req, FState.setTh])
    | «local» t =>
      simp only [step, FLabel.thread] at h ⊢
      split at h
      · split at h
        · split at h
          · split at h <;> cases h <;> simp
          · split at h <;> cases h <;> simp
          · cases h; simp
        · split at h
          · split at h <;> cases h
            · simp only [FState.req, FState.setTh, if_true]; split <;> rfl
            · simp
          · split at h <;> cases h <;> simp
          · cases h; simp
      · split at h <;> cases h <;> simp [FState.req, FState.setTh]
      · split at h <;> cases h <;> simp
      · cases h
    | writeAns t a =>
      simp only [step, FLabel.thread] at h ⊢
      split at h
      · split at h <;> cases h <;> simp
      · split at h <;> cases h <;> simp [FState.setTh]
      · cases h
    | errsRead t now =>
      simp only [step, FLabel.thread] at h ⊢
      split at h
      · cases h
      · split at h <;> cases h <;> simp
    | buildAns t a =>
      simp only [step, FLabel.thread] at h ⊢
      split at h
      · cases h
      · split at h
        · cases h; simp [FState.req, FState.setTh]
        · split at h <;> cases h <;> simp [FState.setTh]
    | errsWrite t E =>
      simp only [step, FLabel.thread] at h ⊢
      split at h
      · cases h; simp [FState.req, FState.setTh]
      · cases h
    | wake t =>
      simp only [step, FLabel.thread] at h ⊢
      split at h
      · cases h
      · split at h <;> cases h; simp
  · rw [(C04_bounded_steps c s s' l h).2 t ht]

end Cache
