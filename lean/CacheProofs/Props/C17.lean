import CacheModel.Invalidator

/-
  C17 — Invalidator runs all callbacks, at most once per SkipInterval.

  The mutex spanning check, stamp and callbacks makes concurrent calls a sequence of `invalidate` steps with
  non-decreasing clock readings (`tCheck ≤ tStamp ≤ next tCheck`); the theorems quantify over every such sequence,
  every number of callbacks and every SkipInterval.
-/
namespace Cache

/-- The interval in force (0 is replaced by the default, 15 s). -/
def Invalidator.effSkip (i : Invalidator) : Int :=
  if i.skipInterval = 0 then Gen.defaultSkipInterval else i.skipInterval

/-- No callbacks registered: `ErrNothingToInvalidate`, nothing runs, nothing changes. -/
theorem C17_nothing_to_invalidate (i : Invalidator) (tc ts : Time) :
    i.invalidate 0 tc ts = (i, .nothing) := by
  simp [Invalidator.invalidate, Gen.nothingToInvalidate]

/-- A call is accepted iff it is the first one or at least SkipInterval has elapsed since the last accepted stamp;
    an accepted call runs every callback exactly once in registration order and stamps `tStamp`;
    a rejected call runs none and keeps the stamp. -/
theorem C17_accept_reject (i : Invalidator) (ncb : Nat) (hn : ncb ≠ 0) (tc ts : Time) :
    (i.invalidate ncb tc ts).2 =
      (match i.lastRun with
       | none => .ran (List.range ncb)
       | some last => if tc - last < i.effSkip then .already else .ran (List.range ncb)) ∧
    (i.invalidate ncb tc ts).1.lastRun =
      (match i.lastRun with
       | none => some ts
       | some last => if tc - last < i.effSkip then some last else some ts) ∧
    (i.invalidate ncb tc ts).1.effSkip = i.effSkip := by
  have hnz : Gen.nothingToInvalidate (ncb : Int) = false := by simp [Gen.nothingToInvalidate]; omega
  unfold Invalidator.invalidate Invalidator.effSkip
  simp only [hnz, Bool.false_eq_true, if_false, Gen.skipIntervalIsDefault, Gen.invalidatorSkip, beq_iff_eq, decide_eq_true_eq]
  have hd : Gen.defaultSkipInterval ≠ 0 := by decide
  cases hl : i.lastRun with
  | none =>
    by_cases h0 : i.skipInterval = 0 <;> simp [h0, hd]
  | some last =>
    by_cases h0 : i.skipInterval = 0
    · by_cases hlt : tc - last < Gen.defaultSkipInterval <;> simp [h0, hlt, hd, hl]
    · by_cases hlt : tc - last < i.skipInterval <;> simp [h0, hlt, hl]

/-- The callbacks of an accepted call: `0, 1, …, n−1`, each exactly once, in order. -/
theorem C17_all_callbacks_once_in_order (ncb : Nat) :
    (List.range ncb).length = ncb ∧ (List.range ncb).Nodup ∧ ∀ j (h : j < (List.range ncb).length), (List.range ncb)[j] = j := by
  refine ⟨List.length_range, List.nodup_range, ?_⟩
  intro j h; simp

/-- Schedules the mutex allows: each call's stamp is not before its check, and the next call checks no earlier. -/
def Monotone : Time → List InvCall → Prop
  | _, [] => True
  | t, c :: rest => t ≤ c.tCheck ∧ c.tCheck ≤ c.tStamp ∧ Monotone c.tStamp rest

/-- **C17_spacing** — in every admissible schedule, whenever a call is ACCEPTED while a previous accepted stamp `last`
    exists, at least SkipInterval has elapsed since that stamp: `tCheck − last ≥ SkipInterval`. Stated on one step with an
    arbitrary prior state, it holds at every position of every run. -/
theorem C17_spacing (i : Invalidator) (ncb : Nat) (tc ts : Time) (last : Time) (hl : i.lastRun = some last)
    (cbs : List Nat) (hacc : (i.invalidate ncb tc ts).2 = .ran cbs) :
    i.effSkip ≤ tc - last := by
  by_cases hn : ncb = 0
  · subst hn; simp [C17_nothing_to_invalidate] at hacc
  · have := (C17_accept_reject i ncb hn tc ts).1
    rw [hl] at this
    simp only at this
    rw [this] at hacc
    by_cases hlt : tc - last < i.effSkip
    · simp [hlt] at hacc
    · omega

/-- A rejected call reports `ErrAlreadyInvalidated`, runs no callback and leaves the stamp alone, so it never delays
    or advances later acceptances. -/
theorem C17_rejected_runs_none (i : Invalidator) (ncb : Nat) (tc ts : Time)
    (hrej : (i.invalidate ncb tc ts).2 = .already) :
    (i.invalidate ncb tc ts).1.lastRun = i.lastRun := by
  by_cases hn : ncb = 0
  · subst hn; simp [C17_nothing_to_invalidate] at hrej
  · have h := C17_accept_reject i ncb hn tc ts
    rw [h.2.1]
    rw [h.1] at hrej
    cases hl : i.lastRun with
    | none => simp [hl] at hrej
    | some last =>
      simp only [hl] at hrej ⊢
      by_cases hlt : tc - last < i.effSkip
      · simp [hlt]
      · simp [hlt] at hrej

/-- Run level: consecutive accepted stamps of any admissible schedule differ by at least SkipInterval. -/
def acceptedStamps : Invalidator → List InvCall → List Time
  | _, [] => []
  | i, c :: rest =>
    match (i.invalidate c.ncb c.tCheck c.tStamp).2 with
    | .ran _ => c.tStamp :: acceptedStamps (i.invalidate c.ncb c.tCheck c.tStamp).1 rest
    | _ => acceptedStamps (i.invalidate c.ncb c.tCheck c.tStamp).1 rest

theorem C17_run_spacing (cs : List InvCall) : ∀ (i : Invalidator) (t : Time),
    Monotone t cs → (∀ l, i.lastRun = some l → l ≤ t) →
    (∀ l, i.lastRun = some l → ∀ s ∈ acceptedStamps i cs, i.effSkip ≤ s - l) ∧
    List.Pairwise (fun a b => i.effSkip ≤ b - a) (acceptedStamps i cs) := by
  induction cs with
  | nil => intro i t _ _; simp [acceptedStamps]
  | cons c rest ih =>
    intro i t hm hle
    obtain ⟨h1, h2, h3⟩ := hm
    by_cases hn : c.ncb = 0
    · -- nothing registered: state unchanged
      have hs : i.invalidate c.ncb c.tCheck c.tStamp = (i, .nothing) := by rw [hn]; exact C17_nothing_to_invalidate i _ _
      have hle' : ∀ l, i.lastRun = some l → l ≤ c.tStamp := fun l hl => by have := hle l hl; omega
      have := ih i c.tStamp h3 hle'
      simp only [acceptedStamps, hs]
      exact this
    · have hr := C17_accept_reject i c.ncb hn c.tCheck c.tStamp
      cases hres : (i.invalidate c.ncb c.tCheck c.tStamp).2 with
      | nothing =>
        rw [hr.1] at hres
        cases hl : i.lastRun <;> simp [hl] at hres
        split at hres <;> cases hres
      | already =>
        have hkeep := C17_rejected_runs_none i c.ncb c.tCheck c.tStamp hres
        have hle' : ∀ l, (i.invalidate c.ncb c.tCheck c.tStamp).1.lastRun = some l → l ≤ c.tStamp := by
          intro l hl; rw [hkeep] at hl; have := hle l hl; omega
        have := ih _ c.tStamp h3 hle'
        simp only [acceptedStamps, hres]
        rw [hr.2.2, hkeep] at this
        exact this
      | ran cbs =>
        have hnew : (i.invalidate c.ncb c.tCheck c.tStamp).1.lastRun = some c.tStamp := by
          rw [hr.2.1]
          rw [hr.1] at hres
          cases hl : i.lastRun with
          | none => rfl
          | some last =>
            simp only [hl] at hres ⊢
            by_cases hlt : c.tCheck - last < i.effSkip
            · simp [hlt] at hres
            · simp [hlt]
        have hle' : ∀ l, (i.invalidate c.ncb c.tCheck c.tStamp).1.lastRun = some l → l ≤ c.tStamp := by
          intro l hl; rw [hnew] at hl; cases hl; exact Int.le_refl _
        have ⟨ihA, ihB⟩ := ih _ c.tStamp h3 hle'
        rw [hr.2.2] at ihA ihB
        simp only [acceptedStamps, hres]
        have hrest : ∀ s ∈ acceptedStamps (i.invalidate c.ncb c.tCheck c.tStamp).1 rest, i.effSkip ≤ s - c.tStamp :=
          ihA c.tStamp hnew
        constructor
        · intro l hl s hs
          have hsp := C17_spacing i c.ncb c.tCheck c.tStamp l hl cbs hres
          rcases List.mem_cons.mp hs with rfl | hs'
          · omega
          · have := hrest s hs'
            -- later stamps are even further away (clock readings are non-decreasing)
            have hlt := hle l hl
            omega
        · exact List.Pairwise.cons hrest ihB

/-- **C17_accepted_when_elapsed** — the other half of "at most once per SkipInterval": the limiter never rejects
    spuriously. The first call, and every call whose check comes at least SkipInterval after the last accepted stamp,
    is accepted, runs every callback once in registration order and stamps `tStamp`. -/
theorem C17_accepted_when_elapsed (i : Invalidator) (ncb : Nat) (hn : ncb ≠ 0) (tc ts : Time)
    (hel : ∀ last, i.lastRun = some last → i.effSkip ≤ tc - last) :
    (i.invalidate ncb tc ts).2 = .ran (List.range ncb) ∧ (i.invalidate ncb tc ts).1.lastRun = some ts := by
  have h := C17_accept_reject i ncb hn tc ts
  rw [h.1, h.2.1]
  cases hl : i.lastRun with
  | none => exact ⟨rfl, rfl⟩
  | some last =>
    have hge := hel last hl
    have hlt : ¬ (tc - last < i.effSkip) := by omega
    simp [hlt]

/-- A rejected call is always explained by an accepted one less than SkipInterval before it: there is a stamp `last`
    with `tCheck − last < SkipInterval`. (No rejection on a fresh invalidator, none after the interval.) -/
theorem C17_rejected_only_within_interval (i : Invalidator) (ncb : Nat) (tc ts : Time)
    (hrej : (i.invalidate ncb tc ts).2 = .already) :
    ∃ last, i.lastRun = some last ∧ tc - last < i.effSkip := by
  by_cases hn : ncb = 0
  · subst hn; simp [C17_nothing_to_invalidate] at hrej
  · have h := C17_accept_reject i ncb hn tc ts
    rw [h.1] at hrej
    cases hl : i.lastRun with
    | none => simp [hl] at hrej
    | some last =>
      refine ⟨last, rfl, ?_⟩
      simp only [hl] at hrej
      by_cases hlt : tc - last < i.effSkip
      · exact hlt
      · simp [hlt] at hrej

/-! ### Non-vacuity: three calls, the middle one too early -/
example :
    let i : Invalidator := { skipInterval := 100 }
    (i.run [⟨2, 1000, 1001⟩, ⟨2, 1050, 1051⟩, ⟨2, 1101, 1102⟩]).2 = [.ran [0, 1], .already, .ran [0, 1]] := by decide

/-- the hypotheses of `C17_accepted_when_elapsed` / `C17_rejected_only_within_interval` are met by concrete states:
    exactly at the boundary (`tCheck − last = SkipInterval`) the call is accepted, one nanosecond earlier it is not. -/
example :
    let i : Invalidator := { lastRun := some 1001, skipInterval := 100 }
    (i.invalidate 2 1101 1102).2 = .ran [0, 1] ∧ (i.invalidate 2 1100 1102).2 = .already := by decide

end Cache
