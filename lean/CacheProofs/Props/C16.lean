import CacheModel.FootprintTable

/-
  C16 — data-race freedom of the public API (PARTIAL by nature: the Go memory model, sync, sync/atomic and sync.Map are
  axioms of the footprint semantics, and the implementation side is the race detector, which only sees executions that happen).

  The footprint table lists, for every public operation and background activity, each access to shared memory with its
  guard. Two accesses race iff they conflict (same location of the same cache family, one a write) and are not ordered by
  a common lock with one side exclusive, both atomic, both inside sync.Map, init-before-publish, or the close/receive order of
  a lock record. The theorems decide the WHOLE table (kernel `decide`, no native code):
  every unprotected pair belongs to one of the two known findings, and every other location is disciplined.
  The general theorem "discipline ⇒ no two conflicting accesses unordered by happens-before, for every program and schedule"
  is NOT proved here (it needs a trace semantics of the Go memory model); it is the classical lockset argument and is listed
  as trusted in the evidence.
-/
namespace Cache.FP

/-- The guard relation is symmetric: protection does not depend on which access comes first in the table. -/
theorem C16_protected_symmetric (a b : Access) (h : conflicting a b = true) : protectedPair a b = protectedPair b a := by
  obtain ⟨fa, ma, la, wa, ga, ra⟩ := a
  obtain ⟨fb, mb, lb, wb, gb, rb⟩ := b
  cases ga <;> cases gb <;> simp [protectedPair] <;> (try (rename_i l1 x1 l2 x2; cases l1 <;> cases l2 <;> cases x1 <;> cases x2 <;> decide))

/-- Is the pair one of the two known findings? (a) `ExpireAll` rewrites `entry.E` in place while something reads it without
    the lock; (b) `PrepareRead` (inlined into `Read`) updates `entry.C` atomically under LRU/LFU while Walk / Dump / the entry's
    value-receiver accessors copy the whole entry struct with plain reads. -/
def knownFinding (p : Access × Access) : Bool :=
  (p.1.loc == .entryE && ((p.1.write && p.1.guard != .initOnly) || (p.2.write && p.2.guard != .initOnly))) ||
  (p.1.loc == .entryC && (p.1.lruOnly || p.2.lruOnly))

/-- The only writes to `entry.E` after publication are the in-place writes of the three `ExpireAll` implementations. -/
theorem C16_only_expireAll_rewrites_expiry :
    (table.filter (fun a => a.loc == .entryE && a.write && a.guard != .initOnly)).map (·.fn) =
      ["(*shardedMap).ExpireAll", "(*shardedMapOf).ExpireAll", "(*syncMap).ExpireAll.func1"] := by decide +kernel

/-- **C16_races_are_exactly_the_known_findings** — every unprotected conflicting pair of the table is one of the two known
    findings: a new race needs a new row (or a changed guard) in the table, which changes this theorem's verdict. -/
theorem C16_all_races_are_known_findings : (racyPairs table).all knownFinding = true := by decide +kernel

/-- Everything else is disciplined: the shard maps, sync.Map, the key-lock table and lock records of Failover, the label
    index, the deleter registry, `lastRun`, `expirationsSet` and the immutable key/value fields have no unprotected conflict. -/
theorem C16_table_disciplined_elsewhere :
    ((racyPairs table).filter (fun p => p.1.loc != .entryE && p.1.loc != .entryC)) = [] := by decide +kernel

/-- With the in-place write of `ExpireAll` and the plain struct copies taken out (the repairs sketched in DESIGN §7, F9) the
    table is race free. -/
theorem C16_race_free_after_repair :
    racyPairs (table.filter (fun a =>
      !(a.loc == .entryE && a.write && a.guard != .initOnly) &&          -- ExpireAll would replace entries instead
      !(a.loc == .entryC && !a.write && a.guard == .none))) = [] := by   -- Walk would hand out copies taken with atomic loads
  decide +kernel

/-! ### Non-vacuity: the table does predict races today -/
example : (racyPairs table).length > 0 := by decide +kernel

end Cache.FP
