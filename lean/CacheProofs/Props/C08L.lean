import CacheProofs.Props.C08

/-
  C08 — the linearization-point argument, proved once and for all executions.

  Every operation of the sharded maps other than `Read` touches a slot in ONE lock-delimited section; `SyncMap` operations on
  a key are ONE `sync.Map` primitive (`Load`, `Store`, `LoadAndDelete`). An execution at that granularity is a sequence of
  sections, each belonging to one operation and lying inside that operation's invocation/response interval, the operation's
  result being what the sequential model returns at that instant. The theorem: every such execution - any number of
  goroutines, any interleaving, any operation mix, batch operations acting on the slot at one instant of their call - has a
  linearizable history. (What is assumed is exactly that granularity: mutual exclusion of `sync.RWMutex`, atomicity of the
  `sync.Map` primitives. The known finding F14 is an operation that is NOT one section: `SyncMap.deleteExpired` checks in one
  primitive and deletes in another.)
-/
namespace Cache.Linz

/-- An execution at section granularity: the events in the order in which their sections ran, `pts` the instants. -/
structure SectionExec where
  evs : List Event
  pts : List Nat
  len : pts.length = evs.length

/-- Sections run at strictly increasing instants. -/
def increasing : List Nat → Prop
  | [] => True
  | [_] => True
  | a :: b :: rest => a < b ∧ increasing (b :: rest)

theorem increasing_tail {a : Nat} {l : List Nat} (h : increasing (a :: l)) : increasing l := by
  cases l with
  | nil => trivial
  | cons b rest => exact h.2

theorem increasing_lt {l : List Nat} (h : increasing l) {i j : Nat} (hij : i < j) (hj : j < l.length) :
    l[i]'(Nat.lt_trans hij hj) < l[j] := by
  induction l generalizing i j with
  | nil => simp at hj
  | cons a rest ih =>
    cases j with
    | zero => omega
    | succ j =>
      have hj' : j < rest.length := by simpa using hj
      cases i with
      | zero =>
        simp only [List.getElem_cons_zero, List.getElem_cons_succ]
        -- a < rest[0] ≤ rest[j]
        cases rest with
        | nil => simp at hj'
        | cons b rest' =>
          have hab : a < b := h.1
          cases j with
          | zero => simpa using hab
          | succ j =>
            have := ih (increasing_tail h) (i := 0) (j := j + 1) (by omega) hj'
            simp only [List.getElem_cons_zero] at this
            exact Nat.lt_trans hab this
      | succ i =>
        simp only [List.getElem_cons_succ]
        exact ih (increasing_tail h) (by omega) hj'

theorem idxOf?_map_id {evs : List Event} (hnd : (evs.map (·.id)).Nodup) {i : Nat} (hi : i < evs.length) :
    (evs.map (·.id)).idxOf? evs[i].id = some i := by
  induction evs generalizing i with
  | nil => simp at hi
  | cons e rest ih =>
    rw [List.map_cons] at hnd
    have hnd' := List.nodup_cons.mp hnd
    cases i with
    | zero => simp [List.idxOf?, List.findIdx?_cons]
    | succ i =>
      have hi' : i < rest.length := by simpa using hi
      have hne : e.id ≠ rest[i].id := by
        intro h
        apply hnd'.1
        rw [h]
        exact List.mem_map.mpr ⟨rest[i], List.getElem_mem hi', rfl⟩
      have := ih hnd'.2 hi'
      simp only [List.map_cons, List.getElem_cons_succ, List.idxOf?, List.findIdx?_cons] at this ⊢
      have hbeq : (e.id == rest[i].id) = false := by simpa using hne
      rw [hbeq]
      simp [this]

/-- **C08_linearization_points** — an execution in which every operation takes effect in one section inside its interval, with
    the result the sequential model gives at that instant, has a linearizable history. -/
theorem C08_linearization_points (init : Store) (x : SectionExec)
    (hids : (x.evs.map (·.id)).Nodup)
    (hinc : increasing x.pts)
    (hin : ∀ i (h : i < x.evs.length), x.evs[i].inv ≤ x.pts[i]'(by rw [x.len]; exact h) ∧ x.pts[i]'(by rw [x.len]; exact h) ≤ x.evs[i].ret)
    (hres : replay x.evs init (x.evs.map (·.id)) = true) :
    Linearizable init x.evs := by
  refine ⟨x.evs.map (·.id), by simp, hids, ?_, ?_, hres⟩
  · intro e he
    exact List.mem_map.mpr ⟨e, he, rfl⟩
  · intro a ha b hb hlt
    obtain ⟨ia, hia, rfl⟩ := List.getElem_of_mem ha
    obtain ⟨ib, hib, rfl⟩ := List.getElem_of_mem hb
    refine ⟨ia, ib, idxOf?_map_id hids hia, idxOf?_map_id hids hib, ?_⟩
    -- pts[ia] ≤ ret a < inv b ≤ pts[ib], and instants increase with the position
    have h1 := (hin ia hia).2
    have h2 := (hin ib hib).1
    rcases Nat.lt_trichotomy ia ib with h | h | h
    · exact h
    · subst h; omega
    · have := increasing_lt hinc h (by rw [x.len]; exact hia)
      omega

/-! ### The machine that generates such executions -/

/-- Run the sections in order on the sequential model, recording for each operation the result it observes. -/
def runSections (s : Store) : List (Nat × LOp) → List (Nat × LOp × LRes)
  | [] => []
  | (id, op) :: rest => (id, op, (apply s op).2) :: runSections (apply s op).1 rest

/-- Attach intervals to the recorded results. -/
def mkEvents : List (Nat × LOp × LRes) → List (Nat × Nat) → List Event
  | (id, op, r) :: rest, (inv, ret) :: ivs => { id := id, op := op, res := r, inv := inv, ret := ret } :: mkEvents rest ivs
  | _, _ => []

theorem replay_cons_other (evs : List Event) (e : Event) (s : Store) (order : List Nat)
    (h : ∀ i ∈ order, i ≠ e.id) : replay (e :: evs) s order = replay evs s order := by
  induction order generalizing s with
  | nil => simp [replay]
  | cons i rest ih =>
    have hi : i ≠ e.id := h i (List.mem_cons_self ..)
    have hb : (e.id == i) = false := by simpa using (Ne.symm hi)
    simp only [replay, List.find?_cons, hb]
    cases hfind : evs.find? (·.id == i) with
    | none => rfl
    | some e' =>
      simp only []
      rw [ih _ (fun j hj => h j (List.mem_cons_of_mem _ hj))]

/-- The machine's own history replays: by construction every result is the model's at the section's instant. -/
theorem replay_runSections (s : Store) (secs : List (Nat × LOp)) (ivs : List (Nat × Nat)) (hl : ivs.length = secs.length)
    (hnd : (secs.map (·.1)).Nodup) :
    replay (mkEvents (runSections s secs) ivs) s (secs.map (·.1)) = true := by
  induction secs generalizing s ivs with
  | nil => simp [replay]
  | cons sec rest ih =>
    obtain ⟨id, op⟩ := sec
    cases ivs with
    | nil => simp at hl
    | cons iv ivs =>
      obtain ⟨inv, ret⟩ := iv
      rw [List.map_cons] at hnd
      have hnd' := List.nodup_cons.mp hnd
      simp only [runSections, mkEvents, List.map_cons, replay, List.find?_cons, beq_self_eq_true]
      simp only [Bool.true_and]
      rw [replay_cons_other]
      · exact ih (apply s op).1 ivs (by simpa using hl) hnd'.2
      · intro i hi heq
        have hid : i = id := heq
        exact hnd'.1 (hid ▸ hi)

theorem mkEvents_ids (s : Store) (secs : List (Nat × LOp)) (ivs : List (Nat × Nat)) (hl : ivs.length = secs.length) :
    (mkEvents (runSections s secs) ivs).map (·.id) = secs.map (·.1) := by
  induction secs generalizing s ivs with
  | nil => simp [runSections, mkEvents]
  | cons sec rest ih =>
    obtain ⟨id, op⟩ := sec
    cases ivs with
    | nil => simp at hl
    | cons iv ivs =>
      obtain ⟨inv, ret⟩ := iv
      simp only [runSections, mkEvents, List.map_cons]
      rw [ih (apply s op).1 ivs (by simpa using hl)]

theorem mkEvents_length (s : Store) (secs : List (Nat × LOp)) (ivs : List (Nat × Nat)) (hl : ivs.length = secs.length) :
    (mkEvents (runSections s secs) ivs).length = secs.length := by
  have := congrArg List.length (mkEvents_ids s secs ivs hl)
  simpa using this

theorem mkEvents_interval (s : Store) (secs : List (Nat × LOp)) (ivs : List (Nat × Nat)) (hl : ivs.length = secs.length)
    (i : Nat) (h : i < (mkEvents (runSections s secs) ivs).length) :
    ((mkEvents (runSections s secs) ivs)[i].inv, (mkEvents (runSections s secs) ivs)[i].ret) =
      ivs[i]'(by rw [hl, ← mkEvents_length s secs ivs hl]; exact h) := by
  induction secs generalizing s ivs i with
  | nil => simp [runSections, mkEvents] at h
  | cons sec rest ih =>
    obtain ⟨id, op⟩ := sec
    cases ivs with
    | nil => simp at hl
    | cons iv ivs =>
      obtain ⟨inv, ret⟩ := iv
      cases i with
      | zero => simp [runSections, mkEvents]
      | succ i =>
        simp only [runSections, mkEvents, List.getElem_cons_succ]
        exact ih (apply s op).1 ivs (by simpa using hl) i (by simpa [runSections, mkEvents] using h)

/-- **C08_single_section_ops_linearizable** — for every interleaving (the order of `secs`), every operation mix and every
    assignment of invocation/response stamps that brackets each operation's section, the history the section machine produces
    is linearizable with respect to the sequential backend model. -/
theorem C08_single_section_ops_linearizable (init : Store) (secs : List (Nat × LOp)) (ivs : List (Nat × Nat)) (pts : List Nat)
    (hl : ivs.length = secs.length) (hp : pts.length = secs.length)
    (hids : (secs.map (·.1)).Nodup) (hinc : increasing pts)
    (hin : ∀ i (h : i < secs.length), (ivs[i]'(by rw [hl]; exact h)).1 ≤ pts[i]'(by rw [hp]; exact h) ∧
        pts[i]'(by rw [hp]; exact h) ≤ (ivs[i]'(by rw [hl]; exact h)).2) :
    Linearizable init (mkEvents (runSections init secs) ivs) := by
  have hlen := mkEvents_length init secs ivs hl
  apply C08_linearization_points init ⟨mkEvents (runSections init secs) ivs, pts, by rw [hp, hlen]⟩
  · simpa [mkEvents_ids init secs ivs hl] using hids
  · exact hinc
  · intro i h
    have hi : i < secs.length := by rw [← hlen]; exact h
    have := mkEvents_interval init secs ivs hl i h
    have h1 := hin i hi
    have e1 : (mkEvents (runSections init secs) ivs)[i].inv = (ivs[i]'(by rw [hl]; exact hi)).1 := by
      have := congrArg Prod.fst this; simpa using this
    have e2 : (mkEvents (runSections init secs) ivs)[i].ret = (ivs[i]'(by rw [hl]; exact hi)).2 := by
      have := congrArg Prod.snd this; simpa using this
    simp only [e1, e2]
    exact h1
  · simp only [mkEvents_ids init secs ivs hl]
    exact replay_runSections init secs ivs hl hids

/-! ### Non-vacuity: a concrete interleaving of three overlapping operations -/

example : Linearizable Store.empty
    (mkEvents (runSections Store.empty [(1, .write 1 5 false), (2, .read 1), (3, .delete 1)]) [(0, 4), (1, 5), (2, 6)]) :=
  C08_single_section_ops_linearizable _ _ _ [2, 3, 4] rfl rfl (by decide) (by simp [increasing])
    (by
      intro i h
      match i, h with
      | 0, _ => simp
      | 1, _ => simp
      | 2, _ => simp
      | n + 3, h => exact absurd h (by simp))

end Cache.Linz
