import CacheProofs.Lemmas.Refine

/-
  C07 — backends behave as a map with per-entry expiry (sequential).

  `C07_refines_spec`: for EVERY slot function `hash` that is injective (SyncMap: by construction; the sharded
  maps: whenever the keys in play do not collide — the colliding case is C09), every backend kind, every
  configuration and every finite history of timed operations, the outputs of the backend machine equal the outputs
  of the reference map, step by step.  The corollaries spell out the clauses of the property.
-/
namespace Cache
open Std
variable (hash : Key → Nat)

/-- Agreement of one backend output with the reference output. `Walk`/`Len` agree with the reference KEY SET:
    same number of entries, no key twice, and an entry is walked iff the reference holds it with that value and expiry. -/
def OutSim : Out → Spec.SOut → Prop
  | .unit, .unit => True
  | .read .miss, .read .miss => True
  | .read (.hit v), .read (.hit v') => v = v'
  | .read (.expired v e), .read (.expired v' e') => v = v' ∧ e = e'
  | .deleted b, .deleted b' => b = b'
  | .len n, .len n' => n = n'
  | .loaded v, .loaded v' => v = v'
  | .walk es, .walk m =>
      es.length = m.length ∧ (es.map (·.K)).Nodup ∧
      ∀ e, e ∈ es ↔ Spec.get m e.K = some ⟨e.V, e.E⟩ ∧ ∃ e0 ∈ es, e0 = e
  | _, _ => False

theorem read_sim {s : Store} {m : Spec.SMap} {kind : Kind} (cfg : Cfg) (hw : s.WF hash) (hk : KindOK hash kind)
    (hr : Refines hash s m) (k : Key) (skip : Bool) (now : Time) :
    OutSim (.read (s.read hash kind cfg k skip now).2.1) (.read (Spec.read m k skip now)) := by
  rw [read_out hash cfg hw hk]
  unfold Spec.read
  by_cases hs : skip = true
  · simp [hs, OutSim]
  · simp only [hs, Bool.false_eq_true, if_false, hr.get_eq]
    cases hg : s.get hash k with
    | none => simp [OutSim]
    | some e =>
      simp only [Option.map_some, sview]
      by_cases hx : e.E ≠ 0 ∧ e.E < now <;> simp [hx, OutSim]

/-- One step: well-formedness and the simulation relation are preserved, and the outputs agree. -/
theorem C07_step_refines {s : Store} {m : Spec.SMap} (kind : Kind) (cfg : Cfg)
    (hi : Function.Injective hash) (hw : s.WF hash) (hr : Refines hash s m) (now : Time) (op : Op) :
    (Backend.step hash kind cfg s now op).1.WF hash ∧
    Refines hash (Backend.step hash kind cfg s now op).1 (Spec.step cfg m now op).1 ∧
    OutSim (Backend.step hash kind cfg s now op).2.1 (Spec.step cfg m now op).2 := by
  have hk : KindOK hash kind := fun _ => hi
  cases op with
  | write k v ctxTTL rn rd =>
    simp only [Backend.step, Store.write, Spec.step]
    exact ⟨wf_writeCore hash hw _ _ _ _, refines_write hash hw hi hr _ _ _ _, trivial⟩
  | store k v rn rd =>
    simp only [Backend.step, Store.write, Spec.step]
    exact ⟨wf_writeCore hash hw _ _ _ _, refines_write hash hw hi hr _ _ _ _, trivial⟩
  | read k skip =>
    simp only [Backend.step, Spec.step]
    exact ⟨wf_read hash cfg hw hk _ _ _, refines_read hash cfg hw hk hr _ _ _, read_sim hash cfg hw hk hr _ _ _⟩
  | load k =>
    simp only [Backend.step, Spec.step]
    refine ⟨wf_read hash cfg hw hk _ _ _, refines_read hash cfg hw hk hr _ _ _, ?_⟩
    have := read_sim hash cfg hw hk hr k false now
    revert this
    cases (s.read hash kind cfg k false now).2.1 <;> cases Spec.read m k false now <;> simp [OutSim]
  | delete k =>
    simp only [Backend.step, Spec.step]
    refine ⟨wf_delete hash hw k, refines_delete hash hw hk hr k, ?_⟩
    simp only [OutSim, delete_ok_iff hash hw hk, Spec.delete, hr.get_eq]
    cases s.get hash k <;> simp
  | expireAll =>
    simp only [Backend.step, Spec.step]
    exact ⟨wf_expireAll hash hw now, refines_expireAll hash hr now, trivial⟩
  | deleteAll =>
    simp only [Backend.step, Spec.step]
    exact ⟨wf_deleteAll hash s, refines_deleteAll hash s m, trivial⟩
  | len =>
    simp only [Backend.step, Spec.step]
    exact ⟨hw, hr, by simp [OutSim, Spec.len, hr.len_eq]⟩
  | walk =>
    simp only [Backend.step, Spec.step]
    refine ⟨hw, hr, ?_⟩
    refine ⟨by rw [walk_length, hr.len_eq], walk_keys_nodup hash hw, ?_⟩
    intro e
    constructor
    · intro he
      refine ⟨?_, e, he, rfl⟩
      rw [hr.get_eq, (mem_walk_iff hash hw e).mp he]; rfl
    · rintro ⟨_, e0, he0, rfl⟩; exact he0

/-- Output lists agree pointwise. -/
def OutsSim : List Out → List Spec.SOut → Prop
  | [], [] => True
  | o :: os, so :: sos => OutSim o so ∧ OutsSim os sos
  | _, _ => False

/-- **C07_refines_spec** — any history, any length: the backend's results equal the reference map's. -/
theorem C07_refines_spec (kind : Kind) (cfg : Cfg) (hi : Function.Injective hash) (h : History) :
    ∀ (s : Store) (m : Spec.SMap), s.WF hash → Refines hash s m →
      OutsSim (Backend.run hash kind cfg s h).2.1 (Spec.run cfg m h).2 ∧
      Refines hash (Backend.run hash kind cfg s h).1 (Spec.run cfg m h).1 := by
  induction h with
  | nil => intro s m _ hr; exact ⟨trivial, hr⟩
  | cons top rest ih =>
    intro s m hw hr
    obtain ⟨now, op⟩ := top
    have ⟨hw', hr', ho⟩ := C07_step_refines hash kind cfg hi hw hr now op
    have ⟨hos, hrf⟩ := ih _ _ hw' hr'
    simp only [Backend.run, Spec.run]
    exact ⟨⟨ho, hos⟩, hrf⟩

/-- From the empty cache. -/
theorem C07_refines_spec_from_empty (kind : Kind) (cfg : Cfg) (hi : Function.Injective hash) (h : History) :
    OutsSim (Backend.run hash kind cfg Store.empty h).2.1 (Spec.run cfg [] h).2 :=
  (C07_refines_spec hash kind cfg hi h _ _ (wf_empty hash) (refines_empty hash)).1

/-! ### Corollaries: the clauses of the statement, for EVERY hash function (no injectivity needed) -/

/-- Read returns the last written value until it expires, then an expiry error carrying value and expiry time. -/
theorem C07_read_after_write (kind : Kind) (cfg : Cfg) (s : Store) (hw : s.WF hash) (hk : KindOK hash kind)
    (k : Key) (v : Option Val) (E : Time) (b : Bool) (now : Time) :
    ((s.writeCore hash k v E b).read hash kind cfg k false now).2.1 =
      if E ≠ 0 ∧ E < now then .expired v E else .hit v := by
  rw [read_out hash cfg (wf_writeCore hash hw _ _ _ _) hk, get_writeCore]
  simp

/-- SkipRead: always ErrNotFound, no state change, no metric. -/
theorem C07_skipread (kind : Kind) (cfg : Cfg) (s : Store) (k : Key) (now : Time) :
    s.read hash kind cfg k true now = (s, .miss, []) := by
  simp [Store.read]

/-- Delete reports ErrNotFound exactly for keys that are not stored, and afterwards the key reads as missing. -/
theorem C07_delete (kind : Kind) (cfg : Cfg) (s : Store) (hw : s.WF hash) (hk : KindOK hash kind) (k : Key) (now : Time) :
    ((s.delete hash kind k).2.1 = false ↔ s.get hash k = none) ∧
    ((s.delete hash kind k).1.read hash kind cfg k false now).2.1 = .miss := by
  constructor
  · rw [delete_ok_iff hash hw hk]; cases s.get hash k <;> simp
  · rw [read_out hash cfg (wf_delete hash hw k) hk, get_delete hash hw hk]; simp

/-- ExpireAll: every stored entry — never-expiring ones included — reads as expired at any later instant,
    still carrying its last value; nothing disappears. -/
theorem C07_expireAll (kind : Kind) (cfg : Cfg) (s : Store) (hw : s.WF hash) (hk : KindOK hash kind)
    (k : Key) (e : Entry) (he : s.get hash k = some e) (t now : Time) (hlt : t < now) (ht : t ≠ 0) :
    ((s.expireAll t).1.read hash kind cfg k false now).2.1 = .expired e.V t ∧ (s.expireAll t).1.len = s.len := by
  constructor
  · rw [read_out hash cfg (wf_expireAll hash hw t) hk, get_expireAll, he]; simp [ht, hlt]
  · exact len_expireAll s t

/-- DeleteAll empties the cache. -/
theorem C07_deleteAll (kind : Kind) (cfg : Cfg) (s : Store) (hk : KindOK hash kind) (k : Key) (now : Time) :
    ((s.deleteAll).1.read hash kind cfg k false now).2.1 = .miss ∧ (s.deleteAll).1.len = 0 := by
  constructor
  · rw [read_out hash cfg (wf_deleteAll hash s) hk]; simp
  · exact len_deleteAll s

/-- Walk visits exactly the stored entries, each key once; Len is their number. -/
theorem C07_walk_len (s : Store) (hw : s.WF hash) :
    s.walk.length = s.len ∧ (s.walk.map (·.K)).Nodup ∧ ∀ e, e ∈ s.walk ↔ s.get hash e.K = some e :=
  ⟨walk_length s, walk_keys_nodup hash hw, mem_walk_iff hash hw⟩

/-- Well-formedness (one entry per slot, sitting in the slot of its own key) is an invariant of every history. -/
theorem C07_wf (kind : Kind) (cfg : Cfg) (hk : KindOK hash kind) (h : History) :
    ∀ s : Store, s.WF hash → (Backend.run hash kind cfg s h).1.WF hash := by
  induction h with
  | nil => intro s hw; exact hw
  | cons top rest ih =>
    intro s hw
    obtain ⟨now, op⟩ := top
    simp only [Backend.run]
    apply ih
    cases op <;> simp only [Backend.step, Store.write]
    · exact wf_writeCore hash hw _ _ _ _
    · exact wf_read hash cfg hw hk _ _ _
    · exact wf_delete hash hw _
    · exact wf_expireAll hash hw now
    · exact wf_deleteAll hash s
    · exact hw
    · exact hw
    · exact wf_read hash cfg hw hk _ _ _
    · exact wf_writeCore hash hw _ _ _ _

/-! ### Non-vacuity: a concrete history exercising every operation, on a never-expiring, a fresh and an expired entry -/

def demoCfg : Cfg := { ttl := -1, jn := -1, jd := 1, strategy := .lfu, deleteExpiredAfter := 10, countSoftLimit := 0, efn := 1, efd := 2 }
def demoHistory : History :=
  [(100, .write 1 (some 11) 0 0 1), (101, .write 2 (some 22) 50 0 1), (102, .write 3 none (-30) 0 1),
   (110, .read 1 false), (111, .read 2 false), (112, .read 3 false), (113, .read 4 false), (114, .read 1 true),
   (120, .len), (121, .walk), (130, .delete 2), (131, .delete 2), (140, .expireAll), (150, .read 1 false),
   (151, .load 1), (152, .store 5 (some 55) 0 1), (153, .load 5), (160, .deleteAll), (161, .len)]

example : Function.Injective (id : Key → Nat) := fun _ _ h => h
example : (Backend.run id .sharded demoCfg Store.empty demoHistory).2.1.length = 19 := by decide

end Cache
