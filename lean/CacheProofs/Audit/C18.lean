import CacheProofs.Props.C18
open Cache
#print axioms C18_totals_are_sums
#print axioms C18_step_counts
#print axioms C18_backend_totals
#print axioms C18_cleanup_metrics
