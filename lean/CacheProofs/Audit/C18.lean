import CacheProofs.Props.C18
import CacheProofs.Props.C18F
open Cache
#print axioms C18_totals_are_sums
#print axioms C18_step_counts
#print axioms C18_backend_totals
#print axioms C18_cleanup_metrics
#print axioms C18_failover_totals
#print axioms C18_refreshed_counts_restores
