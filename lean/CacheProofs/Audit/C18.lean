import CacheProofs.Props.C18
import CacheProofs.Props.C18F
import CacheProofs.Props.C18C
open Cache Cache.Prims
#print axioms C18_totals_are_sums
#print axioms C18_step_counts
#print axioms C18_backend_totals
#print axioms C18_cleanup_metrics
#print axioms C18_failover_totals
#print axioms C18_refreshed_counts_restores
#print axioms C18_syncmap_removals_counted_exactly
#print axioms C18_syncmap_entries_conserved
#print axioms C18_blind_sweep_overcounts
#print axioms C18_default_backend_reports_under_failover_name
