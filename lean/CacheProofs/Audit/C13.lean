import CacheProofs.Props.C13
open Cache
#print axioms C13_roundtrip
#print axioms C13_same_entries
#print axioms C13_chain
#print axioms C13_cross_family
