import CacheProofs.Props.C10
open Cache
#print axioms C10_effective_ttl
#print axioms C10_unlimited_never_expires
#print axioms C10_jitter_bound
#print axioms C10_jitter_keeps_nonzero
#print axioms C10_bounds
#print axioms C10_never_expires
#print axioms C10_read_boundary
#print axioms C10_admissible_complete
