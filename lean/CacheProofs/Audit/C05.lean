import CacheProofs.Props.C05
open Cache
#print axioms C05_syncread_single_flight
#print axioms C05_failure_suppressed
#print axioms C05_build_only_after_cache_miss
#print axioms C05_no_failure_cache
#print axioms C05_errCache_iff
