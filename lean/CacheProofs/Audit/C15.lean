import CacheProofs.Props.C15
open Cache
#print axioms C15_invalidateName
#print axioms C15_invalidate
#print axioms C15_retry_completes
