import CacheProofs.Props.C08
import CacheProofs.Props.C08L
open Cache.Linz
#print axioms C08_witness_sound
#print axioms C08_verdict_sound
#print axioms C08_read_linearizes
#print axioms C08_linearization_points
#print axioms C08_single_section_ops_linearizable
