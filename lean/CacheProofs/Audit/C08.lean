import CacheProofs.Props.C08
import CacheProofs.Props.C08L
import CacheProofs.Props.C08S
open Cache.Linz
#print axioms C08_witness_sound
#print axioms C08_verdict_sound
#print axioms C08_read_linearizes
#print axioms C08_linearization_points
#print axioms C08_single_section_ops_linearizable
#print axioms C08_search_complete
#print axioms C08_notlin_verdict_sound
