import CacheProofs.Props.C08
open Cache.Linz
#print axioms C08_witness_sound
#print axioms C08_verdict_sound
#print axioms C08_read_linearizes
