import CacheProofs.Props.C11
open Cache
#print axioms C11_delete_exactly
#print axioms C11_cycle_exactly
#print axioms C11_cycles
#print axioms C11_scan_skip_sound
#print axioms C11_default_backend_config_unaltered
#print axioms C11_scan_stays_enabled
