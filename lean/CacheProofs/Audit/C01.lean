import CacheProofs.Props.C01
open Cache
#print axioms C01_no_overlapping_builds
#print axioms C01_single_owner
#print axioms C01_build_under_lock
