import CacheProofs.Props.C09
import CacheProofs.Props.C09F
open Cache
#print axioms C09_read_never_foreign
#print axioms C09_delete_never_foreign
#print axioms C09_collision_costs_a_miss
#print axioms C09_write_frame
#print axioms C09_step_provenance
#print axioms C09_values_have_provenance
#print axioms C09_failover_locks_by_key
#print axioms C09_key_never_changes
#print axioms C09_failure_cache_by_key
#print axioms C09_skeleton_key_handling
