import CacheProofs.Props.C03
open Cache
#print axioms C03_fresh_no_build
#print axioms C03_absent_blocks_on_build
#print axioms C03_stale_served_bg_build
#print axioms C03_stale_sync_update
#print axioms C03_too_stale_blocks_on_build
#print axioms C03_cached_failure_short_circuits
#print axioms C03_skipread_bypasses_failure_cache
#print axioms C03_outcome_is_function_of_cell
