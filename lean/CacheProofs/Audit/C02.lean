import CacheProofs.Props.C02
open Cache
#print axioms C02_provenance
#print axioms C02_never_nil_nil
#print axioms C02_no_cross_key
#print axioms C02_error_provenance
#print axioms C02_waiters_get_owners_result
#print axioms C02_failure_cache_provenance
