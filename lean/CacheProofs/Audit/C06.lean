import CacheProofs.Props.C06
open Cache
#print axioms C06_update_commutes
#print axioms C06_update_idempotent
#print axioms C06_withTTL_keeps_min_nonzero
#print axioms C06_final_store_ttl
#print axioms C06_refresh_uses_update_ttl
#print axioms C06_failure_ttl_reset
#print axioms C06_detached_context
#print axioms C06_bg_ctx_detached
#print axioms C06_skipread_rebuilds_and_stores
#print axioms C06_bg_build_context
