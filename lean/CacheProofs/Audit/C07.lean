import CacheProofs.Props.C07
open Cache
#print axioms C07_step_refines
#print axioms C07_refines_spec
#print axioms C07_refines_spec_from_empty
#print axioms C07_read_after_write
#print axioms C07_skipread
#print axioms C07_delete
#print axioms C07_expireAll
#print axioms C07_deleteAll
#print axioms C07_walk_len
#print axioms C07_wf
