import CacheProofs.Props.C17
open Cache
#print axioms C17_nothing_to_invalidate
#print axioms C17_accept_reject
#print axioms C17_all_callbacks_once_in_order
#print axioms C17_spacing
#print axioms C17_rejected_runs_none
#print axioms C17_run_spacing
#print axioms C17_accepted_when_elapsed
#print axioms C17_rejected_only_within_interval
