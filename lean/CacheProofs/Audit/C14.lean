import CacheProofs.Props.C14
open Cache
#print axioms C14_hash_set_invariant
#print axioms C14_reregister_idempotent
#print axioms C14_hash_changes_on_add
#print axioms C14_import_exact
#print axioms C14_mismatch_imports_nothing
