import CacheProofs.Props.C04
open Cache
#print axioms C04_locks_released_when_quiescent
#print axioms C04_no_stuck_waiter
#print axioms C04_wake_enabled
#print axioms C04_bounded_steps
#print axioms C04_enabled
#print axioms C04_key_captured_by_value
