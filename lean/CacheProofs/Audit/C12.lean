import CacheProofs.Props.C12
open Cache
#print axioms C12_no_breach_no_evict
#print axioms C12_count_overflow_iff
#print axioms C12_amount_fraction
#print axioms C12_amount_count
#print axioms C12_metric_def
#print axioms C12_order
#print axioms C12_validEviction_sound
#print axioms C12_model_eviction_in_order
#print axioms C12_evict_frame
#print axioms C12_metric_tracks_history
#print axioms C12_oracle_is_the_model
