import CacheProofs.Props.C16
import CacheProofs.Props.C16M
open Cache.FP Cache.MM
#print axioms C16_protected_symmetric
#print axioms C16_only_expireAll_rewrites_expiry
#print axioms C16_all_races_are_known_findings
#print axioms C16_table_disciplined_elsewhere
#print axioms C16_race_free_after_repair
#print axioms C16_lockset
#print axioms C16_atomic_discipline
#print axioms C16_close_receive_ordered
#print axioms C16_publication_ordered
#print axioms C16_table_lock_clause_sound
#print axioms C16_semantics_sees_F9a
