import CacheProofs.Props.C16
open Cache.FP
#print axioms C16_protected_symmetric
#print axioms C16_only_expireAll_rewrites_expiry
#print axioms C16_all_races_are_known_findings
#print axioms C16_table_disciplined_elsewhere
#print axioms C16_race_free_after_repair
