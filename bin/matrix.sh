#!/bin/bash
# Full seeded-change matrix on a snapshot (vp run --with-repo -- bin/matrix.sh [seed-ids...]); prints one line per seed and check.
cd "$(dirname "$0")/.." || exit 2
export VERIF_REPO="${VP_RUN_REPO:-/repo}"
bin/verif setup > /dev/null 2>&1 || { echo "setup failed"; exit 2; }
python3 -u bin/seedrun.py "$@" 2>&1 | grep --line-buffered -E "CAUGHT|missed|no claimed"
cp work/seedrun_last.json "${MATRIX_OUT:-work/matrix_last.json}" 2>/dev/null
