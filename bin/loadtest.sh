#!/bin/bash
# Robustness run: every check at the given tier while 2x the cores are busy. Not evidence.
cd "$(dirname "$0")/.." || exit 2
export VERIF_REPO="${VP_RUN_REPO:-/repo}"
tier="${1:-quick}"; seed="${2:-1}"
bin/verif setup > /dev/null 2>&1 || { echo "setup failed"; exit 2; }
pids=()
for i in $(seq 1 32); do ( while :; do :; done ) & pids+=($!); done
trap 'kill "${pids[@]}" 2>/dev/null' EXIT
for p in C01 C02 C03 C04 C05 C06 C07 C08 C09 C10 C11 C12 C13 C14 C15 C16 C17 C18; do
  out=$(VERIF_SEED=$seed bin/verif check $p --tier "$tier" 2>&1 | grep -v "^KNOWN-FINDING" | tail -3 | tr '\n' ' ')
  echo "loaded seed=$seed $out"
done
