"""Per-property claim texts for MANIFEST.json."""

def claim(engine, text, note, technique, ref):
    return {"engine": engine, "text": text, "note": note, "technique": technique, "design_ref": ref}

CLAIMS = {
    "C07": claim("lean-model + harness seq",
        "Lean 4 theorem C07_refines_spec: for every injective slot function, backend kind, configuration and finite history, the "
        "outputs of the backend model equal those of a plain reference map (forward simulation by induction on the history), plus "
        "per-clause corollaries valid for every hash function. The model is tied to /repo by regenerated decision kernels (L1) and "
        "by running real ShardedMap/SyncMap/ShardedMapOf and the compiled model on the same generated scripts with full-state "
        "comparison after every operation (L2); the reference map doubles as monitor.",
        "Model (hand-written control skeleton) is trusted up to the correspondence run; Go runtime, clock, rand modelled as inputs.",
        "Lean 4 proof (refinement to abstract map, induction over histories) + model/implementation correspondence", "DESIGN.md §6 C07"),
}

CLAIMS["C09"] = claim("lean-model + harness seq (constructed xxhash64 collisions, key-buffer rewriting)",
    "Lean 4 theorems for EVERY hash function (collisions included): reads/deletes never touch a foreign key's entry, a collision "
    "costs at most a miss, and over every history each returned value was written for that very key (C09_values_have_provenance, "
    "by induction). Correspondence: real backends driven with algebraically constructed xxhash64 collisions, caller key buffers "
    "overwritten after every call, full-state comparison against the compiled model.",
    "Aliasing (buffer reuse) is a runtime fact: the model has value semantics; that half rests on the structural facts re-read from the source "
    "on every run and proved true in C09_skeleton_key_handling (key-lock table indexed by string(key), key copied before the go statement, "
    "backends store a slice they made themselves) and on the adversarial harness (buffers rewritten after every call, single-P scenarios, "
    "colliding keys through the frontend).",
    "Lean 4 proof (for all hash functions; invariant over histories) + model/implementation correspondence", "DESIGN.md §6 C09")
CLAIMS["C10"] = claim("lean-model + harness seq",
    "Lean 4 theorems: effective ttl selection, jitter displacement bounded by |T|*J/2 for every T, J in (0,1], r in [0,1) "
    "(C10_bounds), jitter never produces 'never expires', read boundary (hit iff now <= E, ExpiredAt = stored E = Walk's value); "
    "C10_admissible_complete proves the interval test applied to every observed expiry can raise no false alarm in exact arithmetic. "
    "Correspondence: every real Write bracketed by clock readings, observed expiry checked against the proved interval.",
    "float64 jitter arithmetic idealised as exact rationals (slack |T|*2^-40+1 ns); clock and rand are inputs.",
    "Lean 4 proof (integer arithmetic, all inputs) + model/implementation correspondence", "DESIGN.md §6 C10")
CLAIMS["C11"] = claim("lean-model + harness seq (hook-driven cycles and the real 1ms janitor)",
    "Lean 4 theorems: a cleanup cycle without limit breach removes exactly the entries expired longer than DeleteExpiredAfter "
    "(C11_cycle_exactly), lifted to any number of cycles (C11_cycles), and the scan-skip optimisation is sound along every history "
    "of operations, cycles and restores (C11_scan_skip_sound, invariant by induction); the scan counter never decreases, so a scan once on stays on (C11_scan_stays_enabled). Correspondence: generated histories on all "
    "three backends with synchronous cycles (verif hook) and with the real janitor goroutine.",
    "Janitor scheduling is modelled as 'a cycle happens'; real-janitor runs wait for the settled state (bounded 3 s).",
    "Lean 4 proof (invariant by induction over histories) + model/implementation correspondence", "DESIGN.md §6 C11")
CLAIMS["C12"] = claim("lean-model + harness seq",
    "Lean 4 theorems: no breach => no eviction; amount floor(n*a/b), for a count breach kept m with L(b-a) <= m*b < L(b-a)+b; "
    "every removed entry ranks no higher than every kept one (C12_order via sortedness of mergeSort), soundness of the executable "
    "order check applied to observed evictions, metric tracks access history. Correspondence: real cleanup cycles around and far "
    "above the limits, all strategies and fractions, observed victims validated by the proved predicate.",
    "float64 n*frac idealised by exact rationals (one entry slack only within 2^-20 of an integer); sort.Slice tie order unspecified.",
    "Lean 4 proof (arithmetic + sortedness, all sizes/fractions/histories) + model/implementation correspondence", "DESIGN.md §6 C12")
CLAIMS["C18"] = claim("lean-model + harness seq / fo / linz / conserve (counting StatsTracker)",
    "Lean 4 theorems: for every sequential history the emitted metric events sum to exactly the operation counts "
    "(C18_backend_totals: hit+miss+expired = non-skipped reads + entries touched by ExpireAll, write, delete; C18_cleanup_metrics; "
    "C18_failover_totals / C18_refreshed_counts_restores for the frontend machine, every schedule), by induction; and for SyncMap under "
    "concurrency, at the granularity of sync.Map primitives with the reporting decisions regenerated from the source: for EVERY interleaving "
    "of Writes, Deletes and the per-key steps of any number of DeleteAll calls the delete counter equals the entries removed and entries are "
    "conserved per key (C18_syncmap_removals_counted_exactly, C18_syncmap_entries_conserved); the code before repair F15 is refuted "
    "(C18_blind_sweep_overcounts). Implementation side: the totals of a counting StatsTracker compared per cache name with the model after "
    "every generated script (backends, Failover scheduler engine), a per-key delete-overcount monitor under concurrent deletes, a conservation "
    "engine (every key written once; cache_delete must equal keys written minus Len under concurrent Delete / DeleteAll), and a builder-panic suite.",
    "sync.Map primitives are assumed atomic; builder panics are outside the Lean machine (bookkeeping monitors only).",
    "Lean 4 proof (additivity over histories; induction over primitive interleavings) + model/implementation correspondence", "DESIGN.md §6 C18")

CLAIMS["C13"] = claim("lean-model + harness xfer",
    "Lean 4 theorems: restoring ANY permutation of a store's entries into an empty cache of the same family reproduces it slot by slot "
    "(C13_roundtrip), same entries per key and under Walk, relays through several instances (C13_chain), cross-family under an injective "
    "target slot function. Correspondence: real Dump/Restore across all five source/target pairings, sizes 0..300 (1500 thorough), nil/zero/"
    "populated values, mixed expiry, chains of three hops, model state compared with the restored cache.",
    "encoding/gob modelled as identity on records decoded into fresh variables (the harness is what notices reuse of a decode target).",
    "Lean 4 proof (all permutations, all stores) + model/implementation correspondence", "DESIGN.md §6 C13")
CLAIMS["C14"] = claim("lean-model + harness xfer (in-process RoundTripper, fresh child processes for the hash)",
    "Lean 4 theorems: the types hash depends only on the SET of registered types for every fingerprint function (C14_hash_set_invariant, "
    "via XOR permutation invariance), changes when a new type with non-zero fingerprint is added, re-registration is idempotent; import is "
    "exact on matching hash/name and a no-op otherwise. Correspondence: real Export/Import between HTTPTransfer instances with hash mismatch, "
    "unknown names, truncated/failing bodies; registration sequences evaluated in fresh processes against the model's XOR.",
    "net/http, gob, reflect trusted; the real FNV fingerprint is observed per type in a fresh process, not modelled.",
    "Lean 4 proof (BitVec xor algebra, List.Perm) + model/implementation correspondence", "DESIGN.md §6 C14")
CLAIMS["C15"] = claim("lean-model + harness inval",
    "Lean 4 theorems about a model that follows the Go control flow literally (cut, dedup, per-deleter delete, put-back): for every index, "
    "label list (repeats included), visiting order of names and fault oracle — precision, completeness on success, on failure every labelled key "
    "is gone or still indexed (C15_invalidate), and a fault-free retry completes (C15_retry_completes). Correspondence: real InvalidationIndex over "
    "real caches with a deleter failure at every position, recover(), retries, AddLabels from inside a failing delete; index and caches compared "
    "with the model after every operation.",
    "Truthful deleters apart from injected failures; concurrency of AddLabels with an invalidation is exercised through re-entrancy only.",
    "Lean 4 proof (nested structural inductions over the control flow) + model/implementation correspondence", "DESIGN.md §6 C15")
CLAIMS["C17"] = claim("lean-model + harness inval",
    "Lean 4 theorems: accept/reject rule, callbacks 0..n-1 exactly once in order, rejected calls change nothing, and over every schedule the "
    "mutex allows consecutive accepted stamps are at least SkipInterval apart (C17_run_spacing, induction); no spurious rejection (C17_accepted_when_elapsed, C17_rejected_only_within_interval). Correspondence: real Invalidator, "
    "sequential calls compared through clock brackets, concurrent callers checked by the block/overlap/spacing monitor.",
    "sync.Mutex provides mutual exclusion (trusted); the clock is an input.",
    "Lean 4 proof (induction over call sequences) + model/implementation correspondence", "DESIGN.md §6 C17")

CLAIMS["C01"] = claim("lean-model + harness fo (deterministic call-out scheduler)",
    "Lean 4 theorem C01_no_overlapping_builds: in every reachable state of a small-step machine of Get (both variants, every "
    "configuration, unbounded threads/keys, one shared action per step, free backend/builder answers) two threads inside the builder "
    "have different keys — via an inductive lock-ownership invariant (7 clauses) preserved by all 9 step kinds. Correspondence: real "
    "Failover/FailoverOf over real backends under a deterministic scheduler that parks every backend/builder call-out; after each "
    "resume all goroutine positions, call-out arguments and results are compared with the machine; monitor: no two parked builders per key.",
    "Go scheduler / channels / mutex semantics modelled (one shared action per step); implementation exercised at call-out granularity.",
    "Lean 4 proof (inductive invariant over all interleavings) + model/implementation correspondence", "DESIGN.md §6 C01")
CLAIMS["C04"] = claim("lean-model + harness fo (faults, cancelled contexts, key-buffer rewriting)",
    "Lean 4 theorems: no key lock remains when all threads are done (C04_locks_released_when_quiescent), a waiter is never orphaned "
    "(closed lock or a live non-waiting owner), every non-waiting thread is enabled for any call-out answer, every step strictly lowers "
    "the stepping thread's rank and touches no other thread (at most 12 steps per Get), the key is captured by value. Correspondence: "
    "scheduler runs with builder failures, backend read/write faults at random call-outs, contexts cancelled before/inside the build, key "
    "buffers rewritten after return; monitors: every Get returns, VerifKeyLocks()==0 at quiescence.",
    "Liveness is 'enabled + bounded rank' on the machine; real goroutine fairness is the Go runtime's (trusted). Buffer aliasing is enforced by the harness only.",
    "Lean 4 proof (invariant + ranking function) + model/implementation correspondence", "DESIGN.md §6 C04")

CLAIMS["C02"] = claim("lean-model + harness fo (fault injection at every backend call-out)",
    "Lean 4 theorem C02_provenance: in every reachable state of the Get machine (any threads, schedule, configuration, variant, free "
    "backend answers incl. read/write errors, free builder outcomes) every returned result is (v,nil) with v built for or read from the "
    "backend under THAT key, or a non-nil error a builder/backend call for that key produced; never (nil,nil) — via a second inductive "
    "invariant (thread-local provenance, lock records, failure cache) on top of the lock invariant. Correspondence: scheduler runs with "
    "faults injected at random backend call-outs; monitor checks provenance of every real result from token bookkeeping.",
    "Values/errors are opaque tokens; the harness mints them so that a token identifies (key, producer).",
    "Lean 4 proof (inductive invariant over all interleavings and fault scripts) + model/implementation correspondence", "DESIGN.md §6 C02")
CLAIMS["C03"] = claim("lean-model + harness fo (profile table: the complete decision table, exhaustive)",
    "Lean 4 theorems, one per clause of the statement, about the machine run with one thread (loneGet): fresh => no build; absent => "
    "blocking build; acceptable stale => served at once with a background build (or after the build with SyncUpdate); build failure => stale "
    "value unless FailHard; too stale => never served while the rebuild succeeds; cached failure short-circuits; keys/values/errors/clock "
    "universally quantified, flags case-split. Correspondence: ALL 1008 cells (3 frontend/backend pairings x entry state x failure cache x "
    "flags x builder outcome) executed on the real code, compared with the machine and with an independently written README table.",
    "What value accompanies a cached failure is left open by statement and theorems.",
    "Lean 4 proof (symbolic execution of the machine per table cell) + exhaustive model/implementation correspondence", "DESIGN.md §6 C03")
CLAIMS["C05"] = claim("lean-model + harness fo (SyncRead profile; failure-expiry bounds)",
    "Lean 4 theorems: C05_syncread_single_flight — in composition with a well-behaved backend (a stored build result is answered as a hit) "
    "and SyncRead, in every reachable state no non-SkipRead thread is in or heading for the builder of a key that holds a fresh build result "
    "(third inductive invariant); failure suppression: an unexpired cached failure short-circuits the Get, the builder is only ever reached "
    "after a failure-cache miss, FailedUpdateTTL=-1 disables both. Correspondence: real runs; monitors flag any builder invocation after a "
    "stored fresh result (SyncRead) or after a failure within FailedUpdateTTL; the stored failure's expiry is checked against the C10 bounds.",
    "'While the result stays fresh' = the window in which the backend constraint holds; expiry of the failure entry relies on C10.",
    "Lean 4 proof (invariant over the composed system) + model/implementation correspondence", "DESIGN.md §6 C05")
CLAIMS["C06"] = claim("lean-model + harness fo (TTL(ctx) recorded at every backend write, builder context inspected)",
    "Lean 4 theorems: folding WithTTL(...,true) updates keeps the least non-zero ttl (proved about the kernel regenerated from context.go; "
    "commutative, idempotent); the final store carries the caller's cell lowered by the builder's updates, the stale re-store carries "
    "UpdateTTL in its own cell, the failure is cached under a reset ttl, background builds run under the detached context, SkipRead rebuilds "
    "and stores. Correspondence: cache.TTL(ctx) observed at every real Write and compared with the machine's request; builder contexts "
    "checked for Done/Err/Deadline/Value with caller contexts cancelled before and during the build.",
    "context.Context semantics (values, cancellation) is the Go standard library's.",
    "Lean 4 proof (arithmetic on the regenerated kernel + machine step lemmas) + model/implementation correspondence", "DESIGN.md §6 C06")

CLAIMS["C16"] = claim("lean-model (trace semantics + footprint table) + harness race (Go race detector in child processes)",
    "PARTIAL. (1) General theorems over ALL legal traces of a trace semantics of the Go memory model fragment the cache uses (RWMutex, "
    "sync/atomic, close/receive; any number of goroutines, locks, locations, any interleaving): the lockset theorem (accesses under a common "
    "lock, writes exclusive => ordered by happens-before => no data race), atomic discipline, close-before-receive and init-before-publish "
    "orderings, and soundness of the footprint table's lock clause for that semantics; the semantics does call the known F9a shape a race. "
    "(2) Kernel-decided theorems over the complete footprint table of the public API (172 accesses with their "
    "guards): every unprotected conflicting pair is one of the two known findings (in-place expiry write of ExpireAll; plain struct "
    "copies vs the atomic LRU/LFU counter), every other location (shard maps, sync.Map, key locks and lock records, label index, "
    "deleters, lastRun, expirationsSet) is disciplined, and the table is race free once the two repairs are applied. Implementation side: "
    "all pairs (quick: a seeded two thirds) of a 15-op backend and a 12-op frontend catalogue run concurrently under the race detector; "
    "every report must be one the model predicts (else VIOLATION); predicted ones are listed as known findings.",
    "Partial: the table is hand-written; it is tied to the code by tools/gofacts (every access the source makes, with the lock held at it as read off the function text, "
    "must be covered by a row with that location, direction and guard - regenerated on every run) and by the detector, which sees only executions that happen; "
    "that the trace semantics matches the Go memory model document and that sync.Map is internally synchronised are assumed.",
    "Lean 4 proof (induction over traces for the lockset theorem; decide +kernel over the footprint table) + race-detector correspondence", "DESIGN.md §6 C16")

CLAIMS["C08"] = claim("lean-model (Linz checker, slot-heap model) + harness linz (free-running goroutines)",
    "PARTIAL. Lean 4 theorems: the executable linearizability checker applied to every observed per-slot history is sound (an accepted "
    "history has a real-time respecting witness order that replays on the proved backend model), and the only multi-section operation of "
    "the sharded maps — Read: pointer fetch under the read lock, evaluation after unlock, against in-place expiry rewrites by ExpireAll — "
    "takes effect at one instant for EVERY interleaving of other operations' lock sections (C08_read_linearizes, induction over the "
    "interleaving); and the linearization-point theorem: every execution in which each operation acts on the slot in ONE section inside its "
    "invocation/response interval (any goroutines, any interleaving, batch operations acting at one instant) has a linearizable history "
    "(C08_linearization_points, C08_single_section_ops_linearizable); and completeness of the checker's search (C08_search_complete, "
    "C08_notlin_verdict_sound: if any real-time respecting order replays on the model the bounded search returns a witness or 'budget exhausted', "
    "never 'not found' - so both verdicts the correspondence run acts on are backed by a theorem). Implementation side: 2-8 free-running goroutines with random op mixes over plain and xxhash64-colliding keys on all "
    "backends and strategies, every slot history judged by the Lean checker; concurrent Walk monitor; a directed cleanup/rewrite stress.",
    "Partial: mutual exclusion of sync.RWMutex / linearizability of sync.Map / Go map iteration guarantees are assumed; schedules are sampled, not enumerated.",
    "Lean 4 proof (checker soundness, linearization-point theorem, induction over lock-section interleavings) + statistical correspondence", "DESIGN.md §6 C08")

NOT_APPLICABLE = {}
for _p in []:
    NOT_APPLICABLE[_p] = "check under construction in this round (model slice or theorem not yet committed); will be claimed when its check exists"
