"""Per-property claim texts for MANIFEST.json."""

def claim(engine, text, note, technique, ref):
    return {"engine": engine, "text": text, "note": note, "technique": technique, "design_ref": ref}

CLAIMS = {
    "C07": claim("lean-model + harness seq",
        "Lean 4 theorem C07_refines_spec: for every injective slot function, backend kind, configuration and finite history, the "
        "outputs of the backend model equal those of a plain reference map (forward simulation by induction on the history), plus "
        "per-clause corollaries valid for every hash function. The model is tied to /repo by regenerated decision kernels (L1) and "
        "by running real ShardedMap/SyncMap/ShardedMapOf and the compiled model on the same generated scripts with full-state "
        "comparison after every operation (L2); the reference map doubles as monitor.",
        "Model (hand-written control skeleton) is trusted up to the correspondence run; Go runtime, clock, rand modelled as inputs.",
        "Lean 4 proof (refinement to abstract map, induction over histories) + model/implementation correspondence", "DESIGN.md §6 C07"),
}

NOT_APPLICABLE = {}
for _p in ["C01","C02","C03","C04","C05","C06","C08","C09","C10","C11","C12","C13","C14","C15","C16","C17","C18"]:
    NOT_APPLICABLE[_p] = "check under construction in this round (model slice or theorem not yet committed); will be claimed when its check exists"
