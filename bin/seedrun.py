#!/usr/bin/env python3
"""Apply each seeded change under /verif/seeded to /repo, run the checks of the property it breaks (or the ones given),
undo the change, and record which checks caught it.   usage: seedrun.py [seed-id ...] [--props C07,C09] [--tier quick]"""
import json, os, subprocess, sys, time
VERIF = os.path.dirname(os.path.dirname(os.path.abspath(__file__)))
REPO = os.environ.get("VP_RUN_REPO") or os.environ.get("VERIF_REPO") or "/repo"
os.environ["VERIF_REPO"] = REPO
args = [a for a in sys.argv[1:] if not a.startswith("--")]
props_override = None
tier = "quick"
for i, a in enumerate(sys.argv):
    if a == "--props": props_override = sys.argv[i + 1].split(",")
    if a == "--tier": tier = sys.argv[i + 1]
args = [a for a in args if a not in (",".join(props_override or []), tier)]
manifest = json.load(open(os.path.join(VERIF, "MANIFEST.json")))
claimed = {c["property_id"] for c in manifest["checks"]}
seeds = args or sorted(os.listdir(os.path.join(VERIF, "seeded")))
# the checks rewrite /verif/evidence on every run; what is committed there must come from the unchanged tree
import shutil, atexit
evidence_backup = os.path.join(VERIF, "work", "evidence_before_seedrun")
shutil.rmtree(evidence_backup, ignore_errors=True)
shutil.copytree(os.path.join(VERIF, "evidence"), evidence_backup)
def _restore_evidence():
    shutil.rmtree(os.path.join(VERIF, "evidence"), ignore_errors=True)
    shutil.copytree(evidence_backup, os.path.join(VERIF, "evidence"))
atexit.register(_restore_evidence)
out = {}
for sid in seeds:
    d = os.path.join(VERIF, "seeded", sid)
    if not os.path.exists(os.path.join(d, "patch.diff")):
        continue
    meta = json.load(open(os.path.join(d, "meta.json")))
    if "property" not in meta:
        continue  # (behaviour-preserving changes are run by bin/harmless.py)
    props = props_override or [meta["property"]] + meta.get("also_check", [])
    props = [p for p in props if p in claimed]
    if not props:
        print(sid, "no claimed check for", meta["property"]); continue
    assert subprocess.run(["git", "-C", REPO, "status", "--porcelain", "--untracked-files=no"], capture_output=True, text=True).stdout.strip() == "", REPO + " dirty"
    subprocess.run(["git", "-C", REPO, "apply", os.path.join(d, "patch.diff")], check=True)
    res = {}
    try:
        for p in props:
            t0 = time.time()
            r = subprocess.run([os.path.join(VERIF, "bin", "verif"), "check", p, "--tier", tier], cwd=VERIF, capture_output=True, text=True)
            lines = [l for l in r.stdout.split("\n") if l.startswith("VIOLATION") or l.startswith("  detail") or l.startswith("  proof")]
            res[p] = {"exit": r.returncode, "caught": r.returncode == 1, "wall_s": round(time.time() - t0, 1), "lines": lines[:4]}
            print(sid, p, "CAUGHT" if r.returncode == 1 else "missed(exit %d)" % r.returncode, (lines[:2] or [""])[0][:150], flush=True)
            if r.returncode == 2:
                print(r.stderr[-800:])
    finally:
        subprocess.run(["git", "-C", REPO, "checkout", "--", "."], check=True)
    out[sid] = res
json.dump(out, open(os.path.join(VERIF, "work", "seedrun_last.json"), "w"), indent=1)
