#!/usr/bin/env python3
"""Regenerates MANIFEST.json from bin/plan.py and the table below (kept in one place so it never goes stale)."""
import json, os, sys
VERIF = os.path.dirname(os.path.dirname(os.path.abspath(__file__)))
sys.path.insert(0, os.path.join(VERIF, "bin"))
from plan import PLAN
from claims import CLAIMS, NOT_APPLICABLE

hooks_commits = open(os.path.join(VERIF, "hooks_commits.txt")).read().split()
checks = []
for pid in sorted(CLAIMS):
    if pid not in PLAN:
        continue
    c = CLAIMS[pid]
    checks.append({
        "property_id": pid,
        "quick_cmd": "bin/verif check %s --tier quick" % pid,
        "thorough_cmd": "bin/verif check %s --tier thorough" % pid,
        "evidence_file": "evidence/%s.json" % pid,
        "replay_cmd_template": "bin/verif replay {path}",
        "engine": c["engine"],
        "level_claimed": {"category": "proof", "text": c["text"], "design_ref": c["design_ref"]},
        "level_note": c["note"],
        "technique": c["technique"],
    })
na = [{"property_id": p, "reason": r} for p, r in sorted(NOT_APPLICABLE.items()) if p not in PLAN or p not in CLAIMS]
m = {
    "version": 1,
    "setup_cmd": "bin/verif setup",
    "hooks": {
        "guard": "verif",
        "enable": "go build -tags verif (the harness module replaces github.com/bool64/cache by /repo)",
        "baseline_off_cmd": "cd /repo && GOFLAGS=-mod=mod GOPROXY=off GOSUMDB=off GOTOOLCHAIN=local go test -json -vet=off -count=1 -timeout 25m ./...",
        "source_commits": hooks_commits,
        "add_only": True,
    },
    "engines": [
        {"name": "lean-model", "path": "lean/", "serves_properties": sorted(PLAN),
         "kind_free_text": "Lean 4 executable model (CacheModel), property theorems (CacheProofs/Props), compiled driver (Main.lean)"},
        {"name": "gokernel", "path": "tools/gokernel/", "serves_properties": sorted(PLAN),
         "kind_free_text": "L1: go/ast translator regenerating the decision kernels (lean/CacheModel/Gen.lean) from /repo on every run"},
        {"name": "harness", "path": "harness/", "serves_properties": sorted(PLAN),
         "kind_free_text": "L2: Go correspondence harness driving the real package and the Lean driver on the same inputs; monitors"},
    ],
    "checks": checks,
    "not_applicable": na,
    "notes": "All checks: bin/verif check <id> --tier quick|thorough; honours VERIF_SEED and VERIF_TIER. See DESIGN.md.",
}
json.dump(m, open(os.path.join(VERIF, "MANIFEST.json"), "w"), indent=1)
print("MANIFEST.json: %d checks, %d not_applicable" % (len(checks), len(na)))
