#!/bin/bash
# Background sweep on a snapshot (vp run --with-repo): every check, several seeds, given tier. Not evidence.
#   usage: bin/sweep.sh <tier> <seed>...
cd "$(dirname "$0")/.." || exit 2
export VERIF_REPO="${VP_RUN_REPO:-/repo}"
tier="$1"; shift
bin/verif setup > /dev/null 2>&1 || { echo "setup failed"; exit 2; }
for seed in "$@"; do
  for p in C01 C02 C03 C04 C05 C06 C07 C08 C09 C10 C11 C12 C13 C14 C15 C16 C17 C18; do
    out=$(VERIF_SEED=$seed bin/verif check $p --tier "$tier" 2>&1 | grep -v "^KNOWN-FINDING" | tail -3 | tr '\n' ' ')
    echo "seed=$seed $out"
  done
done
