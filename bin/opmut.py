#!/usr/bin/env python3
"""Operator-level mutation campaign: a measuring instrument for the checks (not a check itself).

  bin/opmut.py list                 enumerate the mutations of /repo (tools/opmut) -> work/opmut/all.jsonl
  bin/opmut.py stage1 [-j N]        apply each to a scratch copy, build, run the existing test suite -> stage1.jsonl
                                    (nobuild | killed-by-tests | survived)
  bin/opmut.py stage2 [-j N] [ids]  for each survivor run the quick checks of the properties anchored in the mutated file,
                                    in a private copy of /verif and of /repo -> stage2.jsonl (caught concrete | nfi | missed)
  bin/opmut.py report               summary tables -> work/opmut/REPORT.md

Everything happens in copies under /tmp/opmut (removed at the end of each stage); /repo and /verif are only read.
"""
import json, os, shutil, subprocess, sys, threading, queue, time

VERIF = os.path.dirname(os.path.dirname(os.path.abspath(__file__)))
OUT = os.path.join(VERIF, "work", "opmut")
SCR = "/tmp/opmut"
GOENV = dict(os.environ, GOFLAGS="-mod=mod", GOPROXY="off", GOSUMDB="off", GOTOOLCHAIN="local")
os.makedirs(OUT, exist_ok=True)


def sh(cmd, cwd=None, env=None, timeout=600):
    try:
        p = subprocess.run(cmd, cwd=cwd, env=env or GOENV, stdout=subprocess.PIPE, stderr=subprocess.STDOUT, text=True, timeout=timeout)
        return p.returncode, p.stdout
    except subprocess.TimeoutExpired as e:
        return 124, (e.stdout or b"").decode() if isinstance(e.stdout, bytes) else (e.stdout or "")


def load(path):
    if not os.path.exists(path):
        return []
    return [json.loads(l) for l in open(path) if l.strip()]


def file_props():
    m = {}
    for l in open(os.path.join(VERIF, "properties.jsonl")):
        p = json.loads(l)
        for f in p["anchors"]["files"]:
            m.setdefault(f, []).append(p["id"])
    # code shared by everything
    m.setdefault("config.go", ["C10", "C11", "C12"])
    m.setdefault("error.go", ["C07", "C03"])
    m.setdefault("error_go1.18.go", ["C07", "C03"])
    m.setdefault("stats.go", ["C18"])
    m.setdefault("cache_go1.18.go", ["C07"])
    for f in ("sharded_map.go", "sharded_map_go1.18.go"):
        m[f].append("C18")
    m["sharded_map_go1.18.go"].append("C15")  # (the embedded invalidation index)
    # cheap and most telling checks first (a mutant is done at its first concrete catch)
    order = {"failover.go": ["C03", "C02", "C06", "C05", "C01", "C04", "C18", "C09", "C16"],
             "trait.go": ["C07", "C10", "C11", "C12", "C18", "C13", "C06", "C02", "C16"]}
    order["failover_go1.18.go"] = order["failover.go"]
    for f, o in order.items():
        m[f] = [p for p in o if p in m[f]] + [p for p in m[f] if p not in o]
    return m


def out_of_scope(m):
    """logging only: no property speaks about log output"""
    import re
    islog = re.search(r"log(Debug|Error|Warn|Important)\b|\.Log\.log|logTrait", m["orig"]) is not None
    return islog and m["kind"] in ("delcall", "iffalse", "delstore")


def apply_mut(repo, m):
    p = os.path.join(repo, m["file"])
    b = open(p, "rb").read()
    assert b[m["start"]:m["end"]].decode() == m["orig"], (m["id"], "source moved")
    open(p, "wb").write(b[:m["start"]] + m["repl"].encode() + b[m["end"]:])
    return b


def copy_repo(dst):
    shutil.rmtree(dst, ignore_errors=True)
    subprocess.run(["rsync", "-a", "--exclude", ".git", "/repo/", dst + "/"], check=True)


def lanes(n, items, work, done_path, key="id"):
    done = {r[key] for r in load(done_path)}
    q = queue.Queue()
    for it in items:
        if it[key] not in done:
            q.put(it)
    lock = threading.Lock()
    total = q.qsize()
    cnt = [0]

    def run(i):
        lane = os.path.join(SCR, "lane%d" % i)
        os.makedirs(lane, exist_ok=True)
        ctx = {"lane": lane, "i": i}
        while True:
            try:
                it = q.get_nowait()
            except queue.Empty:
                return
            try:
                r = work(ctx, it)
            except Exception as e:  # noqa
                r = dict(it, status="infra", error=repr(e)[:500])
            with lock:
                cnt[0] += 1
                with open(done_path, "a") as f:
                    f.write(json.dumps(r) + "\n")
                print("[%d/%d] %s %s %s:%d %s %r->%r  %s" % (cnt[0], total, r["id"], r.get("status"), r["file"], r["line"], r["kind"], r["orig"][:30], r["repl"], r.get("summary", "")), flush=True)
    ts = [threading.Thread(target=run, args=(i,)) for i in range(n)]
    for t in ts:
        t.start()
    for t in ts:
        t.join()


def stage1_work(ctx, m):
    repo = os.path.join(ctx["lane"], "repo")
    if not os.path.isdir(repo):
        copy_repo(repo)
    orig = apply_mut(repo, m)
    try:
        rc, out = sh(["go", "vet", "-tags", "verif", "."], cwd=repo, timeout=300)
        if rc != 0:
            return dict(m, status="nobuild")
        t0 = time.time()
        for pkg in (".", "./bench/..."):
            rc, out = sh(["go", "test", "-vet=off", "-count=1", "-timeout", "120s", pkg], cwd=repo, timeout=400)
            if rc != 0:
                fails = [l for l in out.split("\n") if l.startswith("--- FAIL") or "panic:" in l or "timed out" in l][:3]
                return dict(m, status="killed", by=fails, wall=round(time.time() - t0, 1))
        return dict(m, status="survived", wall=round(time.time() - t0, 1))
    finally:
        open(os.path.join(repo, m["file"]), "wb").write(orig)


def stage2_work(ctx, m):
    lane = ctx["lane"]
    repo = os.path.join(lane, "repo")
    verif = os.path.join(lane, "verif")
    if not os.path.isdir(repo):
        copy_repo(repo)
    if not os.path.isdir(verif):
        subprocess.run(["rsync", "-a", "--exclude", ".git", "--exclude", "seeded", "--exclude", "replays", "--exclude", "work/opmut",
                        "--exclude", "work/evidence_before_*", VERIF + "/", verif + "/"], check=True)
        shutil.rmtree(os.path.join(verif, "work", "bin"), ignore_errors=True)
    props = FILE_PROPS.get(m["file"], [])
    orig = apply_mut(repo, m)
    res = {}
    try:
        env = dict(GOENV, VERIF_REPO=repo, VERIF_SEED=os.environ.get("VERIF_SEED", "1"))
        for p in props:
            t0 = time.time()
            rc, out = sh([os.path.join(verif, "bin", "verif"), "check", p, "--tier", "quick"], cwd=verif, env=env, timeout=2400)
            vl = [l for l in out.split("\n") if l.startswith("VIOLATION")]
            concrete = any("no-failing-input-found" not in l for l in vl)
            detail = [l.strip()[:300] for l in out.split("\n") if l.startswith("  detail") or l.startswith("  proof")][:2]
            res[p] = {"exit": rc, "verdict": ("concrete" if concrete else "nfi") if rc == 1 else ("missed" if rc == 0 else "infra"),
                      "wall": round(time.time() - t0, 1), "detail": detail}
            if rc not in (0, 1):
                res[p]["tail"] = out[-600:]
            if rc == 1 and concrete and not os.environ.get("OPMUT_ALL_PROPS"):
                break  # caught with a concrete input: enough for this mutant
    finally:
        open(os.path.join(repo, m["file"]), "wb").write(orig)
    verdicts = [r["verdict"] for r in res.values()]
    status = "concrete" if "concrete" in verdicts else "nfi" if "nfi" in verdicts else "infra" if "infra" in verdicts else "missed"
    return dict(m, status=status, checks=res, summary=" ".join("%s=%s" % (p, r["verdict"]) for p, r in res.items()))


def main():
    global FILE_PROPS
    FILE_PROPS = file_props()
    cmd = sys.argv[1]
    j = 8
    args = sys.argv[2:]
    if "-j" in args:
        j = int(args[args.index("-j") + 1])
        del args[args.index("-j"):args.index("-j") + 2]
    if cmd == "list":
        exe = os.path.join(VERIF, "work", "bin", "opmut")
        rc, out = sh(["go", "build", "-o", exe, "."], cwd=os.path.join(VERIF, "tools", "opmut"))
        assert rc == 0, out
        rc, out = sh([exe, "-repo", "/repo"])
        open(os.path.join(OUT, "all.jsonl"), "w").write(out)
        print(len(out.strip().split("\n")), "mutations")
    elif cmd == "stage1":
        shutil.rmtree(SCR, ignore_errors=True)
        lanes(j, load(os.path.join(OUT, "all.jsonl")), stage1_work, os.path.join(OUT, "stage1.jsonl"))
        shutil.rmtree(SCR, ignore_errors=True)
    elif cmd == "stage2":
        shutil.rmtree(SCR, ignore_errors=True)
        surv = [m for m in load(os.path.join(OUT, "stage1.jsonl")) if m["status"] == "survived"]
        if args:
            surv = [m for m in surv if m["id"] in args]
        skipped = [m for m in surv if out_of_scope(m)]
        surv = [m for m in surv if not out_of_scope(m)]
        json.dump([m["id"] for m in skipped], open(os.path.join(OUT, "out_of_scope_logging.json"), "w"))
        print(len(skipped), "logging-only mutants skipped;", len(surv), "to run")
        lanes(j, surv, stage2_work, os.path.join(OUT, os.environ.get("OPMUT_STAGE2", "stage2.jsonl")))
        shutil.rmtree(SCR, ignore_errors=True)
    elif cmd == "report":
        import collections, re
        s1 = load(os.path.join(OUT, "stage1.jsonl"))
        s2 = {}
        for r in load(os.path.join(OUT, "stage2.jsonl")):
            s2[r["id"]] = r
        s2b = {r["id"]: r for r in load(os.path.join(OUT, "stage2b.jsonl"))}
        skipped = {m["id"] for m in s1 if m["status"] == "survived" and out_of_scope(m)}
        for m in s1:
            if m["status"] == "survived" and m["id"] not in s2 and m["id"] not in skipped:
                s2[m["id"]] = dict(m, status="hang", summary="(first pass: the engines hung until stopped)")

        def triage(r):
            """hand triage of what the final machinery does not catch with a concrete input, by rule"""
            o, f, k = r["orig"], r["file"], r["kind"]
            if re.search(r"log(Debug|Error|Warn|Important)|\.Log\.|logger\.", o) or (f == "http.go"):
                return "outside every property (logging / HTTP status, messages, ExportJSONL)"
            if f in ("binary.go", "stats.go") or "ObserveMutability" in o or "observeMutability" in o or "MetricChanged" in o or "ItemsCountReport" in o or "reportItemsCount" in o or "FreeOSMemory" in o or o == "so":
                return "outside every property (BinaryUnmarshaler, stats adapter, cache_items / cache_changed, FreeOSMemory)"
            if k == "binop" and o in ("<", ">", "<=", ">=") and r["repl"] in ("<=", ">=", "<", ">"):
                return "equivalent for the properties: boundary of a nanosecond clock / count comparison or a sort comparator on ties"
            if "gob.Register(" in o or "recursiveTypeHash" in o or "Anonymous" in o:
                return "equivalent for the properties as stated (types the harness registers itself; nested types named in the outer type's name)"
            return "equivalent in this code base (condition constant here, value unused, or error path of a collaborator the properties do not speak about)"

        rows = []
        c2 = collections.Counter()
        for r in s2.values():
            final = r["status"]
            note = r.get("summary", "")
            if r["id"] in s2b:
                final = s2b[r["id"]]["status"]
                note = "first pass: %s; final machinery: %s" % (r["status"], s2b[r["id"]].get("summary", ""))
            c2[final] += 1
            rows.append((final, r, note))
        c1 = collections.Counter(r["status"] for r in s1)
        first = collections.Counter(r["status"] for r in s2.values())
        lines = ["# Operator-level mutants (`bin/opmut.py`)", "",
                 "Stage 1 (build, then the repository's own test suite): %s" % dict(c1), "",
                 "%d survivors touch only logging and were set aside. First pass of the quick checks over the others: %s" % (len(skipped), dict(first)), "",
                 "After the strengthenings described in DESIGN.md section 13 (re-run of the gaps, the `infra`/hang cases and the backend `nfi` cases): %s" % dict(c2), "",
                 "`concrete` = VIOLATION with a replayable input; `nfi` = VIOLATION ... no-failing-input-found (a proof obligation or the tie broke); `missed` = every check exited 0.", "",
                 "| id | where | mutation | final | checks | triage of what is not caught concretely |", "|---|---|---|---|---|---|"]
        for final, r, note in sorted(rows, key=lambda x: (x[0], x[1]["file"], x[1]["line"])):
            tri = "" if final == "concrete" else triage(r)
            if final == "nfi":
                tri = "tie / proof obligation broken, reported as the protocol prescribes; " + tri
            lines.append("| %s | %s:%d %s | %s `%s` -> `%s` | %s | %s | %s |" % (r["id"], r["file"], r["line"], r["fn"], r["kind"], r["orig"][:40].replace("\n", " ").replace("|", "\\|"), r["repl"].replace("|", "\\|"), final, note[:160], tri))
        dest = os.path.join(VERIF, "seeded", "OPMUT.md")
        open(dest, "w").write("\n".join(lines) + "\n")
        print("\n".join(lines[:8]))


if __name__ == "__main__":
    main()
