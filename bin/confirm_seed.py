#!/usr/bin/env python3
"""Confirm a candidate seeded change in a scratch worktree and, if confirmed, keep it under /verif/seeded/<id>/.

usage: confirm_seed.py <candidate_dir> <seed_id>
Checks: patch applies to /repo HEAD; package builds; the existing suite passes WITH the patch; the demonstration fails WITH
the patch and passes WITHOUT it. Writes seeded/<id>/{patch.diff,demo_test.go,meta.json}. The scratch worktree is removed."""
import json, os, shutil, subprocess, sys, tempfile
VERIF = os.path.dirname(os.path.dirname(os.path.abspath(__file__)))
ENV = dict(os.environ, GOFLAGS="-mod=mod", GOPROXY="off", GOSUMDB="off", GOTOOLCHAIN="local")

def sh(cmd, cwd, timeout=900):
    p = subprocess.run(cmd, cwd=cwd, env=ENV, stdout=subprocess.PIPE, stderr=subprocess.STDOUT, text=True, timeout=timeout, shell=isinstance(cmd, str))
    return p.returncode, p.stdout

def main():
    cand, sid = sys.argv[1], sys.argv[2]
    wt = tempfile.mkdtemp(prefix="confirm-" + sid + "-", dir="/tmp")
    os.rmdir(wt)
    log = []
    ok = False
    try:
        rc, out = sh(["git", "-C", "/repo", "worktree", "add", "-q", "--detach", wt, "HEAD"], "/")
        if rc: raise SystemExit("worktree: " + out)
        patch = os.path.join(cand, "patch.diff")
        demo = os.path.join(cand, "demo_test.go")
        meta = json.load(open(os.path.join(cand, "meta.json")))
        rc, out = sh(["git", "apply", patch], wt); log.append(("git apply", rc))
        if rc: raise SystemExit("patch does not apply: " + out)
        rc, out = sh("go build ./... && go vet -tags verif . >/dev/null 2>&1; go build -tags verif ./...", wt); log.append(("go build (also -tags verif)", rc))
        if rc: raise SystemExit("does not build: " + out[-2000:])
        rc, out = sh("go test -vet=off -count=1 -timeout 10m ./...", wt); log.append(("existing suite with patch", rc))
        if rc:
            rc, out = sh("go test -vet=off -count=1 -timeout 10m ./...", wt); log.append(("existing suite with patch (2nd try)", rc))
            if rc: raise SystemExit("existing suite fails with patch: " + out[-2000:])
        shutil.copy(demo, os.path.join(wt, "zz_seeded_demo_test.go"))
        race = "-race " if (meta.get("property") == "C16" or os.environ.get("SEED_RACE")) else ""
        rc1, out1 = sh("go test " + race + "-vet=off -count=1 -timeout 5m -run 'TestSeeded' .", wt); log.append(("demo with patch (must fail)", rc1))
        sh(["git", "apply", "-R", patch], wt)
        rc2, out2 = sh("go test " + race + "-vet=off -count=1 -timeout 5m -run 'TestSeeded' .", wt); log.append(("demo without patch (must pass)", rc2))
        if rc1 == 0: raise SystemExit("demo does not fail with the patch")
        if rc2 != 0: raise SystemExit("demo fails without the patch: " + out2[-1500:])
        dst = os.path.join(VERIF, "seeded", sid)
        os.makedirs(dst, exist_ok=True)
        shutil.copy(patch, os.path.join(dst, "patch.diff"))
        shutil.copy(demo, os.path.join(dst, "demo_test.go"))
        meta_out = {"id": sid, "property": meta.get("property"), "summary": meta.get("summary"), "needs": meta.get("needs"),
                    "origin": "independent sub-agent given only the property text and a scratch worktree",
                    "confirmed": [{"step": s, "exit": r} for s, r in log],
                    "demo_failure_excerpt": out1[-600:]}
        json.dump(meta_out, open(os.path.join(dst, "meta.json"), "w"), indent=1)
        ok = True
        print("CONFIRMED", sid)
    except SystemExit as e:
        print("REJECTED", sid, str(e)[:600])
    finally:
        sh(["git", "-C", "/repo", "worktree", "remove", "--force", wt], "/")
        shutil.rmtree(wt, ignore_errors=True)
    return 0 if ok else 1

if __name__ == "__main__":
    sys.exit(main())
