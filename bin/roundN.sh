#!/bin/bash
# confirm + run sub-agent candidates:  bin/roundN.sh <outdir> <tag> C02 C03 ...   (ids become Cxx-<tag>m<i>)
cd "$(dirname "$0")/.." || exit 2
out="$1"; tag="$2"; shift 2
for p in "$@"; do
  ids=()
  for d in "$out"/$p/m*; do
    [ -f "$d/patch.diff" ] || continue
    m=$(basename "$d"); id="$p-$tag$m"
    if [ ! -d seeded/$id ]; then
      r=$(python3 bin/confirm_seed.py "$d" "$id" 2>&1 | tail -1)
      echo "confirm $id: $r"
    fi
    [ -d seeded/$id ] && ids+=("$id")
  done
  [ ${#ids[@]} -gt 0 ] && python3 -u bin/seedrun.py "${ids[@]}" 2>&1 | grep --line-buffered -E "CAUGHT|missed|MISSED|error"
done
