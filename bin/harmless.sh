#!/bin/bash
# harmless changes on a snapshot: vp run --with-repo -- bin/harmless.sh [ids...]
cd "$(dirname "$0")/.." || exit 2
export VERIF_REPO="${VP_RUN_REPO:-/repo}"
bin/verif setup > /dev/null 2>&1 || { echo "setup failed"; exit 2; }
python3 -u bin/harmless.py "$@" 2>&1 | grep --line-buffered -v "^WARNING conda"
