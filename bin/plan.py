"""Which engine runs decide which property, per tier. Imported by bin/verif."""

TRUSTED_BASE = [
    "Lean 4.33.0 kernel (thorough tier: re-checked by leanchecker)",
    "axioms: at most propext, Classical.choice, Quot.sound (printed per theorem in coverage.theorems)",
    "tools/gokernel (L1 translator: Go decision expressions -> lean/CacheModel/Gen.lean) - unverified",
    "harness/ (L2 correspondence harness, monitors, canonicalisers) - unverified",
    "Lean compiler + C toolchain for the driver executable (runs the same definitions the theorems are about)",
    "modelled, not verified: Go runtime (scheduler, memory model, sync, sync/atomic, sync.Map, map iteration), time.Now, "
    "math/rand, float64 arithmetic (exact rationals + measured slack), xxhash (arbitrary function in theorems), "
    "encoding/gob, reflect, net/http, runtime.MemStats, sort.Slice",
    "the control skeleton of each operation is hand-modelled and tied by the correspondence run; "
    "the decision expressions listed in coverage.kernel_tie are regenerated from /repo",
]


def seq(profile, q, t, **kw):
    d = {"engine": "seq", "profile": profile, "n": {"quick": q, "thorough": t}}
    d.update(kw)
    return d


def eng(engine, profile, q, t, **kw):
    d = {"engine": engine, "profile": profile, "n": {"quick": q, "thorough": t}}
    d.update(kw)
    return d


PLAN = {
    "C01": {"runs": [eng("fo", "c01", 250, 5000), eng("fo", "c02", 120, 2000), eng("fo", "dfs", 24000, 300000, budget_s={"quick": 150, "thorough": 600})]},
    "C02": {"runs": [eng("fo", "c02", 300, 6000), eng("fo", "table", 0, 0), eng("fo", "dfs", 24000, 300000, budget_s={"quick": 150, "thorough": 600})]},
    "C03": {"runs": [eng("fo", "table", 0, 0), eng("fo", "c02", 100, 2000), eng("fo", "dfs", 8000, 100000, budget_s={"quick": 120, "thorough": 400})]},
    "C05": {"runs": [eng("fo", "c05", 300, 6000), eng("fo", "c01", 100, 2000), eng("fo", "dfs", 24000, 300000, budget_s={"quick": 150, "thorough": 600})]},
    "C06": {"runs": [eng("fo", "c06", 300, 6000), eng("fo", "table", 0, 0), eng("fo", "dfs", 8000, 100000, budget_s={"quick": 120, "thorough": 400})]},
    "C04": {"runs": [eng("fo", "c04", 250, 5000), eng("fo", "c01", 120, 2000), eng("fo", "dfs", 24000, 300000, budget_s={"quick": 150, "thorough": 600})]},
    "C08": {"runs": [eng("linz", "c08", 1500, 40000), eng("linz", "c08cleanup", 800, 8000), eng("linz", "c18del", 800, 8000), eng("linz", "c09pair", 2000, 20000)],
            "trusted_extra": ["sync.RWMutex / sync.Map provide mutual exclusion and linearizable single-key operations; Go map iteration yields every entry present during the whole iteration exactly once",
                              "implementation coverage is statistical: the Go scheduler is not steered inside the backends"]},
    "C16": {"runs": [dict(engine="race", profile="c16", n={"quick": 1, "thorough": 1}, race=True, timeout={"quick": 900, "thorough": 3000})],
            "trusted_extra": ["the Go memory model, sync, sync/atomic, sync.Map and channel semantics are axioms of the footprint semantics",
                              "the lockset theorem is proved for the trace semantics of CacheModel/MemModel.lean; that this semantics matches the Go memory model document is assumed",
                              "the footprint table is hand-written; tools/gofacts (unverified, syntactic) re-derives every access with the lock held at it from /repo on every run and the table must cover it; which callbacks run under their caller's lock is asserted by hand (listed in coverage.footprint_tie)"]},
    "C13": {"runs": [eng("xfer", "c13", 100, 1500), eng("xfer", "c14", 150, 1000)],
            "trusted_extra": ["encoding/gob is modelled as the identity on {K,V,E,C} records decoded into fresh variables"]},
    "C14": {"runs": [eng("xfer", "c14", 150, 1000)],
            "trusted_extra": ["net/http, encoding/gob, reflect and the FNV fingerprint of a type are trusted; the fingerprint is an arbitrary function in the theorems"]},
    "C15": {"runs": [eng("inval", "c15", 300, 6000)]},
    "C17": {"runs": [eng("inval", "c17", 90, 900)]},
    "C07": {"runs": [seq("c07", 240, 6000), seq("c11", 120, 1500)],
            "explanation": "refinement of the slot-keyed store to a plain map with per-entry expiry, for every hash function and every op sequence"},
    "C09": {"runs": [seq("c09", 200, 4000), eng("fo", "c04", 150, 3000), eng("inval", "c15", 100, 1000), eng("linz", "c08", 500, 6000), eng("linz", "c09pair", 4000, 40000)]},
    "C10": {"runs": [seq("c10", 200, 5000), eng("fo", "c06", 120, 2000), seq("c11", 120, 1500)],
            "trusted_extra": ["float64 evaluation of the jitter product is idealised by exact rationals; the correspondence allows |T|*2^-40+1 ns slack"]},
    "C11": {"runs": [seq("c11", 200, 3000), eng("xfer", "c13", 150, 1500), eng("linz", "c08cleanup", 800, 8000), eng("conserve", "c11all", 300, 4000)]},
    "C12": {"runs": [seq("c12", 200, 3000)],
            "trusted_extra": ["float64 evaluation of n*frac is idealised by exact rationals; one entry of slack only within 2^-20 of an integer"]},
    "C18": {"runs": [seq("c07", 150, 3000), seq("c12", 80, 1000), eng("fo", "c02", 150, 3000), eng("linz", "c08", 600, 20000), eng("linz", "c18del", 800, 8000), eng("conserve", "c18all", 200, 4000)]},
}
