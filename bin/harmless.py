#!/usr/bin/env python3
"""Apply each behaviour-preserving change under /verif/seeded/harmless-* to the repo, run the quick checks of every property
anchored in a file the change touches, undo it, and report which checks raised an alarm (there should be none; an alarm that
ends in no-failing-input-found is a tie broken by a refactor, which the protocol allows but which is still noted).
usage: harmless.py [ids...]"""
import json, os, re, subprocess, sys, time
VERIF = os.path.dirname(os.path.dirname(os.path.abspath(__file__)))
REPO = os.environ.get("VP_RUN_REPO") or os.environ.get("VERIF_REPO") or "/repo"
os.environ["VERIF_REPO"] = REPO
props = [json.loads(l) for l in open(os.path.join(VERIF, "properties.jsonl"))]
by_file = {}
for p in props:
    for f in p["anchors"]["files"]:
        by_file.setdefault(f, []).append(p["id"])
ids = [a for a in sys.argv[1:] if not a.startswith("--")] or sorted(d for d in os.listdir(os.path.join(VERIF, "seeded")) if d.startswith("harmless-"))
import shutil, atexit
evidence_backup = os.path.join(VERIF, "work", "evidence_before_harmless")
shutil.rmtree(evidence_backup, ignore_errors=True)
shutil.copytree(os.path.join(VERIF, "evidence"), evidence_backup)
def _restore_evidence():
    shutil.rmtree(os.path.join(VERIF, "evidence"), ignore_errors=True)
    shutil.copytree(evidence_backup, os.path.join(VERIF, "evidence"))
atexit.register(_restore_evidence)
out = {}
for sid in ids:
    d = os.path.join(VERIF, "seeded", sid)
    patch = os.path.join(d, "patch.diff")
    files = re.findall(r"^\+\+\+ b/(\S+)", open(patch).read(), flags=re.M)
    checks = sorted(set(c for f in files for c in by_file.get(f, [])))
    assert subprocess.run(["git", "-C", REPO, "status", "--porcelain", "--untracked-files=no"], capture_output=True, text=True).stdout.strip() == "", REPO + " dirty"
    subprocess.run(["git", "-C", REPO, "apply", patch], check=True)
    res = {}
    try:
        for c in checks:
            r = subprocess.run([os.path.join(VERIF, "bin", "verif"), "check", c, "--tier", "quick"], cwd=VERIF, capture_output=True, text=True)
            lines = [l for l in r.stdout.split("\n") if l.startswith("VIOLATION") or l.startswith("  detail") or l.startswith("  proof")]
            res[c] = {"exit": r.returncode, "lines": lines[:4]}
            if r.returncode != 0:
                kind = "tie-broken" if lines and all("no-failing-input-found" in l for l in lines if l.startswith("VIOLATION")) else "ALARM"
                if r.returncode == 2:
                    kind = "INFRA"
                print(sid, c, kind, " | ".join(l.strip()[:260] for l in lines[:3]), flush=True)
                if r.returncode == 2:
                    print(r.stdout[-600:], r.stderr[-600:])
    finally:
        subprocess.run(["git", "-C", REPO, "checkout", "--", "."], check=True)
    quiet = [c for c in checks if res[c]["exit"] == 0]
    print(sid, "files=%s" % ",".join(files), "checks=%d quiet=%d" % (len(checks), len(quiet)), flush=True)
    out[sid] = res
json.dump(out, open(os.path.join(VERIF, "work", "harmless_last.json"), "w"), indent=1)
