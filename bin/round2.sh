#!/bin/bash
# confirm + run the round-2 candidates of the given properties:  bin/round2.sh C02 C03 ...
cd "$(dirname "$0")/.." || exit 2
for p in "$@"; do
  ids=()
  for d in /tmp/mut2/out/$p/m*; do
    [ -f "$d/patch.diff" ] || continue
    m=$(basename "$d"); id="$p-r2$m"
    if [ ! -d seeded/$id ]; then
      r=$(python3 bin/confirm_seed.py "$d" "$id" 2>&1 | tail -1)
      echo "confirm $id: $r"
    fi
    [ -d seeded/$id ] && ids+=("$id")
  done
  [ ${#ids[@]} -gt 0 ] && python3 bin/seedrun.py "${ids[@]}" 2>&1 | grep -E "CAUGHT|missed|MISSED|error" 
done
