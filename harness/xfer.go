package main

import (
	"bytes"
	"context"
	"fmt"
	"hash/fnv"
	htmltemplate "html/template"
	"io"
	"math/rand"
	"net/http"
	"net/http/httptest"
	"os"
	"os/exec"
	"sort"
	"strconv"
	"strings"
	texttemplate "text/template"
	"time"

	"github.com/bool64/cache"
	"github.com/cespare/xxhash/v2"
)

// E7: dump/restore (profile c13), HTTP transfer and gob types hash (profile c14).

func init() {
	engines["xfer"] = runXfer
	engines["hashchild"] = runHashChild
}

// XVal is the registered value type of the transfer scenarios.
type XVal struct {
	N int
	S string
	P *int
}

// value tokens: 0 = nil (interface backends only), 1000000 = zero XVal, 2000000+t = plain int t, otherwise XVal{N: t}.
func xvalOf(t int) interface{} {
	switch {
	case t == 0:
		return nil
	case t == 1000000:
		return XVal{}
	case t > 2000000:
		return t - 2000000
	}
	p := t * 3
	return XVal{N: t, S: fmt.Sprintf("s%d", t), P: &p}
}

func xtokOf(v interface{}) int {
	switch x := v.(type) {
	case nil:
		return 0
	case int:
		return 2000000 + x
	case XVal:
		if x.N == 0 && x.S == "" && x.P == nil {
			return 1000000
		}
		if x.S != fmt.Sprintf("s%d", x.N) || x.P == nil || *x.P != x.N*3 {
			return -1
		}
		return x.N
	}
	return -1
}

type xcache interface {
	Kind() string
	Write(ctx context.Context, key []byte, tok int)
	Read(ctx context.Context, key []byte)
	Walk() []EntryObs
	Len() int
	Dump(w io.Writer) (int, error)
	Restore(r io.Reader) (int, error)
	WDR() cache.WalkDumpRestorer
	Cleanup()
}

type xSharded struct{ c *cache.ShardedMap }

func (x xSharded) Kind() string                               { return "sharded" }
func (x xSharded) Write(ctx context.Context, k []byte, t int) { _ = x.c.Write(ctx, k, xvalOf(t)) }
func (x xSharded) Read(ctx context.Context, k []byte)         { _, _ = x.c.Read(ctx, k) }
func (x xSharded) Len() int                                   { return x.c.Len() }
func (x xSharded) Dump(w io.Writer) (int, error)              { return x.c.Dump(w) }
func (x xSharded) Restore(r io.Reader) (int, error)           { return x.c.Restore(r) }
func (x xSharded) WDR() cache.WalkDumpRestorer                { return x.c }
func (x xSharded) Cleanup()                                   { x.c.VerifCleanup() }
func (x xSharded) Walk() []EntryObs {
	var res []EntryObs
	_, _ = x.c.Walk(func(e cache.Entry) error {
		te := e.(*cache.TraitEntry)
		res = append(res, EntryObs{Key: string(te.K), V: xtokOf(te.V), E: te.E, C: te.C})
		return nil
	})
	return res
}

type xSync struct{ c *cache.SyncMap }

func (x xSync) Kind() string                               { return "sync" }
func (x xSync) Write(ctx context.Context, k []byte, t int) { _ = x.c.Write(ctx, k, xvalOf(t)) }
func (x xSync) Read(ctx context.Context, k []byte)         { _, _ = x.c.Read(ctx, k) }
func (x xSync) Len() int                                   { return x.c.Len() }
func (x xSync) Dump(w io.Writer) (int, error)              { return x.c.Dump(w) }
func (x xSync) Restore(r io.Reader) (int, error)           { return x.c.Restore(r) }
func (x xSync) WDR() cache.WalkDumpRestorer                { return x.c }
func (x xSync) Cleanup()                                   { x.c.VerifCleanup() }
func (x xSync) Walk() []EntryObs {
	var res []EntryObs
	_, _ = x.c.Walk(func(e cache.Entry) error {
		te := e.(*cache.TraitEntry)
		res = append(res, EntryObs{Key: string(te.K), V: xtokOf(te.V), E: te.E, C: te.C})
		return nil
	})
	return res
}

type xOf struct{ c *cache.ShardedMapOf[XVal] }

func (x xOf) Kind() string { return "shardedOf" }
func (x xOf) Write(ctx context.Context, k []byte, t int) {
	v, _ := xvalOf(t).(XVal) // nil and ints become the zero value
	_ = x.c.Write(ctx, k, v)
}
func (x xOf) Read(ctx context.Context, k []byte) { _, _ = x.c.Read(ctx, k) }
func (x xOf) Len() int                           { return x.c.Len() }
func (x xOf) Dump(w io.Writer) (int, error)      { return x.c.Dump(w) }
func (x xOf) Restore(r io.Reader) (int, error)   { return x.c.Restore(r) }
func (x xOf) WDR() cache.WalkDumpRestorer        { return x.c.WalkDumpRestorer() }
func (x xOf) Cleanup()                           { x.c.VerifCleanup() }
func (x xOf) Walk() []EntryObs {
	var res []EntryObs
	_, _ = x.c.Walk(func(e cache.EntryOf[XVal]) error {
		te := e.(*cache.TraitEntryOf[XVal])
		res = append(res, EntryObs{Key: string(te.K), V: xtokOf(te.V), E: te.E, C: te.C})
		return nil
	})
	return res
}

func newX(kind string, cfg func(*cache.Config)) xcache {
	switch kind {
	case "sharded":
		return xSharded{cache.NewShardedMap(cfg)}
	case "sync":
		return xSync{cache.NewSyncMap(cfg)}
	}
	return xOf{cache.NewShardedMapOf[XVal](cfg)}
}

func xkeys(rng *rand.Rand, n int) [][]byte {
	ks := [][]byte{}
	seen := map[string]bool{}
	for len(ks) < n {
		var k []byte
		switch rng.Intn(6) {
		case 0:
			k = []byte{}
		case 1:
			k = make([]byte, 1+rng.Intn(40))
			rng.Read(k)
		case 2:
			k = []byte(fmt.Sprintf("k%d", rng.Intn(1000)))
		case 3:
			k = []byte(fmt.Sprintf("a-much-longer-key-%d-%d", rng.Intn(1000), rng.Int63()))
		default:
			k = []byte(fmt.Sprintf("key%d", len(ks)))
		}
		if !seen[string(k)] {
			seen[string(k)] = true
			ks = append(ks, k)
		}
	}
	return ks
}

func canonWalk(es []EntryObs, withC bool) string {
	parts := make([]string, len(es))
	for i, e := range es {
		c := int64(0)
		if withC {
			c = e.C
		}
		parts[i] = fmt.Sprintf("%x:%d:%d:%d", e.Key, e.V, e.E, c)
	}
	sort.Strings(parts)
	return strings.Join(parts, " ")
}

// fill writes a random entry set into c; returns the number of entries.
func fillX(rng *rand.Rand, c xcache, n int) {
	ctx := context.Background()
	for _, k := range xkeys(rng, n) {
		tok := 1 + rng.Intn(500)
		switch rng.Intn(6) {
		case 0:
			tok = 0
		case 1:
			tok = 1000000
		case 2:
			tok = 2000000 + 1 + rng.Intn(500)
		}
		if c.Kind() == "shardedOf" && (tok == 0 || tok > 2000000) {
			tok = 1000000
		}
		wctx := ctx
		switch rng.Intn(4) {
		case 0:
			wctx = cache.WithTTL(ctx, time.Duration(hour+rng.Int63n(hour)), false)
		case 1:
			d := 1 + rng.Int63n(hour)
			if d%16 == 0 {
				d = (60 + d%40) * 365 * 24 * hour // an expiry before the unix epoch: a negative timestamp travels like any other
			}
			wctx = cache.WithTTL(ctx, -time.Duration(d), false)
		}
		c.Write(wctx, k, tok)
		for r := rng.Intn(3); r > 0; r-- {
			c.Read(ctx, k) // usage metric under LRU/LFU
		}
	}
}

func runXfer(o Opts) *Result {
	cache.GobRegister(XVal{})
	switch o.Profile {
	case "c13":
		return runC13(o)
	case "c14":
		return runC14(o)
	}
	infra("xfer: unknown profile %q", o.Profile)
	return nil
}

var pairings = [][2]string{{"sharded", "sharded"}, {"sharded", "sync"}, {"sync", "sharded"}, {"sync", "sync"}, {"shardedOf", "shardedOf"}}

func runC13(o Opts) *Result {
	res := &Result{Rule: "entry sets of size 0..300 (thorough: ..1500) over keys of differing lengths (empty, binary, long), values nil / zero struct / populated struct / int, " +
		"expiry 0 or set, usage metric set by LRU/LFU reads; every source/target pairing; chains of 3 dump/restore hops; the model restores the source's walked records and " +
		"its state is compared with the target's Walk; non-trivial = at least 2 entries with mixed expiry (zero and non-zero) and a nil or zero value; distinct by hash of the source content"}
	d, err := StartDriver(o.Driver)
	if err != nil {
		infra("%v", err)
	}
	defer d.Close()
	uniq := map[uint64]bool{}
	for idx := 0; idx < o.N; idx++ {
		if timeUp() {
			break
		}
		if o.Only >= 0 && idx != o.Only {
			continue
		}
		rng := rand.New(rand.NewSource(o.Seed*3301 + int64(idx)*17))
		pair := pairings[idx%len(pairings)]
		strat := rng.Intn(3)
		cfgTTL := []time.Duration{cache.UnlimitedTTL, time.Hour, 0}[rng.Intn(3)]
		// soft limits of the target do not concern Restore (the janitor, every hour, would act on them): a dump larger than the
		// target's CountSoftLimit is restored completely
		csl := []uint64{0, 0, 3, 50}[rng.Intn(4)]
		res.count(fmt.Sprintf("target-count-soft-limit:%d", csl))
		mk := func(kind string) xcache {
			return newX(kind, func(c *cache.Config) {
				c.TimeToLive = cfgTTL
				c.EvictionStrategy = cache.EvictionStrategy(strat)
				c.ExpirationJitter = -1
				c.DeleteExpiredAfter = time.Millisecond
				c.CountSoftLimit = csl
			})
		}
		max := 300
		if o.Tier == "thorough" {
			max = 1500
		}
		n := []int{0, 1, 2, rng.Intn(20), 2 + rng.Intn(max), 2 + rng.Intn(max)}[rng.Intn(6)]
		src := mk(pair[0])
		fillX(rng, src, n)
		res.Evaluations++
		res.count("pair:" + pair[0] + "->" + pair[1])
		srcWalk := src.Walk()
		want := canonWalk(srcWalk, true)
		fail := func(sig, detail string) {
			res.Violations = append(res.Violations, Violation{Property: "C13", Kind: "monitor", Sig: "xfer:" + sig + ":" + pair[0] + "->" + pair[1], Detail: detail,
				Replay: map[string]interface{}{"engine": "xfer", "profile": "c13", "seed": o.Seed, "index": idx, "pairing": pair, "entries": n,
					"rerun": fmt.Sprintf("harness xfer -profile c13 -seed %d -only %d", o.Seed, idx)}})
		}
		cur := src
		ok := true
		kinds := []string{pair[1], pair[0], pair[1]}
		for hop := 0; hop < 3 && ok; hop++ {
			var buf bytes.Buffer
			n1, err := cur.Dump(&buf)
			if err != nil || n1 != len(srcWalk) {
				fail("dump-count", fmt.Sprintf("hop %d: Dump returned (%d, %v) for %d entries", hop, n1, err, len(srcWalk)))
				ok = false
				break
			}
			dst := mk(kinds[hop])
			n2, err := dst.Restore(&buf)
			if err != nil || n2 != len(srcWalk) {
				fail("restore-count", fmt.Sprintf("hop %d: Restore returned (%d, %v) for %d entries", hop, n2, err, len(srcWalk)))
				ok = false
				break
			}
			got := canonWalk(dst.Walk(), true)
			if got != want {
				fail("content", fmt.Sprintf("hop %d (%s -> %s): restored cache differs from the source.\n source: %.600s\n target: %.600s", hop, cur.Kind(), dst.Kind(), want, got))
				ok = false
				break
			}
			if hop == 0 {
				// correspondence: the model restores the walked records
				id := fmt.Sprintf("t%d", idx)
				bc := BCfg{Kind: dst.Kind(), TTL: cfgTTL, Jitter: Rat{-1, 1, -1}, Strategy: strat, DEA: time.Millisecond}
				d.Ask(bc.DriverNew(id))
				keys := NewKeyTable()
				for _, e := range srcWalk {
					kid := keys.ID([]byte(e.Key))
					slot := xxhash.Sum64([]byte(e.Key))
					if dst.Kind() == "sync" {
						slot = uint64(kid) + 1000000
					}
					d.Ask(fmt.Sprintf("be restore %s %d %d %s %d %d", id, kid, slot, showTok(e.V), e.E, e.C))
				}
				implDump := func(c xcache) string {
					w := c.Walk()
					ps := []string{}
					ids := []int{}
					m := map[int]EntryObs{}
					for _, e := range w {
						kid := keys.ID([]byte(e.Key))
						ids = append(ids, kid)
						m[kid] = e
					}
					sort.Ints(ids)
					for _, kid := range ids {
						e := m[kid]
						ps = append(ps, fmt.Sprintf("%d:%s:%d:%d", kid, showTok(e.V), e.E, e.C))
					}
					if len(ps) == 0 {
						return "-"
					}
					return strings.Join(ps, " ")
				}
				if a, b := implDump(dst), d.Ask("be dump "+id); a != b {
					res.Violations = append(res.Violations, Violation{Kind: "correspondence", Sig: "xfer:restore-state", Detail: fmt.Sprintf("restored state: impl %.500s model %.500s", a, b),
						Replay: map[string]interface{}{"rerun": fmt.Sprintf("harness xfer -profile c13 -seed %d -only %d", o.Seed, idx)}})
					ok = false
				}
				// a cleanup cycle on the restored cache behaves like on the model (restored expiries count: C11); the model instance
				// of this engine has no count limit, so targets with one skip this step
				if csl != 0 {
					cur = dst
					continue
				}
				time.Sleep(2 * time.Millisecond)
				before := dst.Walk()
				t0 := now()
				dst.Cleanup()
				t1 := now()
				after := map[string]bool{}
				for _, e := range dst.Walk() {
					after[e.Key] = true
				}
				removed := []string{}
				for _, e := range before {
					if !after[e.Key] {
						slot := xxhash.Sum64([]byte(e.Key))
						if dst.Kind() == "sync" {
							slot = uint64(keys.ID([]byte(e.Key))) + 1000000
						}
						removed = append(removed, fmt.Sprint(slot))
					}
				}
				rm := "-"
				if len(removed) > 0 {
					rm = strings.Join(removed, ",")
				}
				r := d.Ask(fmt.Sprintf("be cleanup %s %d %d ho=0 so=0 hn=0 needed=0 removed=%s evicted=0", id, t0, t1, rm))
				if strings.HasPrefix(r, "bad-") {
					res.Violations = append(res.Violations, Violation{Property: "C11", Kind: "monitor", Sig: "xfer:cleanup-after-restore:" + dst.Kind(),
						Detail: "cleanup cycle after Restore: " + r, Replay: map[string]interface{}{"rerun": fmt.Sprintf("harness xfer -profile c13 -seed %d -only %d", o.Seed, idx)}})
				}
				if strings.Contains(r, "scanned=") && !strings.Contains(r, "scanned=0") {
					res.count("cleanup-after-restore-deleted")
				}
				// the cleanup changed dst; relay from a fresh restore of the same dump
				var buf2 bytes.Buffer
				_, _ = cur.Dump(&buf2)
				dst = mk(kinds[hop])
				_, _ = dst.Restore(&buf2)
			}
			cur = dst
		}
		res.TracesValidated++
		hasZeroE, hasE, hasNilish := false, false, false
		for _, e := range srcWalk {
			if e.E == 0 {
				hasZeroE = true
			} else {
				hasE = true
			}
			if e.V == 0 || e.V == 1000000 {
				hasNilish = true
			}
		}
		if len(srcWalk) >= 2 && hasZeroE && hasE && hasNilish {
			h := fnv.New64a()
			h.Write([]byte(want + pair[0] + pair[1]))
			uniq[h.Sum64()] = true
		}
		if len(res.Samples) < 3 && n > 0 {
			res.Samples = append(res.Samples, map[string]interface{}{"pairing": pair, "entries": n, "first_entries": fmt.Sprintf("%.300s", want)})
		}
		if res.full() {
			break
		}
	}
	// ---- directed: the order of the records in a dump must not decide whether the restored cache knows that expirations
	// were set. Sharded maps dump shard by shard, so keys placed in distinct shards come out in shard order: a never-expiring
	// entry first / last, long-expired ones in between, restored into an UnlimitedTTL target, then one cleanup cycle (C11).
	if o.Only < 0 {
		ctx := context.Background()
		for _, kind := range []string{"sharded", "shardedOf", "sync"} {
			for _, neverPos := range []string{"first", "last", "absent"} { // (absent: every entry of the dump carries an expiry)
				byShard := map[uint64][]byte{}
				for i := 0; len(byShard) < 4 && i < 4000; i++ {
					k := []byte(fmt.Sprintf("order-%s-%d", kind, i))
					sh := xxhash.Sum64(k) % 128
					if _, ok := byShard[sh]; !ok {
						byShard[sh] = k
					}
				}
				shs := []uint64{}
				for sh := range byShard {
					shs = append(shs, sh)
				}
				sort.Slice(shs, func(a, b int) bool { return shs[a] < shs[b] })
				mkU := func() xcache {
					return newX(kind, func(c *cache.Config) {
						c.TimeToLive = cache.UnlimitedTTL
						c.ExpirationJitter = -1
						c.DeleteExpiredAfter = time.Millisecond
					})
				}
				src := mkU()
				never := byShard[shs[0]]
				if neverPos == "last" {
					never = byShard[shs[len(shs)-1]]
				}
				if neverPos == "absent" {
					never = []byte("no such key")
				}
				for _, sh := range shs {
					k := byShard[sh]
					if string(k) == string(never) {
						src.Write(ctx, k, 7)
					} else {
						src.Write(cache.WithTTL(ctx, -time.Hour, false), k, 8)
					}
				}
				var buf bytes.Buffer
				if _, err := src.Dump(&buf); err != nil {
					continue
				}
				dst := mkU()
				n, err := dst.Restore(&buf)
				res.Evaluations++
				res.count("directed-restore-order:" + kind + ":" + neverPos)
				if err != nil || n != len(shs) {
					res.Violations = append(res.Violations, Violation{Property: "C13", Kind: "monitor", Sig: "xfer:restore-count:" + kind,
						Detail: fmt.Sprintf("%s: Restore of a %d-entry dump returned (%d, %v)", kind, len(shs), n, err), Replay: map[string]interface{}{"engine": "xfer", "profile": "c13", "scenario": "directed restore order"}})
					continue
				}
				time.Sleep(3 * time.Millisecond)
				dst.Cleanup()
				left, haveNever := 0, false
				for _, e := range dst.Walk() {
					if e.Key == string(never) {
						haveNever = true
					} else {
						left++
					}
				}
				if left != 0 || (!haveNever && neverPos != "absent") {
					res.Violations = append(res.Violations, Violation{Property: "C11", Kind: "monitor", Sig: "xfer:cleanup-after-restore-order:" + kind,
						Detail: fmt.Sprintf("%s, UnlimitedTTL target, dump with the never-expiring entry %s and %d entries expired for an hour: after Restore and one cleanup cycle %d long-expired entries remain (never-expiring entry present: %v)", kind, neverPos, len(shs)-1, left, haveNever),
						Replay: map[string]interface{}{"engine": "xfer", "profile": "c13", "scenario": "directed restore order", "backend": kind, "never_expiring_entry": neverPos}})
				}
				res.TracesValidated++
			}
			// a dump that breaks off in the middle (C14's truncated bodies, C11's janitor): whatever made it into an UnlimitedTTL
			// target before Restore gave up is subject to the next cleanup cycle like any other entry
			for _, cut := range []int{2, 3, 5, 7} {
				mkU := func() xcache {
					return newX(kind, func(c *cache.Config) {
						c.TimeToLive = cache.UnlimitedTTL
						c.ExpirationJitter = -1
						c.DeleteExpiredAfter = time.Millisecond
					})
				}
				src := mkU()
				for i := 0; i < 24; i++ {
					src.Write(cache.WithTTL(ctx, -time.Hour, false), []byte(fmt.Sprintf("trunc-%s-%d", kind, i)), 8)
				}
				var buf bytes.Buffer
				if _, err := src.Dump(&buf); err != nil {
					continue
				}
				dst := mkU()
				n, err := dst.Restore(bytes.NewReader(buf.Bytes()[:buf.Len()*cut/8]))
				res.Evaluations++
				res.count("directed-truncated-restore:" + kind)
				got := len(dst.Walk())
				if err == nil || got == 0 {
					continue // (the cut fell on a record boundary before the first entry / after the last: nothing to learn)
				}
				time.Sleep(3 * time.Millisecond)
				dst.Cleanup()
				if left := len(dst.Walk()); left != 0 {
					res.Violations = append(res.Violations, Violation{Property: "C11", Kind: "monitor", Sig: "xfer:cleanup-after-truncated-restore:" + kind,
						Detail: fmt.Sprintf("%s, UnlimitedTTL target: Restore of a dump cut at %d/8 of its length returned (%d, %v) with %d entries stored, all expired for an hour; after one cleanup cycle %d of them remain (DeleteExpiredAfter = 1ms)", kind, cut, n, err, got, left),
						Replay: map[string]interface{}{"engine": "xfer", "profile": "c13", "scenario": "directed truncated restore", "backend": kind, "cut_eighths": cut}})
				}
				res.TracesValidated++
			}
		}
	}
	res.DistinctNontrivial = len(uniq)
	return res
}

// ---------------------------------------------------------------------------------------------------- C14

type rtFunc func(*http.Request) (*http.Response, error)

func (f rtFunc) RoundTrip(r *http.Request) (*http.Response, error) { return f(r) }

type truncReader struct {
	r    io.Reader
	left int
	fail bool
}

func (t *truncReader) Read(p []byte) (int, error) {
	if t.left <= 0 {
		if t.fail {
			return 0, fmt.Errorf("injected body failure")
		}
		return 0, io.EOF
	}
	if len(p) > t.left {
		p = p[:t.left]
	}
	n, err := t.r.Read(p)
	t.left -= n
	return n, err
}
func (t *truncReader) Close() error { return nil }

func runC14(o Opts) *Result {
	res := &Result{Rule: "HTTP: exporter and importer HTTPTransfer with 1-4 named caches each (names with URL-special characters included), all backends, " +
		"in-process RoundTripper; fault modes none / types-hash mismatch / truncated body / failing body; " +
		"types hash: registration sequences (orders, repeats, one call vs several) over a pool of 6 types sharing nested types, each evaluated in a FRESH child process " +
		"and compared with the model's XOR-over-distinct-types; non-trivial = a transfer that imported at least one non-empty cache, or a hash sequence with a repeat; distinct by content hash"}
	d, err := StartDriver(o.Driver)
	if err != nil {
		infra("%v", err)
	}
	defer d.Close()
	uniq := map[uint64]bool{}
	names := []string{"users", "orders", "R&D", "tier+1", "50%", "a b", "x", "R", "tier 1"}
	ctx := context.Background()
	nHTTP := o.N
	for idx := 0; idx < nHTTP; idx++ {
		if timeUp() {
			break
		}
		if o.Only >= 0 && idx != o.Only {
			continue
		}
		rng := rand.New(rand.NewSource(o.Seed*4409 + int64(idx)*29))
		res.Evaluations++
		exp := &cache.HTTPTransfer{}
		imp := &cache.HTTPTransfer{}
		perm := rng.Perm(len(names))
		nE, nI := 1+rng.Intn(4), 1+rng.Intn(4)
		expC := map[string]xcache{}
		impC := map[string]xcache{}
		mk := func(kind string) xcache {
			return newX(kind, func(c *cache.Config) { c.TimeToLive = cache.UnlimitedTTL; c.ExpirationJitter = -1 })
		}
		kindOf := map[string]string{}
		for i := 0; i < nE; i++ {
			nm := names[perm[i]]
			kindOf[nm] = kinds[rng.Intn(3)]
			c := mk(kindOf[nm])
			fillX(rng, c, rng.Intn(25))
			expC[nm] = c
			exp.AddCache(nm, c.WDR())
		}
		marker := map[string]string{}
		for i := 0; i < nI; i++ {
			nm := names[perm[(i+nE-1+rng.Intn(2))%len(names)]] // overlaps the exporter's names partly
			if _, dup := impC[nm]; dup {
				continue
			}
			k := kindOf[nm]
			if k == "" {
				k = kinds[rng.Intn(3)]
			} else if k != "shardedOf" && rng.Intn(2) == 0 {
				k = []string{"sharded", "sync"}[rng.Intn(2)] // same family, other backend
			}
			c := mk(k)
			if _, known := expC[nm]; !known || rng.Intn(3) == 0 {
				fillX(rng, c, 1+rng.Intn(4)) // pre-existing content must survive when nothing is imported
			}
			marker[nm] = canonWalk(c.Walk(), false)
			impC[nm] = c
			imp.AddCache(nm, c.WDR())
		}
		mode := []string{"none", "none", "mismatch", "truncate", "failbody"}[rng.Intn(5)]
		res.count("http:" + mode)
		handler := exp.Export()
		imp.Transport = rtFunc(func(r *http.Request) (*http.Response, error) {
			if mode == "mismatch" {
				q := r.URL.Query()
				h, _ := strconv.ParseUint(q.Get("typesHash"), 10, 64)
				q.Set("typesHash", strconv.FormatUint(h^0x5a5a, 10))
				r.URL.RawQuery = q.Encode()
			}
			rec := httptest.NewRecorder()
			handler.ServeHTTP(rec, r)
			resp := rec.Result()
			if (mode == "truncate" || mode == "failbody") && resp.StatusCode == 200 {
				body, _ := io.ReadAll(resp.Body)
				cut := 0
				if len(body) > 0 {
					cut = rng.Intn(len(body))
				}
				resp.Body = &truncReader{r: bytes.NewReader(body), left: cut, fail: mode == "failbody"}
			}
			return resp, nil
		})
		err := imp.Import(ctx, "http://exporter.local/debug/transfer-cache")
		fail := func(sig, detail string) {
			var also []string
			if sig == "content" {
				also = []string{"C13"} // "exactly the exporter's entries of the same name (as in C13)": the relay clause of C13 over HTTP
			}
			res.Violations = append(res.Violations, Violation{Property: "C14", Also: also, Kind: "monitor", Sig: "xfer:http-" + sig, Detail: detail,
				Replay: map[string]interface{}{"engine": "xfer", "profile": "c14", "seed": o.Seed, "index": idx, "mode": mode,
					"rerun": fmt.Sprintf("harness xfer -profile c14 -seed %d -only %d", o.Seed, idx)}})
		}
		if err != nil {
			fail("error", fmt.Sprintf("Import returned %v", err))
		}
		imported := false
		for nm, c := range impC {
			got := canonWalk(c.Walk(), false)
			src, known := expC[nm]
			switch {
			case !known || mode == "mismatch":
				if got != marker[nm] {
					fail("foreign-import", fmt.Sprintf("mode %s: importer cache %q (unknown to the exporter: %v) changed: before %.300s after %.300s", mode, nm, !known, marker[nm], got))
				}
			case mode == "none":
				want := canonWalk(src.Walk(), false)
				if marker[nm] != "" {
					// pre-filled target: restore adds/overwrites on top of it
					m := map[string]string{}
					for _, e := range strings.Fields(marker[nm]) {
						m[strings.SplitN(e, ":", 2)[0]] = e
					}
					for _, e := range strings.Fields(want) {
						m[strings.SplitN(e, ":", 2)[0]] = e
					}
					all := []string{}
					for _, e := range m {
						all = append(all, e)
					}
					sort.Strings(all)
					want = strings.Join(all, " ")
				}
				if got != want {
					fail("content", fmt.Sprintf("importer cache %q differs from the exporter's: want %.400s got %.400s", nm, want, got))
				}
				if want != "" {
					imported = true
				}
			default:
				// truncated / failing body: whatever arrived must be a subset of exporter entries plus what was there
				okSet := map[string]bool{}
				for _, e := range strings.Fields(canonWalk(src.Walk(), false)) {
					okSet[e] = true
				}
				for _, e := range strings.Fields(marker[nm]) {
					okSet[e] = true
				}
				for _, e := range strings.Fields(got) {
					if !okSet[e] {
						fail("partial-garbage", fmt.Sprintf("mode %s: importer cache %q holds an entry neither exported nor pre-existing: %s", mode, nm, e))
						break
					}
				}
			}
		}
		res.TracesValidated++
		if imported {
			h := fnv.New64a()
			for nm, c := range expC {
				h.Write([]byte(nm + canonWalk(c.Walk(), false)))
			}
			uniq[h.Sum64()] = true
		}
		if len(res.Samples) < 2 {
			res.Samples = append(res.Samples, map[string]interface{}{"exporter_caches": len(expC), "importer_caches": len(impC), "mode": mode})
		}
		if res.full() {
			break
		}
	}
	// ---- a long-lived Export handler and a type registered after it served its first request: the handler must compare with
	// the CURRENT types hash (an importer with the identical type set is served, one with the old hash is refused)
	if o.Only < 0 && !timeUp() {
		res.Evaluations++
		exp := &cache.HTTPTransfer{}
		src := newX("sharded", func(c *cache.Config) { c.TimeToLive = cache.UnlimitedTTL; c.ExpirationJitter = -1 })
		fillX(rand.New(rand.NewSource(o.Seed)), src, 7)
		exp.AddCache("late", src.WDR())
		handler := exp.Export()
		doImport := func(staleHash string) (int, error) {
			imp := &cache.HTTPTransfer{}
			dst := newX("sharded", func(c *cache.Config) { c.TimeToLive = cache.UnlimitedTTL; c.ExpirationJitter = -1 })
			imp.AddCache("late", dst.WDR())
			imp.Transport = rtFunc(func(r *http.Request) (*http.Response, error) {
				if staleHash != "" {
					q := r.URL.Query()
					q.Set("typesHash", staleHash)
					r.URL.RawQuery = q.Encode()
				}
				rec := httptest.NewRecorder()
				handler.ServeHTTP(rec, r)
				return rec.Result(), nil
			})
			err := imp.Import(ctx, "http://exporter.local/debug/transfer-cache")
			return len(dst.Walk()), err
		}
		lfail := func(sig, detail string) {
			res.Violations = append(res.Violations, Violation{Property: "C14", Kind: "monitor", Sig: "xfer:http-" + sig, Detail: detail,
				Replay: map[string]interface{}{"engine": "xfer", "profile": "c14", "scenario": "type registered after the Export handler served a request"}})
		}
		oldHash := fmt.Sprint(cache.GobTypesHash())
		if n, _ := doImport(""); n != 7 {
			lfail("late-registration", fmt.Sprintf("before the late registration: %d of 7 entries imported", n))
		}
		cache.GobRegister(lateType{})
		if fmt.Sprint(cache.GobTypesHash()) == oldHash {
			lfail("hash-unchanged-on-add", "registering a new type in this process left GobTypesHash unchanged")
		}
		if n, _ := doImport(""); n != 7 {
			lfail("late-registration", fmt.Sprintf("after a type was registered (exporter and importer share the registry, so their hashes are equal) the handler created earlier served %d of 7 entries", n))
		}
		if n, _ := doImport(oldHash); n != 0 {
			lfail("late-registration", fmt.Sprintf("an importer presenting the types hash from before the registration was served %d entries by the handler created earlier; a mismatching hash must import nothing", n))
		}
		res.TracesValidated++
	}
	// ---- types hash in fresh processes
	self, _ := os.Executable()
	child := func(spec string) (uint64, error) {
		out, err := exec.Command(self, "hashchild", "-profile", spec).Output()
		if err != nil {
			return 0, fmt.Errorf("child %q: %v", spec, err)
		}
		return strconv.ParseUint(strings.TrimSpace(string(out)), 10, 64)
	}
	hfail := func(sig, detail string, spec string) {
		res.Violations = append(res.Violations, Violation{Property: "C14", Kind: "monitor", Sig: "xfer:hash-" + sig, Detail: detail,
			Replay: map[string]interface{}{"engine": "xfer", "profile": "c14", "registration": spec, "rerun": "harness hashchild -profile " + spec}})
	}
	const pool = 8 // 6 harness types + text/template.Template and html/template.Template (same short name)
	fp := make([]uint64, pool)
	for t := 0; t < pool; t++ {
		h, err := child(fmt.Sprint(t))
		if err != nil {
			infra("%v", err)
		}
		fp[t] = h
		if h2, _ := child(fmt.Sprint(t)); h2 != h {
			hfail("nondeterministic", fmt.Sprintf("type %d: fingerprint differs between two fresh processes: %d vs %d", t, h, h2), fmt.Sprint(t))
		}
	}
	rng := rand.New(rand.NewSource(o.Seed * 77))
	nSeq := 24
	if o.Tier == "thorough" {
		nSeq = 400
	}
	for i := 0; i < nSeq && !res.full(); i++ {
		// a registration sequence: types with repeats, split into GobRegister calls at random points
		n := 1 + rng.Intn(7)
		seq := make([]int, n)
		for j := range seq {
			seq[j] = rng.Intn(pool)
		}
		spec := ""
		items := []string{}
		for j, t := range seq {
			if j > 0 {
				if rng.Intn(2) == 0 {
					spec += ";"
				} else {
					spec += ","
				}
			}
			spec += fmt.Sprint(t)
			items = append(items, fmt.Sprintf("%d:%d", t, fp[t]))
		}
		res.Evaluations++
		got, err := child(spec)
		if err != nil {
			infra("%v", err)
		}
		model := d.Ask("gh xor " + strings.Join(items, ","))
		if fmt.Sprint(got) != model {
			hfail("set-dependence", fmt.Sprintf("registration %q: process hash %d, but XOR over its distinct types' fingerprints is %s (the hash must depend only on the set of types)", spec, got, model), spec)
			continue
		}
		// adding a type not yet present changes the hash
		present := map[int]bool{}
		for _, t := range seq {
			present[t] = true
		}
		for t := 0; t < pool; t++ {
			if !present[t] {
				g2, _ := child(spec + ";" + fmt.Sprint(t))
				if g2 == got {
					hfail("unchanged-on-add", fmt.Sprintf("registration %q plus new type %d leaves the hash at %d", spec, t, got), spec)
				}
				break
			}
		}
		res.TracesValidated++
		if len(present) < len(seq) {
			uniq[xxhash.Sum64String(spec)] = true
		}
		if i < 2 {
			res.Samples = append(res.Samples, map[string]interface{}{"registration": spec, "hash": got})
		}
	}
	res.DistinctNontrivial = len(uniq)
	return res
}

// ---- child process: register types of the pool as the spec says and print the types hash

type HT0 struct {
	A string
	B int
}
type HT1 struct {
	X     string
	Inner HT0
}
type HT2 struct {
	M map[string]HT0
	L []HT1
}
type HT3 struct {
	P          *HT1
	Q          float64
	unexported int //nolint
}
type HT4 []HT0
type HT5 struct {
	HT0
	Z []byte
}

func runHashChild(o Opts) *Result {
	// the last two are distinct types with the same short name ("template.Template") from different packages
	pool := []interface{}{HT0{}, HT1{}, HT2{}, HT3{}, HT4{}, HT5{}, texttemplate.Template{}, htmltemplate.Template{}}
	for _, call := range strings.Split(o.Profile, ";") {
		var vals []interface{}
		for _, t := range strings.Split(call, ",") {
			i, err := strconv.Atoi(t)
			if err != nil || i < 0 || i >= len(pool) {
				infra("hashchild: bad spec %q", o.Profile)
			}
			vals = append(vals, pool[i])
		}
		cache.GobRegister(vals...)
	}
	fmt.Println(cache.GobTypesHash())
	os.Exit(0)
	return nil
}

// lateType is registered while an Export handler is already serving.
type lateType struct{ A, B int }
