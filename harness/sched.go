package main

import (
	"bytes"
	"context"
	"errors"
	"fmt"
	"regexp"
	"runtime"
	"strconv"
	"strings"
	"sync"
	"time"

	"github.com/bool64/cache"
)

// Deterministic scheduler for concurrent Failover.Get calls (E3). Every call-out the frontend makes into harness code
// (backend Read/Write, builder) parks its goroutine; exactly one goroutine is resumed at a time and the scheduler then
// waits until every managed goroutine is parked again, blocked in waitForValue, or gone.

type tokErr struct {
	n      int
	ctxErr bool // also reports itself as context.Canceled (a builder giving up because its context was cancelled)
}

func (e tokErr) Error() string { return fmt.Sprintf("injected-error-%d", e.n) }

func (e tokErr) Is(target error) bool { return e.ctxErr && target == context.Canceled }

func errTok(err error) int {
	var te tokErr
	if errors.As(err, &te) {
		return te.n
	}
	return -1
}

// bareExpired is an injected read failure that matches cache.ErrExpired but carries no expired item.
type bareExpired struct{ tokErr }

func (e bareExpired) Is(t error) bool { return t == cache.ErrExpired }
func (e bareExpired) Unwrap() error   { return e.tokErr }

type tidKey struct{}

type callout struct {
	tid      int
	kind     string // read | write | build
	key      []byte
	val      int
	skip     bool
	ttl      int64
	detached bool
	phase    int    // 1 = the real operation has been performed, its answer is held back (late answer)
	ctxObs   string // builder: what the context looked like
	resume   chan *directive
	ack      chan struct{} // closed by the resumed goroutine once it has left park()
	// filled by the parked goroutine after it was resumed and performed the real operation
	outcome string
	t0, t1  int64
}

type directive struct {
	fault  int  // backend call: inject this error token instead of performing the operation (0 = perform)
	late   bool // backend call: perform the operation now, deliver its answer only after another resume
	bOK    bool
	bVal   int
	bErr   int
	bCtx   bool    // the builder error is a context cancellation
	bTTLs  []int64 // builder: WithTTL(ctx, ttl, true) calls
	bIso   []int64 // builder: WithTTL(derived, ttl, true) calls on a context derived with WithTTL(ctx, same ttl, false)
	cancel func()  // builder: cancel the caller's context before returning (C04/C06)
}

type getResult struct {
	tid int
	val int
	err error
}

type sched struct {
	mu       sync.Mutex
	parked   map[int]*callout
	results  map[int]*getResult
	runners  map[int]bool // goroutine ids of runner goroutines
	finished map[int]bool // runner goroutine finished (Get returned)
	stackBuf []byte
}

func newSched() *sched {
	return &sched{parked: map[int]*callout{}, results: map[int]*getResult{}, runners: map[int]bool{}, finished: map[int]bool{}, stackBuf: make([]byte, 1<<20)}
}

// park is called on the goroutine making the call-out.
func (s *sched) park(co *callout) *directive {
	co.resume = make(chan *directive)
	co.ack = make(chan struct{})
	s.mu.Lock()
	s.parked[co.tid] = co
	s.mu.Unlock()
	return <-co.resume
}

// parkLate is called by the goroutine after it performed the real backend operation: the answer is delivered to the frontend
// only when the scheduler resumes the goroutine once more, so that other goroutines can run between effect and answer.
func (s *sched) parkLate(co *callout) {
	co.phase = 1
	co.resume = make(chan *directive)
	co.ack = make(chan struct{})
	s.mu.Lock()
	s.parked[co.tid] = co
	s.mu.Unlock()
	<-co.resume
	close(co.ack)
}

// resumeWith hands the directive to the parked goroutine and returns once that goroutine has left park(), so that the
// stack-based quiescence test cannot mistake it for still being parked.
func (s *sched) resumeWith(co *callout, d *directive) {
	// both channels are read before the hand-over: a goroutine whose answer is held back replaces them when it parks again
	resume, ack := co.resume, co.ack
	resume <- d
	<-ack
}

func goid() int {
	var buf [64]byte
	n := runtime.Stack(buf[:], false)
	f := strings.Fields(string(buf[:n]))
	id, _ := strconv.Atoi(f[1])
	return id
}

var goHeader = regexp.MustCompile(`^goroutine (\d+) \[([^\],]+)`)

// quiesce waits until all managed goroutines are parked in the harness, blocked in waitForValue, or finished.
// It returns the number of waiters blocked in waitForValue, or an error text after the timeout (hang / deadlock).
func (s *sched) quiesce(timeout time.Duration) (int, string) {
	deadline := time.Now().Add(timeout)
	for spin := 0; ; spin++ {
		n := runtime.Stack(s.stackBuf, true)
		for n == len(s.stackBuf) {
			s.stackBuf = make([]byte, 2*len(s.stackBuf))
			n = runtime.Stack(s.stackBuf, true)
		}
		blocks := bytes.Split(s.stackBuf[:n], []byte("\n\n"))
		busy := ""
		waiters := 0
		s.mu.Lock()
		for _, b := range blocks {
			m := goHeader.FindSubmatch(b)
			if m == nil {
				continue
			}
			id, _ := strconv.Atoi(string(m[1]))
			state := string(m[2])
			managed := s.runners[id] ||
				(bytes.Contains(b, []byte("created by github.com/bool64/cache.(*Failover")) && bytes.Contains(b, []byte(").Get")))
			if !managed {
				continue
			}
			switch {
			case bytes.Contains(b, []byte("main.(*sched).park")) && strings.HasPrefix(state, "chan receive"):
				// parked in harness code, blocked on its resume channel (so it has registered itself; a goroutine that is
				// inside park() but still waiting for s.mu - which this loop holds - is not parked yet)
			case strings.HasPrefix(state, "chan receive") && bytes.Contains(b, []byte("waitForValue")):
				waiters++
			default:
				busy = fmt.Sprintf("goroutine %d [%s]", id, state)
			}
		}
		s.mu.Unlock()
		if busy == "" {
			return waiters, ""
		}
		if time.Now().After(deadline) {
			return waiters, "not quiescent after " + timeout.String() + ": " + busy + "\n" + string(s.stackBuf[:n])
		}
		if spin < 20 {
			runtime.Gosched()
		} else {
			time.Sleep(50 * time.Microsecond)
		}
	}
}

// ---- backend wrappers -------------------------------------------------------------------------------------------

// faultyRW wraps a real interface{} backend; every call parks.
type faultyRW struct {
	s        *sched
	inner    Backend
	wrapErrs bool // behave like a decorating backend that adds context to Read errors with %w
}

func ctxTid(ctx context.Context) int {
	if v, ok := ctx.Value(tidKey{}).(int); ok {
		return v
	}
	return -1
}

func (f *faultyRW) doRead(ctx context.Context, key []byte) (int, error) {
	co := &callout{tid: ctxTid(ctx), kind: "read", key: append([]byte(nil), key...), skip: cache.SkipRead(ctx), ttl: int64(cache.TTL(ctx))}
	d := f.s.park(co)
	close(co.ack)
	co.t0 = now()
	if d.fault != 0 {
		co.t1 = now()
		co.outcome = fmt.Sprintf("err %d", d.fault)
		if d.fault%2 == 1 {
			// a backend that reports expiry WITHOUT handing out the item (ErrExpired "may" carry one): to the frontends this is
			// a failed read like any other - there is no stale value to fall back to
			return 0, bareExpired{tokErr{n: d.fault}}
		}
		return 0, tokErr{n: d.fault}
	}
	v, err := f.inner.Read(ctx, key)
	co.t1 = now()
	switch {
	case err == nil:
		co.outcome = fmt.Sprintf("hit %d", v)
	case errors.Is(err, cache.ErrNotFound):
		co.outcome = "miss"
	default:
		if ev, at, ok := f.inner.Expired(err); ok {
			co.outcome = fmt.Sprintf("stale %d %d", ev, at)
		} else {
			co.outcome = "err -1"
		}
	}
	if d.late {
		f.s.parkLate(co)
		co.t0, co.t1 = now(), now() // what the frontend does with the answer happens from here on
	}
	if f.wrapErrs && err != nil {
		// a decorating backend adds context to the errors of the backend it wraps; errors.Is / errors.As still see through it
		err = fmt.Errorf("decorated backend read of %q: %w", key, err)
	}
	return v, err
}

func (f *faultyRW) doWrite(ctx context.Context, key []byte, v int) error {
	co := &callout{tid: ctxTid(ctx), kind: "write", key: append([]byte(nil), key...), val: v, ttl: int64(cache.TTL(ctx))}
	d := f.s.park(co)
	close(co.ack)
	co.t0 = now()
	if d.fault != 0 {
		co.t1 = now()
		co.outcome = fmt.Sprintf("err %d", d.fault)
		return tokErr{n: d.fault}
	}
	err := f.inner.Write(ctx, key, v)
	co.t1 = now()
	if err != nil {
		co.outcome = "err -1"
	} else {
		co.outcome = "ok"
	}
	if d.late {
		f.s.parkLate(co)
	}
	return err
}

// interface{} flavour
type rwAny struct{ *faultyRW }

func (r rwAny) Read(ctx context.Context, key []byte) (interface{}, error) {
	v, err := r.doRead(ctx, key)
	if err != nil {
		if ee := (cache.ErrWithExpiredItem)(nil); errors.As(err, &ee) {
			return nil, err
		}
		return nil, err
	}
	return valOf(v), nil
}
func (r rwAny) Write(ctx context.Context, key []byte, v interface{}) error {
	return r.doWrite(ctx, key, tokOf(v))
}

// generic flavour
type rwInt struct{ *faultyRW }

func (r rwInt) Read(ctx context.Context, key []byte) (int, error) { return r.doRead(ctx, key) }
func (r rwInt) Write(ctx context.Context, key []byte, v int) error {
	return r.doWrite(ctx, key, v)
}

// ---- the frontend under test, both variants ---------------------------------------------------------------------

type frontend interface {
	Get(ctx context.Context, key []byte, build func(ctx context.Context) (int, error)) (int, error)
	KeyLocks() int
	ErrorsWalk() []EntryObs
	SeedError(key []byte, e int)
}

type feAny struct{ f *cache.Failover }

func (x feAny) Get(ctx context.Context, key []byte, build func(ctx context.Context) (int, error)) (int, error) {
	v, err := x.f.Get(ctx, key, func(ctx context.Context) (interface{}, error) {
		r, err := build(ctx)
		if err != nil {
			return nil, err
		}
		return r, nil
	})
	return tokOf(v), err
}
func (x feAny) KeyLocks() int { return x.f.VerifKeyLocks() }
func (x feAny) ErrorsWalk() []EntryObs {
	if x.f.Errors == nil {
		return nil
	}
	var res []EntryObs
	_, _ = x.f.Errors.Walk(func(e cache.Entry) error {
		te := e.(*cache.TraitEntry)
		res = append(res, EntryObs{Key: string(te.K), V: errTok(te.V.(error)), E: te.E})
		return nil
	})
	return res
}
func (x feAny) SeedError(key []byte, e int) {
	_ = x.f.Errors.Write(context.Background(), key, tokErr{n: e})
}

type feOf struct{ f *cache.FailoverOf[int] }

func (x feOf) Get(ctx context.Context, key []byte, build func(ctx context.Context) (int, error)) (int, error) {
	return x.f.Get(ctx, key, build)
}
func (x feOf) KeyLocks() int { return x.f.VerifKeyLocks() }
func (x feOf) ErrorsWalk() []EntryObs {
	if x.f.Errors == nil {
		return nil
	}
	var res []EntryObs
	_, _ = x.f.Errors.Walk(func(e cache.EntryOf[error]) error {
		te := e.(*cache.TraitEntryOf[error])
		res = append(res, EntryObs{Key: string(te.K), V: errTok(te.V), E: te.E})
		return nil
	})
	return res
}
func (x feOf) SeedError(key []byte, e int) {
	_ = x.f.Errors.Write(context.Background(), key, tokErr{n: e})
}
