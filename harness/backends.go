package main

import (
	"context"
	"errors"
	"fmt"
	"io"
	"sync"
	"time"

	"github.com/bool64/cache"
	"github.com/cespare/xxhash/v2"
)

// walkStrictE: Walk adapters also cross-check ExpireAt() against the entry's E field. Engines that walk while other
// goroutines run ExpireAll (which rewrites E in place: known finding F9a) switch it off.
var walkStrictE = true

// Value tokens: ints >= 1; 0 stands for nil (interface backends) / the zero value (generic backend).

type EntryObs struct {
	Key  string
	V    int
	E, C int64
}

// Backend adapts the three real backends to one shape. Every method calls the real package.
type Backend interface {
	Kind() string
	Read(ctx context.Context, key []byte) (int, error)
	Write(ctx context.Context, key []byte, v int) error
	Delete(ctx context.Context, key []byte) error
	ExpireAll(ctx context.Context)
	DeleteAll(ctx context.Context)
	Len() int
	Walk() []EntryObs
	WalkCB(cb func(EntryObs)) // the callback runs inside the real Walk callback
	Load(key []byte) (int, bool)
	Store(key []byte, v int)
	Cleanup()
	Dump(w io.Writer) (int, error)
	Restore(r io.Reader) (int, error)
	Expired(err error) (v int, at int64, ok bool)
	Slot(key []byte) uint64
	Raw() interface{}
	Index() *cache.InvalidationIndex // the invalidation index embedded in the backend
	// WalkErr walks with a callback that fails at the at-th entry it is shown (0-based); returns Walk's results and the key there
	WalkErr(at int) (n int, err error, failedKey string)
}

var errWalkStop = errors.New("walk callback gives up")

func tokOf(v interface{}) int {
	if v == nil {
		return 0
	}
	if i, ok := v.(int); ok {
		return i
	}
	return -1
}

func valOf(t int) interface{} {
	if t == 0 {
		return nil
	}
	return t
}

// ---- ShardedMap ----

type shardedB struct{ c *cache.ShardedMap }

func (b shardedB) Kind() string                    { return "sharded" }
func (b shardedB) Index() *cache.InvalidationIndex { return b.c.InvalidationIndex }
func (b shardedB) Read(ctx context.Context, key []byte) (int, error) {
	v, err := b.c.Read(ctx, key)
	return tokOf(v), err
}
func (b shardedB) Write(ctx context.Context, key []byte, v int) error {
	return b.c.Write(ctx, key, valOf(v))
}
func (b shardedB) Delete(ctx context.Context, key []byte) error { return b.c.Delete(ctx, key) }
func (b shardedB) ExpireAll(ctx context.Context)                { b.c.ExpireAll(ctx) }
func (b shardedB) DeleteAll(ctx context.Context)                { b.c.DeleteAll(ctx) }
func (b shardedB) Len() int                                     { return b.c.Len() }
func (b shardedB) Walk() []EntryObs {
	var res []EntryObs
	_, err := b.c.Walk(func(e cache.Entry) error {
		te := e.(*cache.TraitEntry)
		res = append(res, EntryObs{Key: string(te.K), V: tokOf(te.V), E: te.E, C: te.C})
		if string(e.Key()) != string(te.K) || tokOf(e.Value()) != tokOf(te.V) || (walkStrictE && e.ExpireAt().UnixNano() != te.E) {
			res[len(res)-1].V = -2 // accessor disagreement is reported as a foreign value
		}
		return nil
	})
	if err != nil {
		panic(err)
	}
	return res
}
func (b shardedB) WalkErr(at int) (int, error, string) {
	i, fk := 0, ""
	n, err := b.c.Walk(func(e cache.Entry) error {
		if i == at {
			fk = string(e.Key())
			return errWalkStop
		}
		i++
		return nil
	})
	return n, err, fk
}
func (b shardedB) WalkCB(cb func(EntryObs)) {
	_, _ = b.c.Walk(func(e cache.Entry) error {
		te := e.(*cache.TraitEntry)
		cb(EntryObs{Key: string(te.K), V: tokOf(te.V), E: te.E, C: te.C})
		return nil
	})
}
func (b shardedB) Load(key []byte) (int, bool) {
	v, ok := b.c.Load(key)
	return tokOf(v), ok
}
func (b shardedB) Store(key []byte, v int)              { b.c.Store(key, valOf(v)) }
func (b shardedB) Cleanup()                             { b.c.VerifCleanup() }
func (b shardedB) Dump(w io.Writer) (int, error)        { return b.c.Dump(w) }
func (b shardedB) Restore(r io.Reader) (int, error)     { return b.c.Restore(r) }
func (b shardedB) Slot(key []byte) uint64               { return xxhash.Sum64(key) }
func (b shardedB) Raw() interface{}                     { return b.c }
func (b shardedB) Expired(err error) (int, int64, bool) { return expiredAny(err) }

func expiredAny(err error) (int, int64, bool) {
	var ee cache.ErrWithExpiredItem
	if errors.As(err, &ee) {
		return tokOf(ee.Value()), ee.ExpiredAt().UnixNano(), true
	}
	return 0, 0, false
}

// ---- SyncMap ----

type syncB struct {
	c    *cache.SyncMap
	keys *KeyTable
}

func (b syncB) Kind() string                    { return "sync" }
func (b syncB) Index() *cache.InvalidationIndex { return b.c.InvalidationIndex }
func (b syncB) Read(ctx context.Context, key []byte) (int, error) {
	v, err := b.c.Read(ctx, key)
	return tokOf(v), err
}
func (b syncB) Write(ctx context.Context, key []byte, v int) error {
	return b.c.Write(ctx, key, valOf(v))
}
func (b syncB) Delete(ctx context.Context, key []byte) error { return b.c.Delete(ctx, key) }
func (b syncB) ExpireAll(ctx context.Context)                { b.c.ExpireAll(ctx) }
func (b syncB) DeleteAll(ctx context.Context)                { b.c.DeleteAll(ctx) }
func (b syncB) Len() int                                     { return b.c.Len() }
func (b syncB) Walk() []EntryObs {
	var res []EntryObs
	_, err := b.c.Walk(func(e cache.Entry) error {
		te := e.(*cache.TraitEntry)
		res = append(res, EntryObs{Key: string(te.K), V: tokOf(te.V), E: te.E, C: te.C})
		if string(e.Key()) != string(te.K) || tokOf(e.Value()) != tokOf(te.V) || (walkStrictE && e.ExpireAt().UnixNano() != te.E) {
			res[len(res)-1].V = -2
		}
		return nil
	})
	if err != nil {
		panic(err)
	}
	return res
}
func (b syncB) WalkErr(at int) (int, error, string) {
	i, fk := 0, ""
	n, err := b.c.Walk(func(e cache.Entry) error {
		if i == at {
			fk = string(e.Key())
			return errWalkStop
		}
		i++
		return nil
	})
	return n, err, fk
}
func (b syncB) WalkCB(cb func(EntryObs)) {
	_, _ = b.c.Walk(func(e cache.Entry) error {
		te := e.(*cache.TraitEntry)
		cb(EntryObs{Key: string(te.K), V: tokOf(te.V), E: te.E, C: te.C})
		return nil
	})
}
func (b syncB) Load(key []byte) (int, bool) {
	// SyncMap has no Load/Store; Read/Write under the background context is what Load/Store are defined as.
	v, err := b.c.Read(context.Background(), key)
	return tokOf(v), err == nil
}
func (b syncB) Store(key []byte, v int)              { _ = b.c.Write(context.Background(), key, valOf(v)) }
func (b syncB) Cleanup()                             { b.c.VerifCleanup() }
func (b syncB) Dump(w io.Writer) (int, error)        { return b.c.Dump(w) }
func (b syncB) Restore(r io.Reader) (int, error)     { return b.c.Restore(r) }
func (b syncB) Slot(key []byte) uint64               { return uint64(b.keys.ID(key)) + 1000000 }
func (b syncB) Raw() interface{}                     { return b.c }
func (b syncB) Expired(err error) (int, int64, bool) { return expiredAny(err) }

// ---- ShardedMapOf[int] ----

type shardedOfB struct{ c *cache.ShardedMapOf[int] }

func (b shardedOfB) Kind() string                    { return "shardedOf" }
func (b shardedOfB) Index() *cache.InvalidationIndex { return b.c.InvalidationIndex }
func (b shardedOfB) Read(ctx context.Context, key []byte) (int, error) {
	return b.c.Read(ctx, key)
}
func (b shardedOfB) Write(ctx context.Context, key []byte, v int) error {
	return b.c.Write(ctx, key, v)
}
func (b shardedOfB) Delete(ctx context.Context, key []byte) error { return b.c.Delete(ctx, key) }
func (b shardedOfB) ExpireAll(ctx context.Context)                { b.c.ExpireAll(ctx) }
func (b shardedOfB) DeleteAll(ctx context.Context)                { b.c.DeleteAll(ctx) }
func (b shardedOfB) Len() int                                     { return b.c.Len() }
func (b shardedOfB) Walk() []EntryObs {
	var res []EntryObs
	_, err := b.c.Walk(func(e cache.EntryOf[int]) error {
		te := e.(*cache.TraitEntryOf[int])
		res = append(res, EntryObs{Key: string(te.K), V: te.V, E: te.E, C: te.C})
		if string(e.Key()) != string(te.K) || e.Value() != te.V || (walkStrictE && e.ExpireAt().UnixNano() != te.E) {
			res[len(res)-1].V = -2
		}
		return nil
	})
	if err != nil {
		panic(err)
	}
	return res
}
func (b shardedOfB) WalkErr(at int) (int, error, string) {
	i, fk := 0, ""
	n, err := b.c.Walk(func(e cache.EntryOf[int]) error {
		if i == at {
			fk = string(e.Key())
			return errWalkStop
		}
		i++
		return nil
	})
	return n, err, fk
}
func (b shardedOfB) WalkCB(cb func(EntryObs)) {
	_, _ = b.c.Walk(func(e cache.EntryOf[int]) error {
		te := e.(*cache.TraitEntryOf[int])
		cb(EntryObs{Key: string(te.K), V: te.V, E: te.E, C: te.C})
		return nil
	})
}
func (b shardedOfB) Load(key []byte) (int, bool)      { return b.c.Load(key) }
func (b shardedOfB) Store(key []byte, v int)          { b.c.Store(key, v) }
func (b shardedOfB) Cleanup()                         { b.c.VerifCleanup() }
func (b shardedOfB) Dump(w io.Writer) (int, error)    { return b.c.Dump(w) }
func (b shardedOfB) Restore(r io.Reader) (int, error) { return b.c.Restore(r) }
func (b shardedOfB) Slot(key []byte) uint64           { return xxhash.Sum64(key) }
func (b shardedOfB) Raw() interface{}                 { return b.c }
func (b shardedOfB) Expired(err error) (int, int64, bool) {
	var ee cache.ErrWithExpiredItemOf[int]
	if errors.As(err, &ee) {
		return ee.Value(), ee.ExpiredAt().UnixNano(), true
	}
	return 0, 0, false
}

// ---- key table: byte strings <-> model key ids ----

type KeyTable struct {
	mu  sync.Mutex
	ids map[string]int
	rev []string
}

func NewKeyTable() *KeyTable { return &KeyTable{ids: map[string]int{}} }

func (t *KeyTable) ID(key []byte) int {
	t.mu.Lock()
	defer t.mu.Unlock()
	if id, ok := t.ids[string(key)]; ok {
		return id
	}
	id := len(t.rev) + 1
	t.ids[string(key)] = id
	t.rev = append(t.rev, string(key))
	return id
}

func (t *KeyTable) Key(id int) []byte { return []byte(t.rev[id-1]) }

// ---- configuration ----

// Rat is an exact rational view of a float64 option (the model computes in exact arithmetic).
type Rat struct {
	N int64
	D int64
	F float64
}

type BCfg struct {
	Kind        string
	TTL         time.Duration // raw Config.TimeToLive (0 = default, -1 = unlimited)
	Jitter      Rat           // raw ExpirationJitter (0 = default 0.1, negative = disabled)
	Strategy    int
	DEA         time.Duration // raw DeleteExpiredAfter
	CSL         uint64
	EF          Rat // raw EvictFraction (0 = default)
	JobInterval time.Duration
	Needed      func() bool
	Stats       cache.StatsTracker
	Name        string
	HeapLimit   uint64
	SysLimit    uint64
	RealJanitor bool
	// Via = "failover": the backend is not constructed directly but as the DEFAULT backend of a Failover / FailoverOf that is
	// given this configuration as BackendConfig (and an arbitrary failover configuration of its own, MaxStaleness = ViaMS);
	// it must behave as the backend this configuration describes. (sharded and shardedOf only)
	Via   string
	ViaMS time.Duration
}

func (c BCfg) apply(cfg *cache.Config) {
	cfg.Name = c.Name
	cfg.TimeToLive = c.TTL
	cfg.ExpirationJitter = c.Jitter.F
	cfg.EvictionStrategy = cache.EvictionStrategy(c.Strategy)
	cfg.DeleteExpiredAfter = c.DEA
	cfg.CountSoftLimit = c.CSL
	cfg.EvictFraction = c.EF.F
	cfg.DeleteExpiredJobInterval = c.JobInterval
	cfg.EvictionNeeded = c.Needed
	cfg.Stats = c.Stats
	cfg.HeapInUseSoftLimit = c.HeapLimit
	cfg.SysMemSoftLimit = c.SysLimit
}

func NewBackend(c BCfg, keys *KeyTable) Backend {
	if c.JobInterval == 0 {
		c.JobInterval = 24 * time.Hour // the janitor never fires on its own; cycles are driven explicitly
	}
	if c.Via == "failover" {
		switch c.Kind {
		case "sharded":
			f := cache.NewFailover(func(fc *cache.FailoverConfig) {
				c.apply(&fc.BackendConfig)
				// name and stats tracker are given to the failover only: its default backend reports under them (C18)
				fc.BackendConfig.Name, fc.BackendConfig.Stats = "", nil
				fc.Name, fc.Stats = c.Name, c.Stats
				fc.MaxStaleness = c.ViaMS
				fc.UpdateTTL, fc.FailedUpdateTTL = 3*time.Second, 7*time.Second
			})
			return shardedB{f.VerifBackend().(*cache.ShardedMap)}
		case "shardedOf":
			f := cache.NewFailoverOf[int](func(fc *cache.FailoverConfigOf[int]) {
				c.apply(&fc.BackendConfig)
				fc.BackendConfig.Name, fc.BackendConfig.Stats = "", nil
				fc.Name, fc.Stats = c.Name, c.Stats
				fc.MaxStaleness = c.ViaMS
				fc.UpdateTTL, fc.FailedUpdateTTL = 3*time.Second, 7*time.Second
			})
			return shardedOfB{f.VerifBackend().(*cache.ShardedMapOf[int])}
		}
	}
	switch c.Kind {
	case "sharded":
		return shardedB{cache.NewShardedMap(c.apply)}
	case "sync":
		return syncB{cache.NewSyncMap(c.apply), keys}
	case "shardedOf":
		return shardedOfB{cache.NewShardedMapOf[int](c.apply)}
	}
	panic("unknown backend kind " + c.Kind)
}

// DriverNew renders the `be new` line: RAW options; the model applies the defaults of NewTrait itself.
func (c BCfg) DriverNew(id string) string {
	jn, jd := c.Jitter.N, c.Jitter.D
	if jd == 0 {
		jd = 1
	}
	en, ed := c.EF.N, c.EF.D
	if ed == 0 {
		ed = 1
	}
	return fmt.Sprintf("be new %s kind=%s ttl=%d jn=%d jd=%d strat=%d dea=%d csl=%d efn=%d efd=%d",
		id, c.Kind, int64(c.TTL), jn, jd, c.Strategy, int64(c.DEA), c.CSL, en, ed)
}

// ---- counting stats tracker ----

type Stats struct {
	mu sync.Mutex
	m  map[string]float64
}

func NewStats() *Stats { return &Stats{m: map[string]float64{}} }

func (s *Stats) Add(_ context.Context, name string, inc float64, lv ...string) {
	s.mu.Lock()
	s.m[name+"|"+labelName(lv)] += inc
	s.mu.Unlock()
}

func (s *Stats) Set(_ context.Context, name string, abs float64, lv ...string) {
	s.mu.Lock()
	s.m[name+"|"+labelName(lv)] = abs
	s.mu.Unlock()
}

func (s *Stats) Get(metric, name string) int {
	s.mu.Lock()
	defer s.mu.Unlock()
	return int(s.m[metric+"|"+name])
}

func labelName(lv []string) string {
	for i := 0; i+1 < len(lv); i += 2 {
		if lv[i] == "name" {
			return lv[i+1]
		}
	}
	return ""
}
