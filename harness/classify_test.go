//go:build verif

package main

import "testing"

func TestClassifyBySite(t *testing.T) {
	rep := "\nWARNING: DATA RACE\nWrite at 0x00c0005a4f28 by goroutine 241:\n  github.com/bool64/cache.(*syncMap).ExpireAll.func1()\n      /repo/sync_map.go:116 +0x5b\n  sync.(*Map).Range()\n      /usr/lib/go-1.23/src/sync/map.go:501 +0x1e5\n\nPrevious read at 0x00c0005a4f28 by goroutine 243:\n  sync/atomic.LoadInt64()\n      /usr/lib/go-1.23/src/runtime/race_amd64.s:208 +0xb\n  github.com/bool64/cache.(*syncMap).evictLeast.func1()\n      /repo/sync_map.go:263 +0x67\n\nGoroutine 241 (running) created at:\n  main.runRaceChild()\n"
	if got := classifyBySite(rep); got != "entryE" {
		t.Fatalf("got %q", got)
	}
	rep2 := "\nWARNING: DATA RACE\nRead at 0x00c0005a4f28 by goroutine 241:\n  github.com/bool64/cache.(*syncMap).Walk.func1()\n      /repo/sync_map.go:300 +0x5b\n\nPrevious write at 0x00c0005a4f28 by goroutine 243:\n  sync/atomic.AddInt64()\n      /usr/lib/go-1.23/src/runtime/race_amd64.s:208 +0xb\n  github.com/bool64/cache.(*Trait).PrepareRead()\n      /repo/trait.go:228 +0x67\n\nGoroutine 241 (running) created at:\n"
	if got := classifyBySite(rep2); got != "entryC" {
		t.Fatalf("got %q", got)
	}
	rep3 := "\nWARNING: DATA RACE\nWrite at 0x00c0005a4f28 by goroutine 241:\n  github.com/bool64/cache.(*syncMap).Write()\n      /repo/sync_map.go:90 +0x5b\n\nPrevious read at 0x00c0005a4f28 by goroutine 243:\n  github.com/bool64/cache.(*syncMap).Read()\n      /repo/sync_map.go:60 +0x67\n\nGoroutine 241 (running) created at:\n"
	if got := classifyBySite(rep3); got != "" {
		t.Fatalf("got %q", got)
	}
}
