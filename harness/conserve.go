//go:build verif

package main

import (
	"context"
	"errors"
	"fmt"
	"math/rand"
	"runtime"
	"sync"
	"sync/atomic"
	"time"

	"github.com/bool64/cache"
)

// E8: conservation of entries under concurrency (C18, the "under any interleaving" half for Delete / DeleteAll).
// Every key is written exactly once, so every entry can be removed at most once: at quiescence
//
//	cache_delete  ==  keys written - Len()            (nothing but Delete / DeleteAll removes entries here)
//	cache_write   ==  keys written
//
// whatever the interleaving of the writers with concurrent Delete and DeleteAll calls. No model is consulted: the equation
// is the statement of C18 itself, evaluated on the real backend.
func init() { engines["conserve"] = runConserve }

// Profile c11all (C11 under concurrency): an UnlimitedTTL cache receives per-call TTLs (entries born long expired) while other
// goroutines call DeleteAll; once everybody is done, one cleanup cycle must remove every entry that is expired longer than
// DeleteExpiredAfter - whatever DeleteAll interleaved with the writes, the janitor must still know that expirations were set.
func runConserveC11(o Opts) *Result {
	res := &Result{Rule: "per scenario: an UnlimitedTTL backend (DeleteExpiredAfter 1ms), 2-4 goroutines writing 10-40 distinct keys each with a ttl of -1h " +
		"(plus a few never-expiring ones), 1-2 goroutines calling DeleteAll repeatedly; after quiescence one cleanup cycle: no entry expired longer than " +
		"DeleteExpiredAfter may remain, never-expiring ones written after the last DeleteAll must remain; all three backends; " +
		"non-trivial = a scenario in which a DeleteAll completed while writers were running; distinct = distinct (backend, shape)"}
	ctx := context.Background()
	uniq := map[string]bool{}
	for idx := 0; idx < o.N; idx++ {
		if timeUp() {
			break
		}
		if o.Only >= 0 && idx != o.Only {
			continue
		}
		rng := rand.New(rand.NewSource(o.Seed*32452843 + int64(idx)*13))
		kind := kinds[idx%3]
		keys := NewKeyTable()
		b := NewBackend(BCfg{Kind: kind, TTL: cache.UnlimitedTTL, Jitter: Rat{-1, 1, -1}, DEA: time.Millisecond, Name: "cv11"}, keys)
		nW, nK, nDA := 2+rng.Intn(3), 10+rng.Intn(31), 1+rng.Intn(2)
		rounds := 2 + rng.Intn(6)
		res.Evaluations++
		touch()
		res.count("backend:" + kind)
		var wg sync.WaitGroup
		var writersLeft, daWhileWriting int64 = int64(nW), 0
		for g := 0; g < nW; g++ {
			g := g
			wg.Add(1)
			go func() {
				defer wg.Done()
				defer atomic.AddInt64(&writersLeft, -1)
				for i := 0; i < nK; i++ {
					c := cache.WithTTL(ctx, -time.Hour, false)
					if i%9 == 8 {
						c = ctx // never expires
					}
					_ = b.Write(c, []byte(fmt.Sprintf("c11-%d-%d-%d", idx, g, i)), i+1)
					if i%5 == 0 {
						runtime.Gosched()
					}
				}
			}()
		}
		for a := 0; a < nDA; a++ {
			wg.Add(1)
			go func() {
				defer wg.Done()
				for r := 0; r < rounds; r++ {
					b.DeleteAll(ctx)
					if atomic.LoadInt64(&writersLeft) > 0 {
						atomic.AddInt64(&daWhileWriting, 1)
					}
					runtime.Gosched()
				}
			}()
		}
		wg.Wait()
		time.Sleep(3 * time.Millisecond)
		before := b.Walk()
		t0 := now()
		b.Cleanup()
		res.TracesValidated++
		if daWhileWriting > 0 {
			res.DistinctNontrivial++
		}
		uniq[fmt.Sprintf("%s/%d/%d/%d", kind, nW, nK, nDA)] = true
		left := 0
		for _, e := range b.Walk() {
			if e.E != 0 && e.E < t0-int64(time.Millisecond) {
				left++
			}
		}
		res.countN("long-expired-entries-met-by-the-cycle", len(before))
		if left > 0 {
			res.Violations = append(res.Violations, Violation{Property: "C11", Kind: "monitor", Sig: "conserve:kept-long-expired:" + kind,
				Detail: fmt.Sprintf("%s, UnlimitedTTL with per-call ttls: after concurrent DeleteAll calls and writes had finished, a cleanup cycle left %d of %d entries that are expired for an hour (DeleteExpiredAfter = 1ms)", kind, left, len(before)),
				Replay: map[string]interface{}{"engine": "conserve", "profile": "c11all", "seed": o.Seed, "index": idx, "backend": kind, "writers": nW, "keysPerWriter": nK, "deleteAllGoroutines": nDA, "rounds": rounds,
					"rerun": fmt.Sprintf("harness conserve -profile c11all -seed %d -only %d (the interleaving is up to the Go scheduler: repeat)", o.Seed, idx)}})
		}
		if res.full() {
			break
		}
	}
	return res
}

func runConserve(o Opts) *Result {
	if o.Profile == "c11all" {
		return runConserveC11(o)
	}
	res := &Result{Rule: "per scenario: 2-4 writer goroutines write 20-80 distinct keys once each (spread over the shards), 0-2 goroutines Delete random keys of that universe, " +
		"1-2 goroutines call DeleteAll repeatedly; at quiescence cache_delete must equal keys written minus Len, cache_write the keys written; all three backends; " +
		"non-trivial = a scenario in which DeleteAll and Delete both removed entries while writers were still running; distinct = distinct (backend, shape) configurations"}
	ctx := context.Background()
	uniq := map[string]bool{}
	for idx := 0; idx < o.N; idx++ {
		if timeUp() {
			break
		}
		if o.Only >= 0 && idx != o.Only {
			continue
		}
		rng := rand.New(rand.NewSource(o.Seed*15485863 + int64(idx)*31))
		kind := kinds[idx%3]
		stats := NewStats()
		keys := NewKeyTable()
		b := NewBackend(BCfg{Kind: kind, TTL: cache.UnlimitedTTL, Jitter: Rat{-1, 1, -1}, Name: "cv", Stats: stats}, keys)
		nW, nK := 2+rng.Intn(3), 20+rng.Intn(61)
		nD, nDA := rng.Intn(3), 1+rng.Intn(2)
		daRounds := 3 + rng.Intn(8)
		res.Evaluations++
		touch()
		res.count("backend:" + kind)
		var wg sync.WaitGroup
		var okDeletes, writersLeft int64
		var daWhileWriting int64
		writersLeft = int64(nW)
		keyOf := func(g, i int) []byte { return []byte(fmt.Sprintf("cons-%d-%d-%d", idx, g, i)) }
		for g := 0; g < nW; g++ {
			g := g
			wg.Add(1)
			go func() {
				defer wg.Done()
				defer atomic.AddInt64(&writersLeft, -1)
				for i := 0; i < nK; i++ {
					if err := b.Write(ctx, keyOf(g, i), g*1000+i+1); err != nil {
						panic(err)
					}
					if i%7 == 0 {
						runtime.Gosched()
					}
				}
			}()
		}
		for d := 0; d < nD; d++ {
			seed := rng.Int63()
			wg.Add(1)
			go func() {
				defer wg.Done()
				r := rand.New(rand.NewSource(seed))
				for i := 0; i < nK*2; i++ {
					err := b.Delete(ctx, keyOf(r.Intn(nW), r.Intn(nK)))
					if err == nil {
						atomic.AddInt64(&okDeletes, 1)
					} else if !errors.Is(err, cache.ErrNotFound) {
						panic(err)
					}
					if i%5 == 0 {
						runtime.Gosched()
					}
				}
			}()
		}
		for a := 0; a < nDA; a++ {
			wg.Add(1)
			go func() {
				defer wg.Done()
				for r := 0; r < daRounds; r++ {
					b.DeleteAll(ctx)
					if atomic.LoadInt64(&writersLeft) > 0 {
						atomic.AddInt64(&daWhileWriting, 1)
					}
					runtime.Gosched()
				}
			}()
		}
		wg.Wait()
		written := nW * nK
		left := b.Len()
		del := stats.Get(cache.MetricDelete, "cv")
		wr := stats.Get(cache.MetricWrite, "cv")
		res.TracesValidated++
		if daWhileWriting > 0 && okDeletes > 0 {
			res.DistinctNontrivial++
		}
		uniq[fmt.Sprintf("%s/%d/%d/%d/%d", kind, nW, nK, nD, nDA)] = true
		res.countN("entries-removed-by-DeleteAll", del-int(okDeletes))
		res.countN("entries-removed-by-Delete", int(okDeletes))
		replay := map[string]interface{}{"engine": "conserve", "profile": o.Profile, "seed": o.Seed, "index": idx, "backend": kind,
			"writers": nW, "keysPerWriter": nK, "deleters": nD, "deleteAllGoroutines": nDA, "deleteAllRounds": daRounds,
			"rerun": fmt.Sprintf("harness conserve -seed %d -only %d (the interleaving is up to the Go scheduler: repeat)", o.Seed, idx)}
		if del != written-left {
			res.Violations = append(res.Violations, Violation{Property: "C18", Kind: "monitor", Sig: "conserve:delete-count:" + kind,
				Detail: fmt.Sprintf("%s: %d keys were written once each and %d remain, so %d entries were removed; cache_delete=%d (successful Delete calls: %d)", kind, written, left, written-left, del, okDeletes),
				Replay: replay})
		}
		if wr != written {
			res.Violations = append(res.Violations, Violation{Property: "C18", Kind: "monitor", Sig: "conserve:write-count:" + kind,
				Detail: fmt.Sprintf("%s: %d writes but cache_write=%d", kind, written, wr), Replay: replay})
		}
		if len(res.Samples) < 3 {
			res.Samples = append(res.Samples, map[string]interface{}{"backend": kind, "written": written, "left": left, "cache_delete": del, "okDeletes": okDeletes})
		}
		if res.full() {
			break
		}
	}
	return res
}
