//go:build verif

package main

import (
	"context"
	"errors"
	"fmt"
	"math/rand"
	"runtime"
	"sync"
	"sync/atomic"

	"github.com/bool64/cache"
)

// E8: conservation of entries under concurrency (C18, the "under any interleaving" half for Delete / DeleteAll).
// Every key is written exactly once, so every entry can be removed at most once: at quiescence
//
//	cache_delete  ==  keys written - Len()            (nothing but Delete / DeleteAll removes entries here)
//	cache_write   ==  keys written
//
// whatever the interleaving of the writers with concurrent Delete and DeleteAll calls. No model is consulted: the equation
// is the statement of C18 itself, evaluated on the real backend.
func init() { engines["conserve"] = runConserve }

func runConserve(o Opts) *Result {
	res := &Result{Rule: "per scenario: 2-4 writer goroutines write 20-80 distinct keys once each (spread over the shards), 0-2 goroutines Delete random keys of that universe, " +
		"1-2 goroutines call DeleteAll repeatedly; at quiescence cache_delete must equal keys written minus Len, cache_write the keys written; all three backends; " +
		"non-trivial = a scenario in which DeleteAll and Delete both removed entries while writers were still running; distinct = distinct (backend, shape) configurations"}
	ctx := context.Background()
	uniq := map[string]bool{}
	for idx := 0; idx < o.N; idx++ {
		if timeUp() {
			break
		}
		if o.Only >= 0 && idx != o.Only {
			continue
		}
		rng := rand.New(rand.NewSource(o.Seed*15485863 + int64(idx)*31))
		kind := kinds[idx%3]
		stats := NewStats()
		keys := NewKeyTable()
		b := NewBackend(BCfg{Kind: kind, TTL: cache.UnlimitedTTL, Jitter: Rat{-1, 1, -1}, Name: "cv", Stats: stats}, keys)
		nW, nK := 2+rng.Intn(3), 20+rng.Intn(61)
		nD, nDA := rng.Intn(3), 1+rng.Intn(2)
		daRounds := 3 + rng.Intn(8)
		res.Evaluations++
		res.count("backend:" + kind)
		var wg sync.WaitGroup
		var okDeletes, writersLeft int64
		var daWhileWriting int64
		writersLeft = int64(nW)
		keyOf := func(g, i int) []byte { return []byte(fmt.Sprintf("cons-%d-%d-%d", idx, g, i)) }
		for g := 0; g < nW; g++ {
			g := g
			wg.Add(1)
			go func() {
				defer wg.Done()
				defer atomic.AddInt64(&writersLeft, -1)
				for i := 0; i < nK; i++ {
					if err := b.Write(ctx, keyOf(g, i), g*1000+i+1); err != nil {
						panic(err)
					}
					if i%7 == 0 {
						runtime.Gosched()
					}
				}
			}()
		}
		for d := 0; d < nD; d++ {
			seed := rng.Int63()
			wg.Add(1)
			go func() {
				defer wg.Done()
				r := rand.New(rand.NewSource(seed))
				for i := 0; i < nK*2; i++ {
					err := b.Delete(ctx, keyOf(r.Intn(nW), r.Intn(nK)))
					if err == nil {
						atomic.AddInt64(&okDeletes, 1)
					} else if !errors.Is(err, cache.ErrNotFound) {
						panic(err)
					}
					if i%5 == 0 {
						runtime.Gosched()
					}
				}
			}()
		}
		for a := 0; a < nDA; a++ {
			wg.Add(1)
			go func() {
				defer wg.Done()
				for r := 0; r < daRounds; r++ {
					b.DeleteAll(ctx)
					if atomic.LoadInt64(&writersLeft) > 0 {
						atomic.AddInt64(&daWhileWriting, 1)
					}
					runtime.Gosched()
				}
			}()
		}
		wg.Wait()
		written := nW * nK
		left := b.Len()
		del := stats.Get(cache.MetricDelete, "cv")
		wr := stats.Get(cache.MetricWrite, "cv")
		res.TracesValidated++
		if daWhileWriting > 0 && okDeletes > 0 {
			res.DistinctNontrivial++
		}
		uniq[fmt.Sprintf("%s/%d/%d/%d/%d", kind, nW, nK, nD, nDA)] = true
		res.countN("entries-removed-by-DeleteAll", del-int(okDeletes))
		res.countN("entries-removed-by-Delete", int(okDeletes))
		replay := map[string]interface{}{"engine": "conserve", "profile": o.Profile, "seed": o.Seed, "index": idx, "backend": kind,
			"writers": nW, "keysPerWriter": nK, "deleters": nD, "deleteAllGoroutines": nDA, "deleteAllRounds": daRounds,
			"rerun": fmt.Sprintf("harness conserve -seed %d -only %d (the interleaving is up to the Go scheduler: repeat)", o.Seed, idx)}
		if del != written-left {
			res.Violations = append(res.Violations, Violation{Property: "C18", Kind: "monitor", Sig: "conserve:delete-count:" + kind,
				Detail: fmt.Sprintf("%s: %d keys were written once each and %d remain, so %d entries were removed; cache_delete=%d (successful Delete calls: %d)", kind, written, left, written-left, del, okDeletes),
				Replay: replay})
		}
		if wr != written {
			res.Violations = append(res.Violations, Violation{Property: "C18", Kind: "monitor", Sig: "conserve:write-count:" + kind,
				Detail: fmt.Sprintf("%s: %d writes but cache_write=%d", kind, written, wr), Replay: replay})
		}
		if len(res.Samples) < 3 {
			res.Samples = append(res.Samples, map[string]interface{}{"backend": kind, "written": written, "left": left, "cache_delete": del, "okDeletes": okDeletes})
		}
		if res.full() {
			break
		}
	}
	return res
}
