package main

import (
	"context"
	"errors"
	"fmt"
	"github.com/cespare/xxhash/v2"
	"hash/fnv"
	"math/rand"
	"sort"
	"strings"
	"time"

	"github.com/bool64/cache"
)

// E1: sequential operation scripts on the three real backends, mirrored on the Lean model (and its plain-map Spec).

func init() { engines["seq"] = runSeq }

type SOp struct {
	Kind string // w r d xa da len load store wshort cleanup
	K    int    // index into the key alphabet
	V    int
	TTL  int64 // ctx ttl (0 = none)
	Skip bool
	// the write context is built in two steps: WithTTL(WithTTL(ctx, Base, false), Refine, true); TTL holds the documented outcome
	HasBase      bool
	Base, Refine int64
	// cleanup inputs
	Needed bool
}

func (o SOp) String() string {
	switch o.Kind {
	case "w", "wshort":
		if o.HasBase {
			return fmt.Sprintf("%s(k%d,v%d,ttl=%d refined with %d)", o.Kind, o.K, o.V, o.Base, o.Refine)
		}
		return fmt.Sprintf("%s(k%d,v%d,ttl=%d)", o.Kind, o.K, o.V, o.TTL)
	case "r":
		return fmt.Sprintf("r(k%d,skip=%v)", o.K, o.Skip)
	case "d", "load":
		return fmt.Sprintf("%s(k%d)", o.Kind, o.K)
	case "store":
		return fmt.Sprintf("store(k%d,v%d)", o.K, o.V)
	case "cleanup":
		return fmt.Sprintf("cleanup(needed=%v)", o.Needed)
	case "walkerr":
		return fmt.Sprintf("walk(callback fails at entry #%d)", o.K)
	}
	return o.Kind
}

type SScript struct {
	Cfg      BCfg
	Alphabet [][]byte
	Ops      []SOp
	Collide  bool
}

func (s SScript) opsString() string {
	parts := make([]string, len(s.Ops))
	for i, o := range s.Ops {
		parts[i] = o.String()
	}
	return strings.Join(parts, " ")
}

func (s SScript) describe() map[string]interface{} {
	return map[string]interface{}{
		"backend": s.Cfg.Kind, "ttl": int64(s.Cfg.TTL), "jitter": s.Cfg.Jitter.F, "strategy": s.Cfg.Strategy,
		"deleteExpiredAfter": int64(s.Cfg.DEA), "countSoftLimit": s.Cfg.CSL, "evictFraction": s.Cfg.EF.F,
		"collidingKeys": s.Collide, "ops": s.opsString(), "realJanitor": s.Cfg.RealJanitor, "heapInUseSoftLimit": s.Cfg.HeapLimit, "sysMemSoftLimit": s.Cfg.SysLimit,
		"constructedVia": s.Cfg.Via, "failoverMaxStaleness": int64(s.Cfg.ViaMS),
	}
}

var kinds = []string{"sharded", "sync", "shardedOf"}

func baseAlphabet(rng *rand.Rand, collide bool) [][]byte {
	long := make([]byte, 4096)
	rng.Read(long)
	k64 := make([]byte, 64)
	rng.Read(k64)
	al := [][]byte{
		[]byte(""), []byte("a"), []byte("b"), []byte("key-3"), {0x00, 0xff, 0x00, 0x0a, 0x20},
		long, k64,
	}
	if collide {
		al = append(al, CollidingTwin(k64, rng))
		k2 := make([]byte, 64)
		rng.Read(k2)
		al = append(al, k2, CollidingTwin(k2, rng))
	} else {
		al = append(al, []byte("a\x00"))
	}
	return al
}

var hour = int64(time.Hour)

func genTTL(rng *rand.Rand) int64 {
	switch rng.Intn(10) {
	case 0, 1, 2, 3:
		return 0
	case 4:
		return hour + rng.Int63n(hour)
	case 5:
		return -hour - rng.Int63n(hour)
	case 6:
		return int64(10*365*24) * hour // 10 years
	case 7:
		if rng.Intn(4) == 0 {
			return -int64(60+rng.Intn(40)) * 365 * 24 * hour // expiry before the unix epoch
		}
		return -1 // one nanosecond in the past; also equals UnlimitedTTL numerically at ctx level
	case 8:
		return -(1 + rng.Int63n(1000)) * int64(time.Millisecond)
	default:
		return int64(time.Minute) * (10 + rng.Int63n(100))
	}
}

func genJitter(rng *rand.Rand) Rat {
	switch rng.Intn(6) {
	case 0:
		return Rat{0, 1, 0} // default 0.1
	case 1:
		return Rat{-1, 1, -1} // disabled
	case 2:
		return Rat{1, 2, 0.5}
	case 3:
		return Rat{1, 1, 1}
	case 4:
		return Rat{1, 1024, 1.0 / 1024}
	default:
		return Rat{1, 10, 0.1}
	}
}

func genCfgTTL(rng *rand.Rand) time.Duration {
	switch rng.Intn(7) {
	case 0:
		return 0 // default 5m
	case 1:
		return cache.UnlimitedTTL
	case 2:
		return time.Hour
	case 3:
		return 24 * time.Hour
	case 4:
		return -time.Hour // a negative configured ttl other than UnlimitedTTL: entries are born expired
	case 5:
		return -2
	default:
		return 10 * time.Minute
	}
}

// genScript derives one script from (seed, index) only, so a case replays exactly.
func genScript(profile string, seed int64, idx int, tier string) SScript {
	s := genScript0(profile, seed, idx, tier)
	// every fourth script of the map backends runs on the default backend of a Failover configured with the same options
	// (config plumbing: BackendConfig must reach the backend unaltered, whatever the failover's own settings)
	if idx%4 == 1 && s.Cfg.Kind != "sync" {
		s.Cfg.Via = "failover"
		s.Cfg.ViaMS = []time.Duration{0, time.Millisecond, time.Second, 10 * time.Minute, -time.Second}[(idx/4)%5]
	}
	return s
}

func genScript0(profile string, seed int64, idx int, tier string) SScript {
	rng := rand.New(rand.NewSource(seed*1000003 + int64(idx)*7919 + int64(len(profile))))
	s := SScript{}
	s.Collide = profile == "c09"
	s.Alphabet = baseAlphabet(rng, s.Collide)
	s.Cfg = BCfg{Kind: kinds[idx%3], TTL: genCfgTTL(rng), Jitter: genJitter(rng), Strategy: rng.Intn(3),
		Name: fmt.Sprintf("c%d", idx)}
	maxOps := 40
	if tier == "thorough" {
		maxOps = 120
	}
	nOps := 8 + rng.Intn(maxOps-8)
	weights := map[string]int{"w": 30, "r": 26, "d": 10, "xa": 3, "da": 2, "len": 3, "load": 10, "store": 6, "wshort": 4, "cleanup": 0, "walkerr": 3}
	switch profile {
	case "c09":
		weights["xa"], weights["da"], weights["wshort"] = 1, 1, 1
	case "c10":
		weights = map[string]int{"w": 60, "r": 25, "wshort": 10, "xa": 2, "store": 3}
	case "c11":
		weights = map[string]int{"w": 40, "r": 8, "d": 3, "xa": 4, "cleanup": 25, "wshort": 0, "store": 5}
		s.Cfg.DEA = []time.Duration{0, time.Hour, 30 * time.Minute, time.Millisecond}[rng.Intn(4)]
		s.Cfg.RealJanitor = idx%5 == 4 && idx >= 9 // (the first nine are the directed scripts below, three per backend kind)
	case "c12":
		weights = map[string]int{"w": 50, "r": 20, "d": 2, "cleanup": 15, "store": 3, "load": 10, "xa": 1}
		s.Cfg.CSL = uint64(rng.Intn(8))
		efs := []Rat{{0, 1, 0}, {1, 2, 0.5}, {1, 4, 0.25}, {1, 1, 1}, {1, 10, 0.1}, {1, 3, 1.0 / 3}, {9, 10, 0.9}, {1, 64, 1.0 / 64}, {3, 4, 0.75}}
		s.Cfg.EF = efs[rng.Intn(len(efs))]
		s.Cfg.DEA = []time.Duration{0, time.Millisecond, 30 * time.Minute}[rng.Intn(3)]
	}
	if profile == "c11" || profile == "c12" {
		// soft memory limits far above anything this process can use: they must never make a cycle evict (one set, the other unset too)
		switch rng.Intn(6) {
		case 0:
			s.Cfg.HeapLimit = 1 << 60
		case 1:
			s.Cfg.SysLimit = 1 << 60
		case 2:
			s.Cfg.HeapLimit, s.Cfg.SysLimit = 1<<60, 1<<61
		}
		if profile == "c12" && rng.Intn(4) == 0 {
			// a memory limit that IS exceeded (one byte): every cycle must evict, combined with the count limit where one is set
			if rng.Intn(2) == 0 {
				s.Cfg.HeapLimit = 1
			} else {
				s.Cfg.SysLimit = 1
			}
		}
		if profile == "c11" && (s.Cfg.HeapLimit != 0 || s.Cfg.SysLimit != 0) {
			s.Cfg.EF = Rat{1, 2, 0.5} // a wrongly detected breach must be visible even with a handful of entries
		}
	}
	if profile == "c11" && idx < 9 && !s.Cfg.RealJanitor {
		// directed regression scripts: an Unlimited cache whose entries get an expiry only through ExpireAll, then a cycle
		// after DeleteExpiredAfter has passed (the scan must not be skipped); and never-expiring entries meeting a scanning cycle
		s.Cfg.TTL = cache.UnlimitedTTL
		s.Cfg.DEA = time.Millisecond
		s.Cfg.Jitter = Rat{-1, 1, -1}
		s.Ops = []SOp{{Kind: "w", K: 1, V: 1}, {Kind: "w", K: 2, V: 2}, {Kind: "cleanup"}}
		switch idx / 3 {
		case 0:
			s.Ops = append(s.Ops, SOp{Kind: "xa"}, SOp{Kind: "sleep"}, SOp{Kind: "cleanup"}, SOp{Kind: "r", K: 1})
		case 1:
			s.Ops = append(s.Ops, SOp{Kind: "w", K: 3, V: 3, TTL: -hour}, SOp{Kind: "cleanup"}, SOp{Kind: "r", K: 1}, SOp{Kind: "r", K: 3})
		default:
			// an entry that is only recently expired when a first (scanning) cycle meets it, long expired at the second: what one
			// cycle learns about the cache must not switch the scan off for the next
			s.Cfg.DEA = 20 * time.Millisecond
			s.Ops = append(s.Ops, SOp{Kind: "w", K: 3, V: 3, TTL: -1}, SOp{Kind: "cleanup"}, SOp{Kind: "sleep"}, SOp{Kind: "cleanup"}, SOp{Kind: "r", K: 3}, SOp{Kind: "r", K: 1})
		}
		return s
	}
	if s.Cfg.RealJanitor {
		if rng.Intn(2) == 0 {
			// an Unlimited cache that receives per-call TTLs: the janitor must notice that expirations were set
			s.Cfg.TTL = cache.UnlimitedTTL
		}
		s.Cfg.JobInterval = time.Millisecond
		s.Cfg.Jitter = Rat{-1, 1, -1}
		s.Cfg.DEA = []time.Duration{time.Millisecond, 30 * time.Minute, 3 * time.Millisecond}[rng.Intn(3)]
		s.Cfg.CSL = 0
		n := 3 + rng.Intn(10)
		for i := 0; i < n; i++ {
			op := SOp{Kind: "w", K: rng.Intn(len(s.Alphabet)), V: i + 1}
			op.TTL = []int64{0, 0, -hour, hour, -10 * int64(time.Second), -2 * hour}[rng.Intn(6)]
			s.Ops = append(s.Ops, op)
			if rng.Intn(8) == 0 && s.Cfg.DEA < time.Second {
				s.Ops = append(s.Ops, SOp{Kind: "xa"})
			}
		}
		s.Ops = append(s.Ops, SOp{Kind: "cleanup"})
		return s
	}
	total := 0
	names := make([]string, 0, len(weights))
	for k := range weights {
		names = append(names, k)
	}
	sort.Strings(names)
	for _, k := range names {
		total += weights[k]
	}
	nKeys := len(s.Alphabet)
	if profile == "c12" {
		// many keys so that limits are exceeded by far
		for i := 0; i < 24; i++ {
			s.Alphabet = append(s.Alphabet, []byte(fmt.Sprintf("bulk-%d", i)))
		}
		nKeys = len(s.Alphabet)
	}
	v := 0
	for i := 0; i < nOps; i++ {
		x := rng.Intn(total)
		kind := ""
		for _, k := range names {
			if x < weights[k] {
				kind = k
				break
			}
			x -= weights[k]
		}
		op := SOp{Kind: kind, K: rng.Intn(nKeys)}
		switch kind {
		case "w", "store":
			v++
			op.V = v
			if rng.Intn(12) == 0 {
				op.V = 0 // nil / zero value
			}
			if kind == "w" {
				op.TTL = genTTL(rng)
				if rng.Intn(5) == 0 {
					// ttl communicated in two steps (as a value builder does): "minimal non-zero value is kept"
					op.HasBase, op.Base, op.Refine = true, genTTL(rng), genTTL(rng)
					op.TTL = op.Base
					if op.Refine != 0 && (op.TTL == 0 || op.Refine < op.TTL) {
						op.TTL = op.Refine
					}
				}
			}
		case "wshort":
			v++
			op.V = v
			op.TTL = 1000 + rng.Int63n(200000)
		case "r":
			op.Skip = rng.Intn(10) == 0
		case "cleanup":
			op.Needed = profile == "c12" && rng.Intn(3) == 0
		}
		s.Ops = append(s.Ops, op)
	}
	return s
}

type seqFail struct {
	kind, prop, sig, detail string
	at                      int
	also                    []string
}

type seqExec struct {
	d             *Driver
	res           *Result
	traces        []string
	ambigInScript bool
}

func now() int64 { return time.Now().UnixNano() }

func showRead(b Backend, v int, err error) string {
	if err == nil {
		return "hit " + showTok(v)
	}
	if ev, at, ok := b.Expired(err); ok {
		if !errors.Is(err, cache.ErrExpired) {
			return "exp-not-ErrExpired"
		}
		return fmt.Sprintf("exp %s %d", showTok(ev), at)
	}
	if errors.Is(err, cache.ErrNotFound) {
		return "miss"
	}
	return "error " + err.Error()
}

func showTok(v int) string {
	if v == 0 {
		return "nil"
	}
	return fmt.Sprint(v)
}

func dumpImpl(b Backend, keys *KeyTable) (string, map[int]EntryObs) {
	w := b.Walk()
	m := map[int]EntryObs{}
	ids := []int{}
	dup := false
	for _, e := range w {
		id := keys.ID([]byte(e.Key))
		if _, ok := m[id]; ok {
			dup = true
		}
		m[id] = e
		ids = append(ids, id)
	}
	sort.Ints(ids)
	parts := []string{}
	for _, id := range ids {
		e := m[id]
		parts = append(parts, fmt.Sprintf("%d:%s:%d:%d", id, showTok(e.V), e.E, e.C))
	}
	if dup {
		parts = append(parts, "DUPLICATE-KEY-IN-WALK")
	}
	if len(parts) == 0 {
		return "-", m
	}
	return strings.Join(parts, " "), m
}

// runScript executes one script on a fresh real backend and a fresh model instance.
func (x *seqExec) runScript(id string, sc SScript, profile string) *seqFail {
	keys := NewKeyTable()
	stats := NewStats()
	cfg := sc.Cfg
	cfg.Stats = stats
	neededAns := false
	neededCalls := 0
	cfg.Needed = func() bool { neededCalls++; return neededAns }
	if cfg.RealJanitor {
		// the real janitor goroutine runs cycles on its own; `needed` stays false
		cfg.Needed = func() bool { neededCalls++; return false }
	}
	b := NewBackend(cfg, keys)
	x.d.Ask(cfg.DriverNew(id))
	ctx := context.Background()
	specOn := !sc.Collide
	seen := map[string]bool{}
	expirySeen := false // an entry with an expiry has been in this cache (the scan of an Unlimited cache may not be skipped)

	x.ambigInScript = false
	if cfg.RealJanitor {
		return x.runJanitorScript(id, sc, b, keys)
	}
	check := func(i int, what, impl, reply string) *seqFail {
		if reply == "ambig" {
			x.res.Ambiguous++
			x.ambigInScript = true
			return nil
		}
		parts := strings.SplitN(reply, " | ", 2)
		if specOn && len(parts) == 2 && parts[1] != impl {
			return &seqFail{"monitor", "C07", "seq:" + what, fmt.Sprintf("op #%d %s: impl=%q reference-map=%q", i, sc.Ops[i], impl, parts[1]), i, []string{"C10", "C18"}}
		}
		if parts[0] != impl {
			if sc.Collide {
				// with colliding keys the proved model IS the specification (C09_* hold for every hash function)
				return &seqFail{"monitor", "C09", "seq:" + what, fmt.Sprintf("op #%d %s on a key set with xxhash64 collisions: impl=%q, keyed-store semantics require %q", i, sc.Ops[i], impl, parts[0]), i, nil}
			}
			return &seqFail{"correspondence", "", "seq:" + what, fmt.Sprintf("op #%d %s: impl=%q model=%q", i, sc.Ops[i], impl, parts[0]), i, nil}
		}
		return nil
	}
	checkState := func(i int) *seqFail {
		implDump, _ := dumpImpl(b, keys)
		modelDump := x.d.Ask("be dump " + id)
		if implDump != modelDump {
			kind, prop, sig := classifyStateDiff(implDump, modelDump, sc.Collide)
			return &seqFail{kind, prop, sig, fmt.Sprintf("after op #%d %s: impl state %q model state %q", i, sc.Ops[i], implDump, modelDump), i, nil}
		}
		if l := b.Len(); fmt.Sprintf("%d | %d", l, l) != x.d.Ask("be len "+id) && specOn {
			return &seqFail{"monitor", "C07", "seq:len", fmt.Sprintf("after op #%d: Len=%d, model/reference say %s", i, l, x.d.Ask("be len "+id)), i, nil}
		}
		return nil
	}

	for i, op := range sc.Ops {
		key := sc.Alphabet[op.K]
		kid := keys.ID(key)
		slot := b.Slot(key)
		x.res.count("op:" + op.Kind)
		switch op.Kind {
		case "w", "store", "wshort":
			c := ctx
			if op.HasBase {
				c = cache.WithTTL(cache.WithTTL(ctx, time.Duration(op.Base), false), time.Duration(op.Refine), true)
				x.res.count("ttl:two-step")
				if got := int64(cache.TTL(c)); got != op.TTL {
					return &seqFail{"monitor", "C07", "seq:ctx-ttl", fmt.Sprintf("op #%d %s: the context carries ttl %d; the documented rule (minimal non-zero value is kept) gives %d", i, op, got, op.TTL), i, []string{"C10", "C06"}}
				}
			} else if op.TTL != 0 {
				c = cache.WithTTL(ctx, time.Duration(op.TTL), false)
			}
			if op.TTL != 0 {
				switch {
				case op.TTL > 0 && op.TTL < int64(time.Second):
					x.res.count("ttl:tiny")
				case op.TTL > 0:
					x.res.count("ttl:positive")
				default:
					x.res.count("ttl:negative")
				}
			} else {
				x.res.count("ttl:default")
			}
			buf := append([]byte(nil), key...)
			t0 := now()
			if op.Kind == "store" {
				b.Store(buf, op.V)
			} else if err := b.Write(c, buf, op.V); err != nil {
				return &seqFail{"monitor", "C07", "seq:write-error", fmt.Sprintf("op #%d Write failed: %v", i, err), i, nil}
			}
			t1 := now()
			for j := range buf { // caller reuses its buffer (C09)
				buf[j] ^= 0x5a
			}
			_, m := dumpImpl(b, keys)
			e, ok := m[kid]
			if !ok {
				// the written key is not among the keys Walk reports: lost to a colliding key (C09), or the stored key
				// aliases the caller's buffer, which was just rewritten (C09), or the map semantics is broken (C07)
				if sc.Collide {
					return &seqFail{"monitor", "C09", "seq:write-lost", fmt.Sprintf("op #%d %s: entry not in Walk after Write (key set with xxhash64 collisions; the caller rewrote its key buffer after the call)", i, op), i, []string{"C07"}}
				}
				return &seqFail{"monitor", "C07", "seq:write-lost", fmt.Sprintf("op #%d %s: entry not in Walk after Write (the caller rewrote its key buffer after the call)", i, op), i, []string{"C09"}}
			}
			r := x.d.Ask(fmt.Sprintf("be w %s %d %d %s %d %d %d %d", id, kid, slot, showTok(op.V), op.TTL, t0, t1, e.E))
			if r != "ok" {
				return &seqFail{"monitor", "C10", "seq:expiry-bounds", fmt.Sprintf("op #%d %s: stored expiry outside documented bounds: %s", i, op, r), i, []string{"C07"}}
			}
			if op.Kind == "wshort" {
				for now() <= e.E+2000 {
				}
			}
		case "r", "load":
			c := ctx
			if op.Skip {
				c = cache.WithSkipRead(ctx)
			}
			var impl string
			t0 := now()
			if op.Kind == "load" {
				v, ok := b.Load(key)
				t1 := now()
				_, m := dumpImpl(b, keys)
				cobs := "-"
				if e, ok := m[kid]; ok {
					cobs = fmt.Sprint(e.C)
				}
				r := x.d.Ask(fmt.Sprintf("be r %s %d %d 0 %d %d %s", id, kid, slot, t0, t1, cobs))
				// Load = Read under the background context, found iff no error
				conv := func(s string) string {
					if strings.HasPrefix(s, "hit ") {
						return s
					}
					return "notloaded"
				}
				if ok {
					impl = "hit " + showTok(v)
				} else {
					impl = "notloaded"
					if v != 0 {
						impl = "notloaded-with-value"
					}
				}
				if r != "ambig" {
					ps := strings.SplitN(r, " | ", 2)
					r = conv(ps[0]) + " | " + conv(ps[1])
				}
				if f := check(i, "load", impl, r); f != nil {
					return f
				}
				seen[strings.Fields(impl)[0]] = true
				break
			}
			v, err := b.Read(c, key)
			t1 := now()
			impl = showRead(b, v, err)
			_, m := dumpImpl(b, keys)
			cobs := "-"
			if e, ok := m[kid]; ok {
				cobs = fmt.Sprint(e.C)
			}
			sk := 0
			if op.Skip {
				sk = 1
			}
			r := x.d.Ask(fmt.Sprintf("be r %s %d %d %d %d %d %s", id, kid, slot, sk, t0, t1, cobs))
			if f := check(i, "read", impl, r); f != nil {
				return f
			}
			seen[strings.Fields(impl)[0]] = true
			x.res.count("read:" + strings.Fields(impl)[0])
		case "d":
			err := b.Delete(ctx, key)
			impl := "ok"
			if err != nil {
				if errors.Is(err, cache.ErrNotFound) {
					impl = "notfound"
				} else {
					impl = "error " + err.Error()
				}
			}
			x.res.count("delete:" + impl)
			r := x.d.Ask(fmt.Sprintf("be d %s %d %d", id, kid, slot))
			if f := check(i, "delete", impl, r); f != nil {
				return f
			}
		case "xa":
			t0 := now()
			b.ExpireAll(ctx)
			t1 := now()
			eobs := "-"
			w := b.Walk()
			if len(w) > 0 {
				eobs = fmt.Sprint(w[0].E)
			}
			r := x.d.Ask(fmt.Sprintf("be xa %s %d %d %s", id, t0, t1, eobs))
			if r != "ok" {
				return &seqFail{"monitor", "C07", "seq:expireall", fmt.Sprintf("op #%d ExpireAll: %s", i, r), i, nil}
			}
			for now() <= t1+2000 { // make later reads unambiguous
			}
		case "sleep":
			if d := 2*cfg.DEA + 3*time.Millisecond; cfg.DEA > 0 && d < time.Second {
				time.Sleep(d) // (long enough for what just expired to become long expired)
			} else {
				time.Sleep(5 * time.Millisecond)
			}
		case "da":
			b.DeleteAll(ctx)
			x.d.Ask("be da " + id)
		case "len":
			// compared in checkState
		case "walkerr":
			// a Walk whose callback gives up at the K-th entry: Walk stops there and reports the callback's error and the number
			// of entries processed; afterwards the cache works as before (in particular no shard stays locked)
			_, mb := dumpImpl(b, keys)
			n, err, fk := b.WalkErr(op.K)
			wantN, wantErr := len(mb), false
			if op.K < len(mb) {
				wantN, wantErr = op.K, true
			}
			if n != wantN || (err != nil) != wantErr || (err != nil && !errors.Is(err, errWalkStop)) {
				return &seqFail{"monitor", "C07", "seq:walk-error", fmt.Sprintf("op #%d %s over %d entries: Walk returned (%d, %v), expected (%d, error: %v)", i, op, len(mb), n, err, wantN, wantErr), i, nil}
			}
			x.res.count(fmt.Sprintf("walkerr:failed=%v", wantErr))
			if fk != "" && b.Kind() != "sync" {
				// probe: Delete of an absent key living in the shard of the entry at which the callback failed
				shard := xxhash.Sum64([]byte(fk)) % 128
				var probe []byte
				for j := 0; ; j++ {
					probe = []byte(fmt.Sprintf("walk-probe-%d", j))
					if xxhash.Sum64(probe)%128 == shard {
						break
					}
				}
				done := make(chan error, 1)
				go func() { done <- b.Delete(ctx, probe) }()
				select {
				case <-done:
				case <-time.After(3 * time.Second):
					return &seqFail{"monitor", "C07", "seq:walk-error-left-lock", fmt.Sprintf("op #%d %s: after the Walk returned the callback's error, a Delete in the shard of the entry it failed at does not return (3s): the shard is still locked", i, op), i, []string{"C08"}}
				}
			}
		case "cleanup":
			before, _ := dumpImpl(b, keys)
			_, mb := dumpImpl(b, keys)
			for _, e := range mb {
				if e.E != 0 {
					expirySeen = true
				}
			}
			neededAns = op.Needed
			evBefore := stats.Get(cache.MetricEvict, cfg.Name)
			nc := neededCalls
			t0 := now()
			b.Cleanup()
			t1 := now()
			_, ma := dumpImpl(b, keys)
			removed := []string{}
			for kid2 := range mb {
				if _, ok := ma[kid2]; !ok {
					removed = append(removed, fmt.Sprint(b.Slot(keys.Key(kid2))))
				}
			}
			sort.Strings(removed)
			rm := "-"
			if len(removed) > 0 {
				rm = strings.Join(removed, ",")
			}
			needed := 0
			if op.Needed {
				needed = 1
			}
			_ = nc
			evicted := stats.Get(cache.MetricEvict, cfg.Name) - evBefore
			// C11 oracle, independent of the model: without any limit configured a cycle removes exactly the entries whose
			// expiry lies more than DeleteExpiredAfter in the past (never-expiring, fresh and recently expired ones stay)
			if cfg.CSL == 0 && !op.Needed {
				dea := int64(cfg.DEA)
				if dea == 0 {
					dea = int64(24 * time.Hour)
				}
				scanOn := cfg.TTL != cache.UnlimitedTTL || expirySeen
				for kid2, e := range mb {
					_, kept := ma[kid2]
					longExpired0 := e.E != 0 && e.E < t0-dea
					longExpired1 := e.E != 0 && e.E < t1-dea
					if !kept && !longExpired1 {
						also := []string{"C10"} // (an entry within its ttl bounds, or one that never expires, is gone: C10)
						if e.E == 0 || e.E > t1 {
							also = append(also, "C07") // (not even expired: no reference map loses a written key that nobody deleted)
						}
						return &seqFail{"monitor", "C11", "seq:cleanup-removed-live", fmt.Sprintf("op #%d cleanup removed key #%d whose expiry %d is not more than DeleteExpiredAfter (%dns) before the cycle [%d,%d] (0 = never expires); state before: %s", i, kid2, e.E, dea, t0, t1, before), i, also}
					}
					if kept && scanOn && longExpired0 {
						return &seqFail{"monitor", "C11", "seq:cleanup-kept-long-expired", fmt.Sprintf("op #%d cleanup kept key #%d although its expiry %d lies more than DeleteExpiredAfter (%dns) before the cycle [%d,%d]; state before: %s", i, kid2, e.E, dea, t0, t1, before), i, nil}
					}
				}
			}
			ho, so := 0, 0
			if cfg.HeapLimit == 1 {
				ho = 1
			}
			if cfg.SysLimit == 1 {
				so = 1
			}
			r := x.d.Ask(fmt.Sprintf("be cleanup %s %d %d ho=%d so=%d hn=1 needed=%d removed=%s evicted=%d", id, t0, t1, ho, so, needed, rm, evicted))
			x.res.count("cleanup:" + strings.Fields(r)[0])
			if r == "ambig" {
				x.res.Ambiguous++
				x.ambigInScript = true
			}
			if strings.HasPrefix(r, "bad-scan") {
				return &seqFail{"monitor", "C11", "seq:cleanup-scan", fmt.Sprintf("op #%d cleanup: %s (state before: %s)", i, r, before), i, nil}
			}
			if strings.HasPrefix(r, "bad-evict") {
				// entries removed although neither the scan nor a limit breach accounts for them
				return &seqFail{"monitor", "C11", "seq:cleanup-" + strings.Fields(r)[0], fmt.Sprintf("op #%d cleanup: %s (state before: %s)", i, r, before), i, []string{"C12"}}
			}
			if strings.HasPrefix(r, "bad-") {
				return &seqFail{"monitor", "C12", "seq:cleanup-" + strings.Fields(r)[0], fmt.Sprintf("op #%d cleanup: %s (state before: %s)", i, r, before), i, nil}
			}
			if strings.Contains(r, "evicted=") && !strings.Contains(r, "evicted=none") {
				x.res.count("cleanup:evicting")
				seen["evict"] = true
			}
			if strings.Contains(r, "scanned=") && !strings.Contains(r, "scanned=0") {
				x.res.count("cleanup:scan-deleted")
				seen["scan"] = true
			}
		}
		if f := checkState(i); f != nil {
			return f
		}
	}
	// metrics (C18): totals per cache name against the model's totals
	implStats := fmt.Sprintf("hit=%d miss=%d expired=%d write=%d delete=%d evict=%d",
		stats.Get(cache.MetricHit, cfg.Name), stats.Get(cache.MetricMiss, cfg.Name), stats.Get(cache.MetricExpired, cfg.Name),
		stats.Get(cache.MetricWrite, cfg.Name), stats.Get(cache.MetricDelete, cfg.Name), stats.Get(cache.MetricEvict, cfg.Name))
	if modelStats := x.d.Ask("be stats " + id); implStats != modelStats && !x.ambigInScript {
		return &seqFail{"monitor", "C18", "seq:metrics", fmt.Sprintf("metric totals: impl %s model %s", implStats, modelStats), len(sc.Ops) - 1, nil}
	}
	nontrivial := seen["hit"] && seen["miss"] && seen["exp"]
	switch profile {
	case "c11":
		nontrivial = seen["scan"]
	case "c12":
		nontrivial = seen["evict"]
	}
	if nontrivial {
		h := fnv.New64a()
		h.Write([]byte(sc.opsString() + cfg.DriverNew("")))
		x.traces = append(x.traces, fmt.Sprint(h.Sum64()))
	}
	return nil
}

// runJanitorScript: writes (and ExpireAll) on a cache whose REAL janitor goroutine runs every millisecond, then
// waits for the contents to settle and checks that exactly the long-expired entries are gone.
func (x *seqExec) runJanitorScript(id string, sc SScript, b Backend, keys *KeyTable) *seqFail {
	ctx := context.Background()
	cfg := sc.Cfg
	for i, op := range sc.Ops {
		key := sc.Alphabet[op.K]
		kid := keys.ID(key)
		slot := b.Slot(key)
		x.res.count("op:" + op.Kind + "(real-janitor)")
		switch op.Kind {
		case "w":
			c := ctx
			if op.TTL != 0 {
				c = cache.WithTTL(ctx, time.Duration(op.TTL), false)
			}
			t0 := now()
			if err := b.Write(c, key, op.V); err != nil {
				return &seqFail{"monitor", "C07", "seq:write-error", err.Error(), i, nil}
			}
			t1 := now()
			// jitter is disabled in this mode: E = now+T for a clock reading inside the bracket, or 0
			T := op.TTL
			if T == 0 && cfg.TTL != cache.UnlimitedTTL {
				T = int64(cfg.TTL)
				if T == 0 {
					T = int64(5 * time.Minute)
				}
			}
			E := int64(0)
			if T != 0 {
				E = t0 + T
			}
			if r := x.d.Ask(fmt.Sprintf("be w %s %d %d %s %d %d %d %d", id, kid, slot, showTok(op.V), op.TTL, t0, t1, E)); r != "ok" {
				return &seqFail{"correspondence", "", "seq:janitor-write", r, i, nil}
			}
		case "xa":
			t0 := now()
			b.ExpireAll(ctx)
			t1 := now()
			x.d.Ask(fmt.Sprintf("be xa %s %d %d %d", id, t0, t1, t0))
			time.Sleep(2*cfg.DEA + 2*time.Millisecond)
		case "cleanup":
			// expected survivors according to the model at the end of the settle window
			deadline := time.Now().Add(3 * time.Second)
			var f *seqFail
			for {
				time.Sleep(8 * time.Millisecond)
				t := now()
				_, m := dumpImpl(b, keys)
				// ask the model which slots a cycle at time t deletes (pure query through a scratch cleanup on a copy is
				// not available, so compute removed := model keys not in impl and let the driver judge)
				modelDump := x.d.Ask("be dump " + id)
				removed := []string{}
				for _, ent := range strings.Fields(modelDump) {
					if ent == "-" {
						continue
					}
					var kid2 int
					fmt.Sscanf(strings.SplitN(ent, ":", 2)[0], "%d", &kid2)
					if _, ok := m[kid2]; !ok {
						removed = append(removed, fmt.Sprint(b.Slot(keys.Key(kid2))))
					}
				}
				rm := "-"
				if len(removed) > 0 {
					rm = strings.Join(removed, ",")
				}
				r := x.d.Ask(fmt.Sprintf("be cleanupq %s %d %d removed=%s", id, t, t, rm))
				if strings.HasPrefix(r, "ok") {
					x.d.Ask(fmt.Sprintf("be cleanup %s %d %d ho=0 so=0 hn=1 needed=0 removed=%s evicted=0", id, t, t, rm))
					if strings.Contains(r, "scanned=") && !strings.Contains(r, "scanned=0") {
						x.res.count("cleanup:scan-deleted(real-janitor)")
						h := fnv.New64a()
						h.Write([]byte(sc.opsString() + cfg.DriverNew("")))
						x.traces = append(x.traces, fmt.Sprint(h.Sum64()))
					}
					f = nil
					break
				}
				f = &seqFail{"monitor", "C11", "seq:real-janitor", fmt.Sprintf("real janitor (1ms interval) did not reach the state a cleanup cycle must produce within 3s: %s; model state %s", r, modelDump), i, nil}
				if time.Now().After(deadline) {
					break
				}
			}
			if f != nil {
				return f
			}
		}
	}
	return nil
}

func runSeq(o Opts) *Result {
	res := &Result{Rule: "scripts generated from (seed,index): random ops over a 8-34 key alphabet (empty, 4KiB, binary, 64-byte keys), " +
		"random config (ttl default/unlimited/finite, jitter off/0.1/0.5/1/2^-10, 3 strategies, 3 backends); " +
		"a script is non-trivial if it observed a hit, a miss and an expired read (c11: a scan that deleted; c12: a cycle that evicted); distinct by hash of (config, op list)"}
	d, err := StartDriver(o.Driver)
	if err != nil {
		infra("%v", err)
	}
	defer d.Close()
	x := &seqExec{d: d, res: res}
	for idx := 0; idx < o.N; idx++ {
		if timeUp() {
			break
		}
		if o.Only >= 0 && idx != o.Only {
			continue
		}
		sc := genScript(o.Profile, o.Seed, idx, o.Tier)
		res.Evaluations++
		res.count("backend:" + sc.Cfg.Kind)
		res.count(fmt.Sprintf("strategy:%d", sc.Cfg.Strategy))
		res.countN("ops", len(sc.Ops))
		f := x.runScript(fmt.Sprintf("s%d", idx), sc, o.Profile)
		res.TracesValidated++
		if len(res.Samples) < 3 {
			res.Samples = append(res.Samples, sc.describe())
		}
		if f == nil {
			continue
		}
		// shrink: drop ops one at a time while the same failure signature persists
		min := sc
		n := 0
		for i := len(min.Ops) - 1; i >= 0 && !min.Cfg.RealJanitor; i-- {
			cand := min
			cand.Ops = append(append([]SOp(nil), min.Ops[:i]...), min.Ops[i+1:]...)
			n++
			if g := x.runScript(fmt.Sprintf("s%dm%d", idx, n), cand, o.Profile); g != nil && g.sig == f.sig && g.kind == f.kind {
				min = cand
				f = g
			}
		}
		rep := min.describe()
		rep["engine"] = "seq"
		rep["profile"] = o.Profile
		rep["seed"] = o.Seed
		rep["index"] = idx
		rep["original_ops"] = sc.opsString()
		rep["driver_log_tail"] = tail(d.Log, 30)
		rep["rerun"] = fmt.Sprintf("harness seq -profile %s -seed %d -only %d", o.Profile, o.Seed, idx)
		res.Violations = append(res.Violations, Violation{Property: f.prop, Also: f.also, Kind: f.kind, Sig: f.sig + ":" + sc.Cfg.Kind, Detail: f.detail, Replay: rep})
		if res.full() {
			break
		}
	}
	uniq := map[string]bool{}
	for _, t := range x.traces {
		uniq[t] = true
	}
	res.DistinctNontrivial = len(uniq)
	return res
}

func tail(l []string, n int) []string {
	if len(l) > n {
		return l[len(l)-n:]
	}
	return l
}

// classifyStateDiff attributes a full-state difference: only usage metrics differ -> C12 (the metric must track the
// access history), only expiries differ -> C10, foreign key/value under collisions -> C09, otherwise a plain disagreement.
func classifyStateDiff(impl, model string, collide bool) (kind, prop, sig string) {
	pi, pm := strings.Fields(impl), strings.Fields(model)
	if len(pi) == len(pm) {
		onlyC, onlyE := true, true
		for j := range pi {
			a, b := strings.Split(pi[j], ":"), strings.Split(pm[j], ":")
			if len(a) != 4 || len(b) != 4 || a[0] != b[0] || a[1] != b[1] {
				onlyC, onlyE = false, false
				break
			}
			if a[2] != b[2] {
				onlyC = false
			}
			if a[3] != b[3] {
				onlyE = false
			}
		}
		if onlyC && !onlyE {
			return "monitor", "C12", "seq:usage-metric"
		}
		if onlyE && !onlyC {
			return "monitor", "C10", "seq:expiry-state"
		}
	}
	if collide {
		return "monitor", "C09", "seq:state"
	}
	return "correspondence", "", "seq:state"
}
