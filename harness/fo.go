package main

import (
	"context"
	"fmt"
	"hash/fnv"
	"math"
	"math/rand"
	"runtime"
	"sort"
	"strings"
	"time"

	"github.com/bool64/cache"
)

// E2/E3: Failover.Get / FailoverOf.Get under the deterministic scheduler, mirrored step by step on the Lean machine.

func init() { engines["fo"] = runFo }

type foCfg struct {
	Variant     string // F | Of
	Backend     string
	SU, SR, FH  bool
	MS, FUT, UT time.Duration
}

func (c foCfg) String() string {
	return fmt.Sprintf("%s/%s su=%v sr=%v fh=%v ms=%s fut=%s ut=%s", c.Variant, c.Backend, c.SU, c.SR, c.FH, c.MS, c.FUT, c.UT)
}

type foKey struct {
	State     string // absent | fresh | stale | toostale
	Val       int
	CachedErr int
}

type foThread struct {
	Key         int // 1-based
	Skip        bool
	Cell        int64 // caller ttl (0 = none); HasCell tells whether a cell exists
	HasCell     bool
	CancelFirst bool // caller context already cancelled when Get is called
	RewriteKey  int  // after return overwrite the key buffer with this key's bytes (0 = garbage)
}

type foBuild struct {
	OK     bool
	TTLs   []int64
	CtxErr bool    // the error is a context cancellation
	Iso    []int64 // ttl updates made on a context derived with WithTTL(ctx, sameTTL, false): must stay local to it
}

type foScenario struct {
	Cfg       foCfg
	Keys      []foKey
	Threads   []foThread
	Builds    []foBuild    // outcome of the i-th builder invocation (global order); beyond the list: ok
	FaultAt   map[int]bool // backend call-outs (global index) that fail
	SchedSeed int64
	Label     string
	// systematic exploration (profile dfs): scheduling decisions are replayed from Choices, then always the first enabled
	// goroutine is taken; Taken records (choice, number of alternatives) per decision for the backtracking driver
	Collide               bool // keys 1 and 2 are an xxhash64 collision (the frontend must keep them apart: C09)
	HoldBuildsOf          int  // random schedules: builders running for this key (1-based) are resumed last
	WrapErrs              bool // the backend in front of the real one wraps its Read errors with %w (a decorating backend)
	LateReads, LateWrites bool // backend answers are held back: effect and answer are separate scheduling points
	DFS                   bool
	Choices               []int
	Taken                 *[][2]int
}

func (sc foScenario) describe() map[string]interface{} {
	ks := []string{}
	for i, k := range sc.Keys {
		s := fmt.Sprintf("k%d:%s", i+1, k.State)
		if k.CachedErr != 0 {
			s += "+cached-failure"
		}
		ks = append(ks, s)
	}
	ts := []string{}
	for i, t := range sc.Threads {
		s := fmt.Sprintf("g%d:Get(k%d", i, t.Key)
		if t.Skip {
			s += ",skipread"
		}
		if t.HasCell {
			s += fmt.Sprintf(",ttl=%d", t.Cell)
		}
		if t.CancelFirst {
			s += ",cancelled"
		}
		ts = append(ts, s+")")
	}
	bs := []string{}
	for _, b := range sc.Builds {
		s := "ok"
		if !b.OK {
			s = "err"
			if b.CtxErr {
				s = "err(context.Canceled)"
			}
		}
		if len(b.TTLs) > 0 {
			s += fmt.Sprint(b.TTLs)
		}
		if len(b.Iso) > 0 {
			s += "iso" + fmt.Sprint(b.Iso)
		}
		bs = append(bs, s)
	}
	fs := []int{}
	for i := range sc.FaultAt {
		fs = append(fs, i)
	}
	sort.Ints(fs)
	return map[string]interface{}{"config": sc.Cfg.String(), "keys": strings.Join(ks, " "), "gets": strings.Join(ts, " "),
		"builder_script": strings.Join(bs, ","), "backend_faults_at_callout": fs, "schedule_seed": sc.SchedSeed, "label": sc.Label, "dfs_choices": sc.Choices, "colliding_keys_1_2": sc.Collide, "builders_of_key_resumed_last": sc.HoldBuildsOf, "backend_wraps_read_errors": sc.WrapErrs, "late_read_answers": sc.LateReads, "late_write_answers": sc.LateWrites}
}

// foCollide: keys 1 and 2 of the running scenario are a constructed xxhash64 collision (64-byte keys); set per scenario
// (the engine runs one scenario at a time).
var foCollide [][]byte

func foKeyBytes(k int) []byte {
	if foCollide != nil && k >= 1 && k <= len(foCollide) {
		return append([]byte(nil), foCollide[k-1]...)
	}
	return []byte(fmt.Sprintf("fo-key-%d", k))
}

func foKid(key []byte) int {
	for i, c := range foCollide {
		if string(c) == string(key) {
			return i + 1
		}
	}
	var k int
	fmt.Sscanf(string(key), "fo-key-%d", &k)
	return k
}

type foViolation struct {
	prop, kind, sig, detail string
	also                    []string
}

// runFoScenario executes one scenario; returns the trace (for distinctness), flags and a violation if any.
var lastLoneResult *getResult
var lastCorr *foViolation // the model/implementation disagreement of the last scenario, if any

func runFoScenario(d *Driver, id string, sc foScenario, res *Result) (trace []string, viol *foViolation) {
	foCollide = nil
	if sc.Collide {
		crng := rand.New(rand.NewSource(sc.SchedSeed + 17))
		k1 := make([]byte, 64)
		crng.Read(k1)
		copy(k1, "fo-collide-")
		foCollide = [][]byte{k1, CollidingTwin(k1, crng)}
	}
	defer func() { foCollide = nil }()
	lastLoneResult = nil
	lastCorr = nil
	ctx := context.Background()
	s := newSched()
	keys := NewKeyTable()
	stats := NewStats()
	inner := NewBackend(BCfg{Kind: sc.Cfg.Backend, TTL: time.Hour, Jitter: Rat{-1, 1, -1}, Name: "fo-backend"}, keys)
	frw := &faultyRW{s: s, inner: inner, wrapErrs: sc.WrapErrs}
	var fe frontend
	name := "fo"
	if sc.Cfg.Variant == "F" {
		fe = feAny{cache.NewFailover(func(c *cache.FailoverConfig) {
			c.Name, c.Backend, c.Stats = name, rwAny{frw}, stats
			c.SyncUpdate, c.SyncRead, c.FailHard = sc.Cfg.SU, sc.Cfg.SR, sc.Cfg.FH
			c.MaxStaleness, c.FailedUpdateTTL, c.UpdateTTL = sc.Cfg.MS, sc.Cfg.FUT, sc.Cfg.UT
		})}
	} else {
		fe = feOf{cache.NewFailoverOf[int](func(c *cache.FailoverConfigOf[int]) {
			c.Name, c.Backend, c.Stats = name, rwInt{frw}, stats
			c.SyncUpdate, c.SyncRead, c.FailHard = sc.Cfg.SU, sc.Cfg.SR, sc.Cfg.FH
			c.MaxStaleness, c.FailedUpdateTTL, c.UpdateTTL = sc.Cfg.MS, sc.Cfg.FUT, sc.Cfg.UT
		})}
	}
	b2i := func(b bool) int {
		if b {
			return 1
		}
		return 0
	}
	d.Ask(fmt.Sprintf("fo new %s variant=%s su=%d sr=%d fh=%d ms=%d fut=%d ut=%d", id, sc.Cfg.Variant, b2i(sc.Cfg.SU), b2i(sc.Cfg.SR), b2i(sc.Cfg.FH),
		int64(sc.Cfg.MS), int64(sc.Cfg.FUT), int64(sc.Cfg.UT)))

	// provenance bookkeeping of the monitors
	okVals := map[int]map[int]bool{}
	errToks := map[int]map[int]bool{}
	markOK := func(k, v int) { // k may be a key the scenario never named (a foreign key leaked in)
		if okVals[k] == nil {
			okVals[k] = map[int]bool{}
		}
		okVals[k][v] = true
	}
	markErr := func(k, e int) {
		if errToks[k] == nil {
			errToks[k] = map[int]bool{}
		}
		errToks[k][e] = true
	}
	for k := range sc.Keys {
		okVals[k+1] = map[int]bool{}
		errToks[k+1] = map[int]bool{}
	}
	for i, k := range sc.Keys {
		kb := foKeyBytes(i + 1)
		switch k.State {
		case "fresh":
			_ = inner.Write(ctx, kb, k.Val)
		case "stale":
			_ = inner.Write(cache.WithTTL(ctx, -time.Second, false), kb, k.Val)
		case "toostale":
			_ = inner.Write(cache.WithTTL(ctx, -2*time.Hour, false), kb, k.Val)
		}
		if k.State != "absent" {
			okVals[i+1][k.Val] = true
		}
		if k.CachedErr != 0 && sc.Cfg.FUT >= 0 {
			fe.SeedError(kb, k.CachedErr)
			for _, e := range fe.ErrorsWalk() {
				if e.Key == string(kb) {
					d.Ask(fmt.Sprintf("fo seederr %s %d %d %d", id, i+1, k.CachedErr, e.E))
				}
			}
			errToks[i+1][k.CachedErr] = true
		}
	}

	n := len(sc.Threads)
	started := make([]bool, n)
	rng := rand.New(rand.NewSource(sc.SchedSeed))
	calloutIdx := 0
	buildIdx := 0
	nextVal := 100
	nextErr := 500
	buildsStarted := map[int]int{} // per key
	okBuildDone := map[int]bool{}  // a build for the key succeeded (and was stored)
	failedAt := map[int]bool{}     // a build for the key failed with the failure cache on
	cancels := make([]func(), n)
	defer func() { // (release the deadline timers of the caller contexts)
		s.mu.Lock()
		cs := append([]func(){}, cancels...)
		s.mu.Unlock()
		for _, c := range cs {
			if c != nil {
				c()
			}
		}
	}()

	kidOf := foKid
	summary := func() string {
		s.mu.Lock()
		defer s.mu.Unlock()
		parts := []string{}
		for t := 0; t < n; t++ {
			if !started[t] {
				continue
			}
			pos := ""
			co := s.parked[t]
			r := s.results[t]
			switch {
			case co != nil && co.kind == "read":
				pos = fmt.Sprintf("read:%d:%d", kidOf(co.key), b2i(co.skip))
			case co != nil && co.kind == "write":
				pos = fmt.Sprintf("write:%d:%d:%d", kidOf(co.key), co.val, co.ttl)
			case co != nil && co.kind == "build":
				pos = fmt.Sprintf("build:%d:%d", kidOf(co.key), b2i(co.detached))
			case r != nil:
				pos = "done"
			default:
				pos = "waiting"
			}
			if r != nil {
				v := "nil"
				if r.val != 0 {
					v = fmt.Sprint(r.val)
				}
				e := "nil"
				if r.err != nil {
					e = fmt.Sprint(errTok(r.err))
				}
				pos += fmt.Sprintf(" ret=%s,%s", v, e)
			}
			parts = append(parts, fmt.Sprintf("%d=%s", t, pos))
		}
		return strings.Join(parts, " ")
	}
	// settle = quiesce + self-consistency of the observation: every started goroutine is parked at a call-out, has returned,
	// or is one of the waiters the stack dump shows blocked in waitForValue. (A goroutine seen in none of these states was
	// caught between two of them; the observation is repeated instead of being compared with the model.)
	settle := func() (int, string) {
		var waiters int
		var hang string
		for attempt := 0; attempt < 200; attempt++ {
			waiters, hang = s.quiesce(5 * time.Second)
			if hang != "" {
				return waiters, hang
			}
			s.mu.Lock()
			unaccounted := 0
			for t := 0; t < n; t++ {
				if started[t] && s.parked[t] == nil && s.results[t] == nil {
					unaccounted++
				}
			}
			s.mu.Unlock()
			if unaccounted <= waiters {
				return waiters, ""
			}
			time.Sleep(100 * time.Microsecond)
		}
		return waiters, ""
	}
	maxT := func() int {
		m := 0
		for t := 0; t < n; t++ {
			if started[t] {
				m = t + 1
			}
		}
		return m
	}
	normModel := func(m string) string {
		// the model lists threads 0..max; drop the ones not started yet
		parts := []string{}
		for _, p := range splitThreads(m) {
			var t int
			fmt.Sscanf(p, "%d=", &t)
			if t < n && started[t] {
				parts = append(parts, p)
			}
		}
		return strings.Join(parts, " ")
	}
	_ = maxT

	checkedResults := map[int]bool{}
	threadBuilt := map[int]bool{}  // the goroutine's own Get reached the builder (synchronously)
	threadWaited := map[int]bool{} // the goroutine was seen blocked in waitForValue
	seenBuild := map[*callout]bool{}
	seenCall := map[*callout]bool{}
	lastBuildTTLs := map[int][]int64{}
	storesBuild := map[int]bool{} // the goroutine's next write stores the result of its build
	freshBuilt := map[int]bool{}  // a build for the key succeeded and its result was stored with a long ttl
	failedBuilt := map[int]bool{} // a build for the key failed while the failure cache is on
	faulty := len(sc.FaultAt) > 0
	// a monitor violation that does not speak about the property under check (-for) is remembered and the scenario goes on under
	// the monitors, so that it cannot hide a later violation (or the model/implementation disagreement) that does
	var otherFirst *foViolation
	emit := func(v *foViolation) *foViolation {
		if v.kind != "monitor" || checkFor == "" || v.prop == checkFor {
			return v
		}
		for _, a := range v.also {
			if a == checkFor {
				return v
			}
		}
		if otherFirst == nil {
			otherFirst = v
		}
		return nil
	}
	monitors := func(step string) *foViolation {
		s.mu.Lock()
		var newBuilds []*callout
		for _, co := range s.parked {
			if co.kind == "build" && !seenBuild[co] {
				seenBuild[co] = true
				newBuilds = append(newBuilds, co)
			}
		}
		s.mu.Unlock()
		s.mu.Lock()
		var newCalls []*callout
		for _, co := range s.parked {
			if !seenCall[co] {
				seenCall[co] = true
				newCalls = append(newCalls, co)
			}
		}
		s.mu.Unlock()
		for _, co := range newCalls {
			if co.tid < 0 || co.tid >= n {
				if v := emit(&foViolation{"C06", "monitor", "fo:context-values-lost", fmt.Sprintf("after %s: a %s call-out arrived under a context that lost the caller's values", step, co.kind), nil}); v != nil {
					return v
				}
			}
			if k := kidOf(co.key); k != sc.Threads[co.tid].Key {
				if v := emit(&foViolation{"C09", "monitor", "fo:foreign-key", fmt.Sprintf("after %s: goroutine %d (Get for k%d) issues %s for key k%d: the key buffer the caller rewrote after Get returned leaked into the in-flight build", step, co.tid, sc.Threads[co.tid].Key, co.kind, k), []string{"C04", "C02"}}); v != nil {
					return v
				}
			}
			if co.kind == "write" && !storesBuild[co.tid] {
				// the temporary re-store of a stale value must carry UpdateTTL
				ut := int64(sc.Cfg.UT)
				if ut == 0 {
					ut = int64(time.Minute)
				}
				if co.ttl != ut {
					if v := emit(&foViolation{"C06", "monitor", "fo:refresh-ttl", fmt.Sprintf("after %s: goroutine %d re-stores the stale value with ttl %d, UpdateTTL is %d", step, co.tid, co.ttl, ut), []string{"C10"}}); v != nil {
						return v
					}
				}
			}
			if co.kind == "write" && storesBuild[co.tid] {
				// the statement itself: caller's ttl (backend default 0 if none) lowered to the smallest non-zero ttl the builder set
				want := int64(0)
				if sc.Threads[co.tid].HasCell {
					want = sc.Threads[co.tid].Cell
					for _, u := range lastBuildTTLs[co.tid] {
						if u != 0 && (want == 0 || u < want) {
							want = u
						}
					}
				}
				if co.ttl != want {
					if v := emit(&foViolation{"C06", "monitor", "fo:store-ttl", fmt.Sprintf("after %s: goroutine %d stores the built value with ttl %d; caller ttl %d (has cell: %v), builder updates %v: the smallest non-zero of them is %d", step, co.tid, co.ttl, sc.Threads[co.tid].Cell, sc.Threads[co.tid].HasCell, lastBuildTTLs[co.tid], want), []string{"C10"}}); v != nil {
						return v
					}
				}
			}
		}
		for _, co := range newBuilds {
			if co.tid >= 0 && co.tid < n && !co.detached {
				threadBuilt[co.tid] = true
			}
		}
		s.mu.Lock()
		for t := 0; t < n; t++ {
			if started[t] && s.parked[t] == nil && s.results[t] == nil {
				threadWaited[t] = true
			}
		}
		s.mu.Unlock()
		for _, co := range newBuilds {
			k := kidOf(co.key)
			if sc.Threads[co.tid].Skip || faulty || sc.Collide {
				continue // (colliding keys evict each other's entry from the shared slot: a collision may cost a miss)
			}
			if sc.Cfg.SR && freshBuilt[k] {
				if v := emit(&foViolation{"C05", "monitor", "fo:redundant-build", fmt.Sprintf("after %s: SyncRead is on and a build for k%d already succeeded (result still fresh), yet goroutine %d invokes the builder again", step, k, co.tid), nil}); v != nil {
					return v
				}
			}
			if sc.Cfg.FUT >= 0 && failedBuilt[k] {
				if v := emit(&foViolation{"C05", "monitor", "fo:failure-not-suppressed", fmt.Sprintf("after %s: a build for k%d failed moments ago (FailedUpdateTTL %s) yet goroutine %d invokes the builder again", step, k, sc.Cfg.FUT, co.tid), nil}); v != nil {
					return v
				}
			}
		}
		// C01: at most one parked builder per key
		s.mu.Lock()
		perKey := map[int][]int{}
		for t, co := range s.parked {
			if co.kind == "build" {
				perKey[kidOf(co.key)] = append(perKey[kidOf(co.key)], t)
			}
		}
		results := map[int]*getResult{}
		for t, r := range s.results {
			results[t] = r
		}
		s.mu.Unlock()
		for k, ts := range perKey {
			if len(ts) > 1 {
				sort.Ints(ts)
				if v := emit(&foViolation{"C01", "monitor", "fo:overlapping-builds", fmt.Sprintf("after %s: builder running for key k%d in goroutines %v at the same time", step, k, ts), nil}); v != nil {
					return v
				}
			}
		}
		// C02: provenance of every result
		for t, r := range results {
			if checkedResults[t] {
				continue
			}
			checkedResults[t] = true
			k := sc.Threads[t].Key
			if r.err == nil {
				if r.val == 0 {
					if v := emit(&foViolation{"C02", "monitor", "fo:fabricated-zero", fmt.Sprintf("after %s: Get #%d for k%d returned (zero/nil, nil)", step, t, k), []string{"C03"}}); v != nil {
						return v
					}
				}
				if !okVals[k][r.val] {
					if v := emit(&foViolation{"C02", "monitor", "fo:foreign-value", fmt.Sprintf("after %s: Get #%d for k%d returned value %d that was neither built for nor stored under that key (known: %v)", step, t, k, r.val, okVals[k]), []string{"C09"}}); v != nil {
						return v
					}
				}
			} else {
				if e := errTok(r.err); !errToks[k][e] {
					if v := emit(&foViolation{"C02", "monitor", "fo:foreign-error", fmt.Sprintf("after %s: Get #%d for k%d returned error %v that no builder / backend call for that key produced (known: %v)", step, t, k, r.err, errToks[k]), nil}); v != nil {
						return v
					}
				}
			}
		}
		return nil
	}

	var firstCorr *foViolation // remembered; the run continues under the monitors alone
	modelOff := false
	skipChecked := map[int]bool{}
	// SkipRead forces a refresh (C06): a Get under SkipRead that the machine elected OWNER of its key lock (it did not find the
	// key locked by somebody else) must have reached the builder - it is never answered from the backend or the failure
	// cache. Evaluated after the model took the step; only while model and implementation still agreed before it.
	skipMonitor := func(step string, agreedBefore bool) *foViolation {
		if !agreedBefore || faulty {
			return nil
		}
		s.mu.Lock()
		done := map[int]*getResult{}
		for t, r := range s.results {
			done[t] = r
		}
		s.mu.Unlock()
		for t, r := range done {
			if skipChecked[t] {
				continue
			}
			skipChecked[t] = true
			if sc.Threads[t].Skip && !sc.Threads[t].CancelFirst && !threadBuilt[t] && d.Ask(fmt.Sprintf("fo owner %s %d", id, t)) == "1" {
				if v := emit(&foViolation{"C06", "monitor", "fo:skipread-not-rebuilt", fmt.Sprintf("after %s: Get #%d for k%d ran under SkipRead as the owner of its key lock but returned (%d, %v) without invoking the builder", step, t, sc.Threads[t].Key, r.val, r.err), []string{"C03"}}); v != nil {
					return v
				}
			}
			// FailedUpdateTTL = -1 disables the failure cache (C03): the owner of a key lock is then never answered with an
			// error it did not obtain from the builder itself (waiters share the owner's error; owners have nobody to share with)
			if sc.Cfg.FUT < 0 && !sc.Collide && r.err != nil && !sc.Threads[t].CancelFirst && !threadBuilt[t] && d.Ask(fmt.Sprintf("fo owner %s %d", id, t)) == "1" {
				if v := emit(&foViolation{"C03", "monitor", "fo:failure-remembered-cache-off", fmt.Sprintf("after %s: FailedUpdateTTL is -1 (failure cache disabled), yet Get #%d for k%d, owner of its key lock, returned error %v without invoking the builder", step, t, sc.Threads[t].Key, r.err), []string{"C05"}}); v != nil {
					return v
				}
			}
		}
		return nil
	}
	compare := func(step, reply string) *foViolation {
		if firstCorr != nil || modelOff {
			return nil
		}
		if reply == "ambig" {
			res.Ambiguous++
			if v := emit(&foViolation{"", "ambig", "", "", nil}); v != nil {
				return v
			}
		}
		if reply == "disabled" || strings.HasPrefix(reply, "bad-errE") || reply == "missing-errE" {
			if strings.HasPrefix(reply, "bad-errE") {
				if v := emit(&foViolation{"C05", "monitor", "fo:failure-ttl", fmt.Sprintf("after %s: cached failure expiry outside FailedUpdateTTL bounds: %s", step, reply), []string{"C03", "C04", "C06"}}); v != nil {
					return v
				}
			}
			if reply == "missing-errE" {
				if v := emit(&foViolation{"C05", "monitor", "fo:failure-not-cached", fmt.Sprintf("after %s: the build failed with the failure cache on, but Errors holds no entry with that error for the key", step), []string{"C03"}}); v != nil {
					return v
				}
			}
			if reply != "disabled" {
				modelOff = true // the model did not take this step; the scenario continues under the monitors alone
				return nil
			}
			firstCorr = &foViolation{"", "correspondence", "fo:disabled-step", fmt.Sprintf("%s is not a step of the model here (model: %s)", step, d.Ask("fo summary "+id)), nil}
			lastCorr = firstCorr
			return nil
		}
		impl := summary()
		if m := normModel(reply); m != impl {
			firstCorr = &foViolation{"", "correspondence", "fo:position", fmt.Sprintf("after %s:\n impl : %s\n model: %s", step, impl, m), nil}
			lastCorr = firstCorr
		}
		return nil
	}
	ask := func(line string) string {
		if firstCorr != nil {
			return "skipped"
		}
		return d.Ask(line)
	}

	builder := func(tid int, key []byte) func(ctx context.Context) (int, error) {
		return func(bctx context.Context) (int, error) {
			co := &callout{tid: tid, kind: "build", key: key, detached: bctx.Done() == nil}
			_, hasDl := bctx.Deadline()
			co.ctxObs = fmt.Sprintf("done-nil=%v err=%v deadline=%v tid=%v", bctx.Done() == nil, bctx.Err(), hasDl, ctxTid(bctx))
			dir := s.park(co)
			close(co.ack)
			for _, ttl := range dir.bTTLs {
				cache.WithTTL(bctx, time.Duration(ttl), true)
			}
			if len(dir.bIso) > 0 {
				// a nested computation with a ttl of its own: a context DERIVED with WithTTL(ctx, ttl, false) - here even with the
				// same ttl value the caller's carries - is isolated, lowering it must not reach the caller's ttl or the store
				iso := cache.WithTTL(bctx, cache.TTL(bctx), false)
				for _, ttl := range dir.bIso {
					cache.WithTTL(iso, time.Duration(ttl), true)
				}
			}
			if dir.cancel != nil {
				dir.cancel()
			}
			// a detached builder context must stay alive whatever happened to the caller's context
			co.ctxObs += fmt.Sprintf(" after: err=%v", bctx.Err())
			co.t0, co.t1 = now(), now()
			if dir.bOK {
				return dir.bVal, nil
			}
			return 0, tokErr{n: dir.bErr, ctxErr: dir.bCtx}
		}
	}

	for iter := 0; iter < 400; iter++ {
		// enabled threads
		enabled := []int{}
		s.mu.Lock()
		for t := 0; t < n; t++ {
			if !started[t] || s.parked[t] != nil {
				enabled = append(enabled, t)
			}
		}
		s.mu.Unlock()
		if len(enabled) == 0 {
			break
		}
		var t int
		if sc.DFS {
			c := 0
			if n := len(*sc.Taken); n < len(sc.Choices) {
				c = sc.Choices[n]
			}
			if c >= len(enabled) {
				c = 0 // (a replayed prefix always fits: the run is deterministic)
			}
			*sc.Taken = append(*sc.Taken, [2]int{c, len(enabled)})
			t = enabled[c]
		} else {
			cand := enabled
			if sc.HoldBuildsOf > 0 {
				// (directed family: builders of that key are resumed only when nothing else can move)
				var other []int
				s.mu.Lock()
				for _, e := range enabled {
					if co := s.parked[e]; co == nil || co.kind != "build" || kidOf(co.key) != sc.HoldBuildsOf {
						other = append(other, e)
					}
				}
				s.mu.Unlock()
				if len(other) > 0 {
					cand = other
				}
			}
			t = cand[rng.Intn(len(cand))]
		}
		var step string
		var line string
		t0 := now()
		if !started[t] {
			th := sc.Threads[t]
			started[t] = true
			ready := make(chan int)
			goAhead := make(chan struct{})
			kb := foKeyBytes(th.Key)
			go func() {
				ready <- goid()
				<-goAhead
				// every caller context carries a (far away) deadline: a background build must not see it (C06)
				dctx, dcancel := context.WithDeadline(context.WithValue(ctx, tidKey{}, t), time.Now().Add(time.Hour))
				cctx, ccancel := context.WithCancel(dctx)
				cancel := func() { ccancel(); dcancel() }
				cancels[t] = cancel
				if th.Skip {
					cctx = cache.WithSkipRead(cctx)
				}
				if th.HasCell {
					cctx = cache.WithTTL(cctx, time.Duration(th.Cell), false)
				}
				if th.CancelFirst {
					cancel()
				}
				buf := append([]byte(nil), kb...)
				v, err := fe.Get(cctx, buf, builder(t, kb))
				// the caller reuses its key buffer right after Get returned (C04, C09)
				if th.RewriteKey > 0 {
					copy(buf, foKeyBytes(th.RewriteKey))
				} else {
					for i := range buf {
						buf[i] = 'x'
					}
				}
				s.mu.Lock()
				s.results[t] = &getResult{tid: t, val: v, err: err}
				s.mu.Unlock()
			}()
			id2 := <-ready
			s.mu.Lock()
			s.runners[id2] = true
			s.mu.Unlock()
			close(goAhead)
			step = fmt.Sprintf("start g%d Get(k%d)", t, th.Key)
			cell := "-"
			if th.HasCell {
				cell = fmt.Sprint(th.Cell)
			}
			line = fmt.Sprintf("fo begin %s %d %d %d %s", id, t, th.Key, b2i(th.Skip), cell)
		} else {
			s.mu.Lock()
			co := s.parked[t]
			delete(s.parked, t)
			s.mu.Unlock()
			dir := &directive{}
			k := kidOf(co.key)
			if co.phase == 1 {
				// deliver the held-back answer; the model hears about the call only now
				step = fmt.Sprintf("deliver to g%d the answer of %s(k%d)", t, co.kind, k)
			}
			switch {
			case co.phase == 1:
			case co.kind == "read" || co.kind == "write":
				if (co.kind == "read" && sc.LateReads) || (co.kind == "write" && sc.LateWrites) {
					dir.late = !sc.FaultAt[calloutIdx]
				}
				if sc.FaultAt[calloutIdx] {
					nextErr++
					dir.fault = nextErr
					markErr(k, nextErr)
				}
				calloutIdx++
				step = fmt.Sprintf("resume g%d from %s(k%d)", t, co.kind, k)
			case co.kind == "build":
				// C05 monitors: a builder invocation must not follow a completed successful build of a fresh value (SyncRead),
				// nor a failed build within FailedUpdateTTL (failure cache on), for a context without SkipRead
				b := foBuild{OK: true}
				if buildIdx < len(sc.Builds) {
					b = sc.Builds[buildIdx]
				}
				buildIdx++
				dir.bOK, dir.bTTLs, dir.bCtx, dir.bIso = b.OK, b.TTLs, b.CtxErr, b.Iso
				if b.OK {
					nextVal++
					dir.bVal = nextVal
				} else {
					nextErr++
					dir.bErr = nextErr
				}
				if sc.Threads[t].Key == k && !sc.DFS && rng.Intn(4) == 0 {
					dir.cancel = cancels[t]
				}
				step = fmt.Sprintf("resume g%d from build(k%d) -> %v", t, k, map[bool]string{true: "ok", false: "error"}[b.OK])
			}
			s.resumeWith(co, dir)
			_, hang := settle()
			if hang != "" {
				if v := emit(&foViolation{"C04", "monitor", "fo:hang", "after " + step + ": " + hang[:min(len(hang), 500)], nil}); v != nil {
					return trace, v
				}
			}
			if dir.late {
				// the operation took effect; its answer is still held back: nothing to tell the model yet
				trace = append(trace, co.kind+"~")
				if v := monitors(step + " (answer held back)"); v != nil {
					return trace, v
				}
				continue
			}
			t1 := now()
			switch co.kind {
			case "read":
				line = fmt.Sprintf("fo read %s %d %d %d %s", id, t, co.t0, co.t1, co.outcome)
				if strings.HasPrefix(co.outcome, "hit ") || strings.HasPrefix(co.outcome, "stale ") {
					var v int
					fmt.Sscanf(strings.Fields(co.outcome)[1], "%d", &v)
					markOK(k, v)
				}
			case "write":
				line = fmt.Sprintf("fo write %s %d %d %d %s", id, t, t0, t1, co.outcome)
				if co.outcome == "ok" {
					markOK(k, co.val)
					// the result of a build was stored and stays fresh for the whole scenario - until some later store for the key
					// (a forced rebuild under a short or negative ttl, a stale re-store) leaves an entry that does not
					freshBuilt[k] = storesBuild[t] && (co.ttl == 0 || co.ttl >= int64(time.Minute))
					storesBuild[t] = false
				}
			case "build":
				if co.detached && !strings.Contains(co.ctxObs, "done-nil=true err=<nil> deadline=false tid="+fmt.Sprint(t)+" after: err=<nil>") {
					if v := emit(&foViolation{"C06", "monitor", "fo:detached-context", fmt.Sprintf("%s: background builder context is not detached / lost values: %s", step, co.ctxObs), nil}); v != nil {
						return trace, v
					}
				}
				if !co.detached && !strings.Contains(co.ctxObs, "tid="+fmt.Sprint(t)) {
					if v := emit(&foViolation{"C06", "monitor", "fo:builder-context", fmt.Sprintf("%s: builder context lost the caller's values: %s", step, co.ctxObs), nil}); v != nil {
						return trace, v
					}
				}
				ups := "-"
				if len(dir.bTTLs) > 0 {
					p := make([]string, len(dir.bTTLs))
					for i, x := range dir.bTTLs {
						p[i] = fmt.Sprint(x)
					}
					ups = strings.Join(p, ",")
				}
				if dir.bOK {
					markOK(k, dir.bVal)
					storesBuild[t] = true
					lastBuildTTLs[t] = dir.bTTLs
					line = fmt.Sprintf("fo build %s %d %d %d ok %d ups=%s", id, t, t0, t1, dir.bVal, ups)
				} else {
					markErr(k, dir.bErr)
					if sc.Cfg.FUT >= 0 {
						failedBuilt[k] = true
					}
					errE := ""
					for _, e := range fe.ErrorsWalk() {
						if e.Key == string(co.key) && e.V == dir.bErr {
							errE = fmt.Sprintf(" errE=%d", e.E)
						}
					}
					line = fmt.Sprintf("fo build %s %d %d %d err %d ups=%s%s", id, t, t0, t1, dir.bErr, ups, errE)
				}
			}
			trace = append(trace, co.kind+":"+strings.Fields(co.outcome + " -")[0])
			if v := monitors(step); v != nil {
				return trace, v
			}
			agreed := firstCorr == nil && !modelOff
			if v := compare(step, ask(line+timeSuffix(line, t0, t1))); v != nil {
				if v.kind == "ambig" {
					return trace, nil
				}
				return trace, v
			}
			if v := skipMonitor(step, agreed); v != nil {
				return trace, v
			}
			// C05 bookkeeping after the step
			if co.kind == "build" {
				buildsStarted[k]++
			}
			continue
		}
		_, hang := settle()
		if hang != "" {
			if v := emit(&foViolation{"C04", "monitor", "fo:hang", "after " + step + ": " + hang[:min(len(hang), 500)], nil}); v != nil {
				return trace, v
			}
		}
		t1 := now()
		trace = append(trace, "begin")
		if v := monitors(step); v != nil {
			return trace, v
		}
		agreed := firstCorr == nil && !modelOff
		if v := compare(step, ask(fmt.Sprintf("%s %d %d", line, t0, t1))); v != nil {
			if v.kind == "ambig" {
				return trace, nil
			}
			return trace, v
		}
		if v := skipMonitor(step, agreed); v != nil {
			return trace, v
		}
	}
	_ = okBuildDone
	_ = failedAt
	// end of scenario: everything must have completed
	s.mu.Lock()
	pending := []int{}
	for t := 0; t < n; t++ {
		if started[t] && s.results[t] == nil {
			pending = append(pending, t)
		}
	}
	s.mu.Unlock()
	if len(pending) > 0 {
		if v := emit(&foViolation{"C04", "monitor", "fo:stuck-waiter", fmt.Sprintf("no goroutine can make progress but Gets %v never returned", pending), nil}); v != nil {
			return trace, v
		}
	}
	s.mu.Lock()
	lastLoneResult = s.results[0]
	s.mu.Unlock()
	if l := fe.KeyLocks(); l != 0 {
		if v := emit(&foViolation{"C04", "monitor", "fo:lock-leak", fmt.Sprintf("all Gets and background builds finished but %d key lock(s) remain", l), []string{"C09"}}); v != nil {
			return trace, v
		}
	}
	if firstCorr != nil {
		if fmt.Sprintf("%d", buildIdx) != fmt.Sprint(stats.Get(cache.MetricBuild, name)) {
			if v := emit(&foViolation{"C18", "monitor", "fo:build-count", fmt.Sprintf("%d builder invocations but cache_build=%d", buildIdx, stats.Get(cache.MetricBuild, name)), nil}); v != nil {
				return trace, v
			}
		}
		return trace, firstCorr
	}
	if otherFirst != nil {
		return trace, otherFirst // the model was told nothing reliable after that point: no counter comparison
	}
	implStats := fmt.Sprintf("build=%d failed=%d refreshed=%d", stats.Get(cache.MetricBuild, name), stats.Get(cache.MetricFailed, name), stats.Get(cache.MetricRefreshed, name))
	ms := d.Ask("fo stats " + id)
	if !strings.HasPrefix(ms, implStats+" ") {
		if v := emit(&foViolation{"C18", "monitor", "fo:metrics", fmt.Sprintf("failover counters: impl %s, model %s", implStats, ms), nil}); v != nil {
			return trace, v
		}
	}
	if !strings.HasSuffix(ms, "locks=0") {
		if v := emit(&foViolation{"", "correspondence", "fo:model-locks", "model still holds key locks at quiescence: " + ms, nil}); v != nil {
			return trace, v
		}
	}
	if fmt.Sprintf("build=%d", buildIdx) != strings.Fields(implStats)[0] {
		if v := emit(&foViolation{"C18", "monitor", "fo:build-count", fmt.Sprintf("%d builder invocations but %s", buildIdx, implStats), nil}); v != nil {
			return trace, v
		}
	}
	return trace, otherFirst
}

func timeSuffix(line string, t0, t1 int64) string { return "" }

func splitThreads(m string) []string {
	// "0=read:1:0 1=done ret=5,nil" -> per-thread chunks
	f := strings.Fields(m)
	out := []string{}
	for _, x := range f {
		if strings.HasPrefix(x, "ret=") && len(out) > 0 {
			out[len(out)-1] += " " + x
		} else {
			out = append(out, x)
		}
	}
	return out
}

func min(a, b int) int {
	if a < b {
		return a
	}
	return b
}

// ---- scenario generation ------------------------------------------------------------------------------------------

func genFoCfg(rng *rand.Rand, idx int) foCfg {
	c := foCfg{Variant: []string{"F", "Of"}[idx%2]}
	if c.Variant == "F" {
		c.Backend = []string{"sharded", "sync"}[rng.Intn(2)]
	} else {
		c.Backend = "shardedOf"
	}
	c.SU, c.SR, c.FH = rng.Intn(2) == 0, rng.Intn(2) == 0, rng.Intn(3) == 0
	c.MS = []time.Duration{0, time.Hour, 0, time.Hour, -time.Second}[rng.Intn(5)] // negative: nothing expired is fresh enough
	c.FUT = []time.Duration{0, -1, time.Hour}[rng.Intn(3)]
	c.UT = []time.Duration{0, time.Minute, 10 * time.Second}[rng.Intn(3)]
	return c
}

func genFoScenario(profile string, seed int64, idx int, tier string) foScenario {
	ph := fnv.New32a()
	ph.Write([]byte(profile))
	rng := rand.New(rand.NewSource(seed*60013 + int64(idx)*101 + int64(ph.Sum32()%1000)))
	if idx%6 == 5 && (profile == "c01" || profile == "c02" || profile == "c04") {
		// directed family, random schedules: the caller of a background update reuses its key buffer for ANOTHER key that is
		// being built synchronously at that time (C01, C04, C09: nothing the first Get left behind may act on the second key)
		c := foCfg{Variant: []string{"F", "Of"}[(idx/6)%2], SR: rng.Intn(3) == 0, FUT: -1}
		c.Backend = map[string]string{"F": []string{"sharded", "sync"}[rng.Intn(2)], "Of": "shardedOf"}[c.Variant]
		sc := foScenario{Cfg: c, SchedSeed: rng.Int63(), FaultAt: map[int]bool{}, Label: profile,
			Keys:    []foKey{{State: "stale", Val: 10}, {State: "absent", Val: 11}},
			Threads: []foThread{{Key: 1, RewriteKey: 2}, {Key: 2, RewriteKey: 2}, {Key: 2, RewriteKey: 2}}}
		for extra := rng.Intn(3); extra > 0; extra-- {
			sc.Threads = append(sc.Threads, foThread{Key: 2, RewriteKey: 2})
		}
		for b := 0; b < 8; b++ {
			sc.Builds = append(sc.Builds, foBuild{OK: true})
		}
		if rng.Intn(2) == 0 {
			sc.HoldBuildsOf = 2 // the synchronous build of the second key stays in flight as long as possible
		}
		return sc
	}
	sc := foScenario{Cfg: genFoCfg(rng, idx), SchedSeed: rng.Int63(), FaultAt: map[int]bool{}, Label: profile}
	nKeys := 1 + rng.Intn(3)
	for k := 0; k < nKeys; k++ {
		states := []string{"absent", "fresh", "stale", "absent", "stale"}
		if sc.Cfg.MS > 0 {
			states = append(states, "toostale", "toostale")
		}
		key := foKey{State: states[rng.Intn(len(states))], Val: 10 + k}
		if rng.Intn(6) == 0 && key.State != "fresh" {
			key.CachedErr = 400 + k
		}
		sc.Keys = append(sc.Keys, key)
	}
	maxT := 6
	if tier == "thorough" {
		maxT = 12
	}
	nT := 2 + rng.Intn(maxT-1)
	for t := 0; t < nT; t++ {
		th := foThread{Key: 1 + rng.Intn(nKeys), RewriteKey: rng.Intn(nKeys + 1)}
		if rng.Intn(10) == 0 {
			th.Skip = true
		}
		if rng.Intn(4) == 0 {
			th.HasCell = true
			th.Cell = []int64{int64(time.Hour), int64(5 * time.Millisecond), -int64(time.Second), int64(2 * time.Hour), 0}[rng.Intn(5)]
		}
		if rng.Intn(12) == 0 {
			th.CancelFirst = true
		}
		sc.Threads = append(sc.Threads, th)
	}
	for b := 0; b < 8; b++ {
		fb := foBuild{OK: rng.Intn(3) != 0, CtxErr: rng.Intn(3) == 0}
		if rng.Intn(4) == 0 {
			for j := 0; j < 1+rng.Intn(2); j++ {
				fb.TTLs = append(fb.TTLs, []int64{int64(time.Minute), int64(3 * time.Hour), 0, -int64(time.Minute), int64(time.Second)}[rng.Intn(5)])
			}
		}
		if rng.Intn(5) == 0 {
			fb.Iso = []int64{[]int64{int64(time.Second), -int64(time.Minute), int64(time.Millisecond)}[rng.Intn(3)]}
		}
		sc.Builds = append(sc.Builds, fb)
	}
	if profile == "c02" || profile == "c04" {
		for i := 0; i < 40; i++ {
			if rng.Intn(6) == 0 {
				sc.FaultAt[i] = true
			}
		}
	}
	if profile == "c05" {
		sc.Cfg.SR = true
	}
	if nKeys >= 2 && rng.Intn(5) == 0 {
		// colliding keys share a slot of the failure cache too (a collision may cost a miss there, which the machine does not
		// model): such scenarios run with the failure cache off
		sc.Collide = true
		sc.Cfg.FUT = -1
		for i := range sc.Keys {
			sc.Keys[i].CachedErr = 0
		}
	}
	if rng.Intn(5) == 0 {
		sc.WrapErrs = true
	}
	switch rng.Intn(6) {
	case 0, 1:
		sc.LateReads = true
	case 2:
		sc.LateReads, sc.LateWrites = true, true
	}
	return sc
}

// lone-Get decision table (C03): every cell, one goroutine.
func foTableScenarios() []foScenario {
	var out []foScenario
	for _, variant := range []string{"F", "Of"} {
		backends := []string{"sharded", "sync"}
		if variant == "Of" {
			backends = []string{"shardedOf"}
		}
		for _, be := range backends {
			for _, state := range []string{"absent", "fresh", "stale", "toostale"} {
				for _, cached := range []bool{false, true} {
					for cfgBits := 0; cfgBits < 16; cfgBits++ {
						for _, bok := range []bool{true, false} {
							su, fh, msSet, futOff := cfgBits&1 != 0, cfgBits&2 != 0, cfgBits&4 != 0, cfgBits&8 != 0
							if state == "toostale" && !msSet {
								continue
							}
							if cached && futOff {
								continue
							}
							c := foCfg{Variant: variant, Backend: be, SU: su, FH: fh}
							if msSet {
								c.MS = time.Hour
							}
							if futOff {
								c.FUT = -1
							}
							k := foKey{State: state, Val: 10}
							if cached {
								k.CachedErr = 400
							}
							for _, sr := range []bool{false, true} {
								c.SR = sr
								out = append(out, foScenario{Cfg: c, Keys: []foKey{k}, Threads: []foThread{{Key: 1}}, Builds: []foBuild{{OK: bok}},
									FaultAt: map[int]bool{}, SchedSeed: 1, Label: "table"})
								if state == "stale" || state == "toostale" {
									// the same cell behind a decorating backend that wraps its read errors with %w (the frontends look
									// for the expired item with errors.As, so the table is the same)
									out = append(out, foScenario{Cfg: c, Keys: []foKey{k}, Threads: []foThread{{Key: 1}}, Builds: []foBuild{{OK: bok}},
										FaultAt: map[int]bool{}, SchedSeed: 1, Label: "table", WrapErrs: true})
								}
								if state == "stale" && msSet {
									// the same cell with "forever" spelled as the largest duration (time arithmetic near overflow)
									ch := c
									ch.MS = time.Duration(math.MaxInt64)
									out = append(out, foScenario{Cfg: ch, Keys: []foKey{k}, Threads: []foThread{{Key: 1}}, Builds: []foBuild{{OK: bok}},
										FaultAt: map[int]bool{}, SchedSeed: 1, Label: "table"})
								}
								if state == "stale" && !msSet {
									// the same cell under a negative MaxStaleness
									cn := c
									cn.MS = -time.Second
									out = append(out, foScenario{Cfg: cn, Keys: []foKey{k}, Threads: []foThread{{Key: 1}}, Builds: []foBuild{{OK: bok}},
										FaultAt: map[int]bool{}, SchedSeed: 1, Label: "table"})
								}
							}
						}
					}
				}
			}
		}
	}
	return out
}

// expectTable is the documented decision table of a lone Get (README "Failover Cache", FailoverConfig comments), written
// independently of the Lean model: (value token or 0, "builder-error" | "cached-error" | "", builder invoked?).
func expectTable(sc foScenario) (val string, errKind string, built bool) {
	k := sc.Keys[0]
	bok := sc.Builds[0].OK
	switch {
	case k.State == "fresh":
		return "seeded", "", false
	case k.CachedErr != 0:
		return "", "cached-error", false // bullet 5: consecutive calls fail immediately with the same error
	case k.State == "absent":
		if bok {
			return "built", "", true
		}
		return "", "builder-error", true
	case k.State == "stale" && !sc.Cfg.SU && sc.Cfg.MS >= 0:
		return "seeded", "", true // served immediately, build runs in background
		// (a negative MaxStaleness admits no staleness at all - only 0 means "unlimited": an expired value is then too stale)
	default: // stale with SyncUpdate, or too stale: blocks on the build
		if bok {
			return "built", "", true
		}
		if sc.Cfg.FH {
			return "", "builder-error", true
		}
		return "seeded", "", true // stale value served regardless of MaxStaleness when the update fails
	}
}

func runFo(o Opts) *Result {
	res := &Result{Rule: "concurrent Get scenarios under the deterministic call-out scheduler: 1-3 keys (absent / fresh / stale / too stale, optional cached failure), " +
		"2-6 (thorough: 2-12) goroutines with SkipRead / per-call ttl / cancelled contexts / key-buffer rewriting, scripted builder outcomes with WithTTL updates, " +
		"backend faults at random call-outs (profiles c02, c04), random schedules; profile table = the complete lone-Get decision table; " +
		"non-trivial = a scenario in which a builder ran and at least one Get waited or was served stale/failed; distinct by hash of (config, call-out trace)"}
	d, err := StartDriver(o.Driver)
	if err != nil {
		infra("%v", err)
	}
	defer d.Close()
	uniq := map[uint64]bool{}
	if o.Profile == "dfs" {
		res.Rule = "systematic: base scenarios = 2 (thorough: also 3) goroutines calling Get on one key x {Failover, FailoverOf} x key state {absent, stale, too stale} x " +
			"{SyncUpdate, SyncRead, FailHard} x failure cache {off, on} x builder scripts {ok | err,ok | err,err}; for each base EVERY interleaving at call-out granularity " +
			"is executed (stateless DFS over scheduler decisions), each compared step by step with the Lean machine and judged by all monitors; quick tier: a seeded slice of the " +
			"bases bounded by n executions; distinct = distinct (base, call-out trace)"
		runFoDFS(o, d, res)
		return res
	}
	var scenarios []foScenario
	if o.Profile == "table" {
		scenarios = foTableScenarios()
		res.Exhaustive = true
	}
	total := o.N
	if scenarios != nil {
		total = len(scenarios)
	}
	for idx := 0; idx < total; idx++ {
		if timeUp() {
			break
		}
		if o.Only >= 0 && idx != o.Only {
			continue
		}
		var sc foScenario
		if scenarios != nil {
			sc = scenarios[idx]
		} else {
			sc = genFoScenario(o.Profile, o.Seed, idx, o.Tier)
		}
		res.Evaluations++
		res.count("variant:" + sc.Cfg.Variant + "/" + sc.Cfg.Backend)
		// every third scenario runs on a single P: a goroutine the frontend spawns then starts only after its creator
		// blocked, i.e. after the caller got its result and rewrote its key buffer - the worst case for C04/C09, made deterministic
		prevProcs := 0
		if idx%3 == 1 {
			prevProcs = runtime.GOMAXPROCS(1)
			res.count("gomaxprocs:1")
		}
		trace, v := runFoScenario(d, fmt.Sprintf("f%d", idx), sc, res)
		if prevProcs > 0 {
			runtime.GOMAXPROCS(prevProcs)
		}
		res.TracesValidated++
		for _, ev := range trace {
			res.count("event:" + ev)
		}
		hasBuild := false
		for _, ev := range trace {
			if strings.HasPrefix(ev, "build") {
				hasBuild = true
			}
		}
		if hasBuild && len(trace) > 3 {
			h := fnv.New64a()
			h.Write([]byte(sc.Cfg.String() + strings.Join(trace, ",")))
			uniq[h.Sum64()] = true
		}
		if len(res.Samples) < 3 {
			smp := sc.describe()
			smp["callout_trace"] = strings.Join(trace, ",")
			res.Samples = append(res.Samples, smp)
		}
		if (v == nil || v.kind == "correspondence") && sc.Label == "table" {
			wantV, wantE, wantB := expectTable(sc)
			got := lastLoneResult
			gotV, gotE := "", ""
			if got != nil {
				switch {
				case got.err != nil && errTok(got.err) == 400:
					gotE = "cached-error"
				case got.err != nil:
					gotE = "builder-error"
				case got.val == 10:
					gotV = "seeded"
				case got.val > 100:
					gotV = "built"
				default:
					gotV = fmt.Sprint(got.val)
				}
			}
			built := false
			for _, ev := range trace {
				if strings.HasPrefix(ev, "build") {
					built = true
				}
			}
			if got != nil && (gotV != wantV || gotE != wantE || built != wantB) {
				v = &foViolation{"C03", "monitor", "fo:decision-table", fmt.Sprintf("lone Get: documented table says value=%q error=%q builder-invoked=%v, got value=%q error=%q builder-invoked=%v", wantV, wantE, wantB, gotV, gotE, built), nil}
			}
		}
		if v == nil {
			continue
		}
		rep := sc.describe()
		rep["engine"], rep["profile"], rep["seed"], rep["index"] = "fo", o.Profile, o.Seed, idx
		rep["callout_trace"] = strings.Join(trace, ",")
		rep["driver_log_tail"] = tail(d.Log, 25)
		rep["rerun"] = fmt.Sprintf("harness fo -profile %s -seed %d -only %d", o.Profile, o.Seed, idx)
		res.Violations = append(res.Violations, Violation{Property: v.prop, Also: v.also, Kind: v.kind, Sig: v.sig + ":" + sc.Cfg.Variant, Detail: v.detail, Replay: rep})
		if lastCorr != nil && v != lastCorr {
			res.Violations = append(res.Violations, Violation{Kind: "correspondence", Sig: lastCorr.sig + ":" + sc.Cfg.Variant, Detail: lastCorr.detail, Replay: rep})
		}
		if res.full() {
			break
		}
	}
	if (o.Profile == "c02" || o.Profile == "c04") && o.Only < 0 {
		runFoPanicSuite(res)
	}
	res.DistinctNontrivial = len(uniq)
	return res
}

// ---- builder panics -------------------------------------------------------------------------------------------------
// A panicking builder is outside the Lean machine (its outcome scripts are value / error). What the implementation promises
// anyway is bookkeeping: the invocation is counted (C18), the key lock is released so that a later Get builds again (C04),
// and the panic reaches the caller. Lone Gets, no scheduler: the sync path only (a panic in a background build ends the process).
func runFoPanicSuite(res *Result) {
	ctx := context.Background()
	for _, variant := range []string{"F:sharded", "F:sync", "Of:shardedOf"} {
		for _, seedStale := range []bool{false, true} {
			keys := NewKeyTable()
			stats := NewStats()
			kind := strings.SplitN(variant, ":", 2)[1]
			inner := NewBackend(BCfg{Kind: kind, TTL: time.Hour, Jitter: Rat{-1, 1, -1}, Name: "fo-panic"}, keys)
			var fe frontend
			if strings.HasPrefix(variant, "F:") {
				fe = feAny{cache.NewFailover(func(c *cache.FailoverConfig) {
					c.Name, c.Backend, c.Stats, c.FailedUpdateTTL, c.SyncUpdate = "fo", inner.Raw().(cache.ReadWriter), stats, -1, true
				})}
			} else {
				fe = feOf{cache.NewFailoverOf[int](func(c *cache.FailoverConfigOf[int]) {
					c.Name, c.Backend, c.Stats, c.FailedUpdateTTL, c.SyncUpdate = "fo", inner.Raw().(cache.ReadWriterOf[int]), stats, -1, true
				})}
			}
			res.Evaluations++
			res.count("panic-suite:" + variant)
			key := []byte("fo-key-1")
			if seedStale {
				_ = inner.Write(cache.WithTTL(ctx, -time.Second, false), key, 7)
			}
			invocations, failures := 0, 0
			script := []string{"ok", "panic", "err", "panic", "ok"}
			fail := func(prop, sig, detail string, also ...string) {
				res.Violations = append(res.Violations, Violation{Property: prop, Also: also, Kind: "monitor", Sig: sig, Detail: variant + fmt.Sprintf(" (stale value present: %v): ", seedStale) + detail,
					Replay: map[string]interface{}{"engine": "fo", "suite": "builder-panics", "variant": variant, "staleSeeded": seedStale, "script": script}})
			}
			for i, outcome := range script {
				outcome := outcome
				done := make(chan string, 1)
				go func() {
					defer func() {
						if r := recover(); r != nil {
							done <- fmt.Sprint("panic:", r)
						}
					}()
					v, err := fe.Get(cache.WithSkipRead(ctx), append([]byte(nil), key...), func(ctx context.Context) (int, error) {
						invocations++
						switch outcome {
						case "panic":
							panic("builder-panic")
						case "err":
							failures++
							return 0, tokErr{n: 900 + i}
						}
						return 100 + i, nil
					})
					done <- fmt.Sprintf("ret:%d,%v", v, err)
				}()
				var got string
				select {
				case got = <-done:
				case <-time.After(5 * time.Second):
					fail("C04", "fo:hang-after-panic", fmt.Sprintf("Get #%d (%s) did not return within 5s after an earlier builder panicked", i, outcome))
					return
				}
				if outcome == "panic" && !strings.HasPrefix(got, "panic:") {
					fail("C04", "fo:panic-swallowed", fmt.Sprintf("Get #%d: the builder panicked but Get returned %s", i, got))
				}
				if l := fe.KeyLocks(); l != 0 {
					fail("C04", "fo:lock-leak-after-panic", fmt.Sprintf("after Get #%d (%s, %s): %d key lock(s) remain", i, outcome, got, l), "C09")
				}
			}
			if b := int(stats.Get(cache.MetricBuild, "fo")); b != invocations {
				fail("C18", "fo:build-count-panic", fmt.Sprintf("%d builder invocations (script %v) but cache_build=%d", invocations, script, b))
			}
			if f := int(stats.Get(cache.MetricFailed, "fo")); f != failures {
				fail("C18", "fo:failed-count-panic", fmt.Sprintf("%d builder invocations returned an error (script %v) but cache_failed=%d", failures, script, f))
			}
			res.TracesValidated++
		}
	}
}

// ---- systematic schedules -------------------------------------------------------------------------------------------
// Profile dfs: for small base scenarios (2 goroutines, thorough: also 3, on one key; no backend faults) EVERY interleaving at
// call-out granularity is executed - stateless depth-first search over the scheduler's decisions: run, then flip the last
// decision that still has an untried alternative, replay the prefix, take the first enabled goroutine from there on.
func foDFSBases(tier string) []foScenario {
	var out []foScenario
	threadCounts := []int{2}
	if tier == "thorough" {
		threadCounts = []int{2, 3}
	}
	for _, nT := range threadCounts {
		for _, variant := range []string{"F", "Of"} {
			for _, state := range []string{"absent", "stale", "toostale"} {
				for bits := 0; bits < 8; bits++ {
					for _, script := range [][]bool{{true}, {false, true}, {false, false}} {
						su, sr, fh := bits&1 != 0, bits&2 != 0, bits&4 != 0
						for _, fut := range []time.Duration{-1, 0} {
							c := foCfg{Variant: variant, SU: su, SR: sr, FH: fh, FUT: fut}
							c.Backend = map[string]string{"F": "sharded", "Of": "shardedOf"}[variant]
							if variant == "F" && bits%2 == 1 {
								c.Backend = "sync"
							}
							if state == "toostale" {
								c.MS = time.Hour
							}
							sc := foScenario{Cfg: c, Keys: []foKey{{State: state, Val: 10}}, FaultAt: map[int]bool{}, Label: "dfs", DFS: true}
							for t := 0; t < nT; t++ {
								sc.Threads = append(sc.Threads, foThread{Key: 1, RewriteKey: 0})
							}
							for _, ok := range script {
								sc.Builds = append(sc.Builds, foBuild{OK: ok})
							}
							out = append(out, sc)
							if nT == 2 && fut == -1 {
								late := sc
								late.LateReads = true
								out = append(out, late)
							}
						}
					}
				}
			}
		}
	}
	// second family (appended, so base indices of the first stay valid): one backend fault at the i-th call-out of the run,
	// two Gets for the key, the second optionally under SkipRead (a waiter that cannot be answered from the backend and
	// depends on what the owner publishes - also when the owner leaves early because its backend failed)
	for _, variant := range []string{"F", "Of"} {
		for _, state := range []string{"absent", "stale", "toostale"} {
			for bits := 0; bits < 8; bits++ {
				for _, skip2 := range []bool{false, true} {
					for faultAt := 0; faultAt < 4; faultAt++ {
						su, sr, fh := bits&1 != 0, bits&2 != 0, bits&4 != 0
						c := foCfg{Variant: variant, SU: su, SR: sr, FH: fh, FUT: -1}
						c.Backend = map[string]string{"F": "sharded", "Of": "shardedOf"}[variant]
						if state == "toostale" {
							c.MS = time.Hour
						}
						sc := foScenario{Cfg: c, Keys: []foKey{{State: state, Val: 10}}, FaultAt: map[int]bool{faultAt: true}, Label: "dfs", DFS: true,
							Threads: []foThread{{Key: 1}, {Key: 1, Skip: skip2}}, Builds: []foBuild{{OK: true}}}
						out = append(out, sc)
					}
				}
			}
		}
	}
	// third family (both tiers): three Gets for an absent key with SyncRead on - the smallest setting in which an owner finds, in
	// its critical-section read, the value a previous owner stored while a third Get is waiting for it
	for _, variant := range []string{"F", "Of"} {
		for bits := 0; bits < 4; bits++ {
			su, fh := bits&1 != 0, bits&2 != 0
			c := foCfg{Variant: variant, SU: su, SR: true, FH: fh, FUT: -1}
			c.Backend = map[string]string{"F": "sharded", "Of": "shardedOf"}[variant]
			if variant == "F" && bits%2 == 1 {
				c.Backend = "sync"
			}
			for _, skip3 := range []bool{false, true} {
				// (a third Get under SkipRead cannot be answered by its own critical-section read: it depends on what the owner publishes)
				out = append(out, foScenario{Cfg: c, Keys: []foKey{{State: "absent", Val: 10}}, FaultAt: map[int]bool{}, Label: "dfs", DFS: true,
					Threads: []foThread{{Key: 1}, {Key: 1}, {Key: 1, Skip: skip3}}, Builds: []foBuild{{OK: true}}})
			}
		}
	}
	return out
}

func runFoDFS(o Opts, d *Driver, res *Result) {
	bases := foDFSBases(o.Tier)
	// quick tier: a seeded slice of the base scenarios; thorough: all of them. o.N bounds the number of executions.
	if o.Only >= 0 && o.Only < len(bases) {
		// replay of one schedule: -only <base index> -replay <comma separated scheduler decisions>
		var prefix []int
		for _, f := range strings.Split(o.Replay, ",") {
			var c int
			if _, err := fmt.Sscan(f, &c); err == nil {
				prefix = append(prefix, c)
			}
		}
		var taken [][2]int
		sc := bases[o.Only]
		sc.Choices, sc.Taken = prefix, &taken
		res.Evaluations++
		trace, v := runFoScenario(d, "replay", sc, res)
		res.TracesValidated++
		if v != nil && v.kind != "ambig" {
			smp := sc.describe()
			smp["callout_trace"] = strings.Join(trace, ",")
			res.Violations = append(res.Violations, Violation{Property: v.prop, Also: v.also, Kind: v.kind, Sig: v.sig, Detail: v.detail, Replay: smp})
		}
		return
	}
	order := rand.New(rand.NewSource(o.Seed * 7727)).Perm(len(bases))
	perBase3 := 1 << 30
	if o.Tier == "quick" {
		// the few three-goroutine bases come first whatever the seed; the seeded slice of the others follows
		var first, rest []int
		for _, bi := range order {
			if len(bases[bi].Threads) == 3 {
				first = append(first, bi)
			} else {
				rest = append(rest, bi)
			}
		}
		order = append(first, rest...)
		if len(first) > 0 {
			perBase3 = o.N * 2 / 5 / len(first) // (at most 40% of the executions go to them)
		}
	}
	runs, complete := 0, 0
	uniq := map[uint64]bool{}
	for _, bi := range order {
		if runs >= o.N {
			break
		}
		base := bases[bi]
		var prefix []int
		exhausted := false
		nBase := 0
		for runs < o.N {
			if timeUp() || (len(base.Threads) == 3 && nBase >= perBase3) {
				break
			}
			var taken [][2]int
			sc := base
			sc.Choices, sc.Taken = prefix, &taken
			res.Evaluations++
			runs++
			nBase++
			id := fmt.Sprintf("d%d_%d", bi, nBase)
			trace, v := runFoScenario(d, id, sc, res)
			res.TracesValidated++
			h := fnv.New64a()
			h.Write([]byte(sc.Cfg.String() + fmt.Sprint(bi) + strings.Join(trace, ",")))
			uniq[h.Sum64()] = true
			if len(res.Samples) < 3 && nBase == 3 {
				smp := sc.describe()
				smp["callout_trace"] = strings.Join(trace, ",")
				res.Samples = append(res.Samples, smp)
			}
			if v != nil && v.kind != "ambig" {
				smp := sc.describe()
				choices := make([]int, len(taken))
				for i, c := range taken {
					choices[i] = c[0]
				}
				smp["dfs_choices"] = choices
				smp["callout_trace"] = strings.Join(trace, ",")
				smp["engine"], smp["profile"], smp["base"] = "fo", "dfs", bi
				cs := make([]string, len(choices))
				for i, c := range choices {
					cs[i] = fmt.Sprint(c)
				}
				smp["rerun"] = fmt.Sprintf("harness fo -profile dfs -tier %s -only %d -replay %s", o.Tier, bi, strings.Join(cs, ","))
				res.Violations = append(res.Violations, Violation{Property: v.prop, Also: v.also, Kind: v.kind, Sig: v.sig, Detail: v.detail, Replay: smp})
				if res.full() {
					return
				}
			}
			// backtrack: the last decision with an untried alternative
			i := len(taken) - 1
			for i >= 0 && taken[i][0]+1 >= taken[i][1] {
				i--
			}
			if i < 0 {
				exhausted = true
				break
			}
			prefix = make([]int, i+1)
			for j := 0; j < i; j++ {
				prefix[j] = taken[j][0]
			}
			prefix[i] = taken[i][0] + 1
		}
		if len(base.Threads) == 3 {
			res.countN("dfs:schedules-of-three-goroutine-bases", nBase)
		}
		if exhausted {
			complete++
			res.countN("dfs:schedules-of-completed-bases", nBase)
		}
	}
	res.countN("dfs:bases-explored-completely", complete)
	res.countN("dfs:bases-total", len(bases))
	res.DistinctNontrivial += len(uniq)
}
