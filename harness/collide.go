package main

import (
	"encoding/binary"
	"math/bits"
	"math/rand"

	"github.com/cespare/xxhash/v2"
)

var (
	xxP1 uint64 = 11400714785074694791
	xxP2 uint64 = 14029467366897019727
)

func inv64(a uint64) uint64 { // inverse of odd a modulo 2^64 (Newton)
	x := a
	for i := 0; i < 6; i++ {
		x *= 2 - a*x
	}
	return x
}

func xxRound(acc, input uint64) uint64 {
	acc += input * xxP2
	acc = bits.RotateLeft64(acc, 31)
	acc *= xxP1
	return acc
}

// CollidingTwin returns a key of the same length (64 bytes) with the same xxhash64 and different bytes.
// Lane 1 of stripe 1 is changed to a', lane 1 of stripe 2 is solved so that the lane accumulator coincides.
func CollidingTwin(key []byte, rng *rand.Rand) []byte {
	if len(key) != 64 {
		panic("CollidingTwin needs a 64 byte key")
	}
	v1 := xxP1 + xxP2 // seed 0
	a := binary.LittleEndian.Uint64(key[0:8])
	b := binary.LittleEndian.Uint64(key[32:40])
	a2 := a ^ (1 + uint64(rng.Int63()))
	acc := xxRound(v1, a)
	acc2 := xxRound(v1, a2)
	b2 := b + (acc-acc2)*inv64(xxP2)
	twin := append([]byte(nil), key...)
	binary.LittleEndian.PutUint64(twin[0:8], a2)
	binary.LittleEndian.PutUint64(twin[32:40], b2)
	if xxhash.Sum64(twin) != xxhash.Sum64(key) || string(twin) == string(key) {
		panic("collision construction failed")
	}
	return twin
}
