package main

import (
	"bufio"
	"fmt"
	"io"
	"os"
	"os/exec"
	"runtime/pprof"
	"strings"
	"sync/atomic"
	"time"
)

// Driver is a client of the compiled Lean model driver (one request line, one reply line).
type Driver struct {
	cmd   *exec.Cmd
	in    io.WriteCloser
	out   *bufio.Reader
	Lines int
	Log   []string // last lines exchanged (ring), for replay files
	keep  int
}

func StartDriver(path string) (*Driver, error) {
	cmd := exec.Command(path)
	in, err := cmd.StdinPipe()
	if err != nil {
		return nil, err
	}
	out, err := cmd.StdoutPipe()
	if err != nil {
		return nil, err
	}
	cmd.Stderr = os.Stderr
	if err := cmd.Start(); err != nil {
		return nil, err
	}
	d := &Driver{cmd: cmd, in: in, out: bufio.NewReaderSize(out, 1<<20), keep: 400}
	if r := d.Ask("ping"); r != "pong" {
		return nil, fmt.Errorf("driver handshake failed: %q", r)
	}
	return d, nil
}

// Ask sends one line and returns the reply. A dead driver is an infrastructure failure.
// ---- hang watchdog ----
// The engines that drive the package under test step by step talk to the model all the time. If none of them has made a step
// for watchdogLimit although nobody is waiting for the model, a call into the package under test does not return (a lock
// that is never released, a channel nobody closes): the process dumps its goroutines and ends like a crashed one - a
// verdict (crash), reached in minutes instead of at the engine's process timeout.
var (
	lastTouch     int64
	inDriver      int32
	watchdogLimit = 150 * time.Second
)

func touch() { atomic.StoreInt64(&lastTouch, time.Now().UnixNano()) }

func startWatchdog() {
	touch()
	go func() {
		for {
			time.Sleep(3 * time.Second)
			if atomic.LoadInt32(&inDriver) == 0 && time.Since(time.Unix(0, atomic.LoadInt64(&lastTouch))) > watchdogLimit {
				fmt.Fprintf(os.Stderr, "fatal error: HANG - a call into the package under test has not returned for %s (goroutines follow)\n", watchdogLimit)
				_ = pprof.Lookup("goroutine").WriteTo(os.Stderr, 1)
				os.Exit(2)
			}
		}
	}()
}

func (d *Driver) Ask(line string) string {
	atomic.AddInt32(&inDriver, 1)
	defer func() { touch(); atomic.AddInt32(&inDriver, -1) }()
	if strings.ContainsAny(line, "\n\r") {
		infra("driver line contains newline: %q", line)
	}
	if _, err := io.WriteString(d.in, line+"\n"); err != nil {
		infra("driver write: %v", err)
	}
	type reply struct {
		r   string
		err error
	}
	ch := make(chan reply, 1)
	go func() {
		r, err := d.out.ReadString('\n')
		ch <- reply{r, err}
	}()
	var r string
	select {
	case rp := <-ch:
		if rp.err != nil {
			infra("driver read: %v (after %q)", rp.err, line)
		}
		r = rp.r
	case <-time.After(5 * time.Minute):
		_ = d.cmd.Process.Kill()
		infra("the model driver did not answer within 5 minutes (line %.200q): no verdict", line)
	}
	r = strings.TrimRight(r, "\n")
	d.Lines++
	d.Log = append(d.Log, line+"  =>  "+r)
	if len(d.Log) > d.keep {
		d.Log = d.Log[len(d.Log)-d.keep:]
	}
	if strings.HasPrefix(r, "bad-op") {
		infra("driver rejected line %q: %s", line, r)
	}
	return r
}

func (d *Driver) Close() {
	d.in.Close()
	d.cmd.Wait()
}

// infra reports an infrastructure failure (not a verdict) and exits 3 (2 is what the Go runtime exits with after a panic
// or a fatal error of the code under test: that is a verdict).
func infra(format string, args ...interface{}) {
	fmt.Fprintf(os.Stderr, "INFRA: "+format+"\n", args...)
	os.Exit(3)
}
