package main

import (
	"bytes"
	"context"
	"fmt"
	"math/rand"
	"os"
	"os/exec"
	"path/filepath"
	"regexp"
	"sort"
	"strings"
	"sync"
	"time"

	"github.com/bool64/cache"
)

// E5: every unordered pair of public operations on shared instances, executed concurrently under the Go race detector
// in child processes. A report is reduced to the two accessing functions inside package cache ("race:<f>|<g>").

func init() {
	engines["race"] = runRace
	engines["racechild"] = runRaceChild
}

type raceOp struct {
	name string
	run  func(env *raceEnv, i int)
}

type raceEnv struct {
	b    Backend
	bu   Backend // same kind, TimeToLive = UnlimitedTTL
	keys [][]byte
	ctx  context.Context
	fe   *cache.Failover
	feOf *cache.FailoverOf[int]
	ix   *cache.InvalidationIndex
	inv  *cache.Invalidator
	buf  *bytes.Buffer
	mu   sync.Mutex
}

func backendOps() []raceOp {
	return []raceOp{
		{"Read", func(e *raceEnv, i int) { _, _ = e.b.Read(e.ctx, e.keys[i%4]) }},
		{"ReadExpired", func(e *raceEnv, i int) { _, _ = e.b.Read(e.ctx, e.keys[4+i%2]) }},
		{"Write", func(e *raceEnv, i int) { _ = e.b.Write(e.ctx, e.keys[i%4], i+1) }},
		{"WriteTTL", func(e *raceEnv, i int) { _ = e.b.Write(cache.WithTTL(e.ctx, time.Hour, false), e.keys[i%6], i+1) }},
		{"Delete", func(e *raceEnv, i int) { _ = e.b.Delete(e.ctx, e.keys[i%4]) }},
		{"ExpireAll", func(e *raceEnv, i int) { e.b.ExpireAll(e.ctx) }},
		{"DeleteAll", func(e *raceEnv, i int) { e.b.DeleteAll(e.ctx) }},
		{"Len", func(e *raceEnv, i int) { _ = e.b.Len() }},
		{"Walk", func(e *raceEnv, i int) { _ = e.b.Walk() }},
		{"TransferWalk", func(e *raceEnv, i int) {
			// the walker the HTTP transfer uses (ShardedMapOf hands out an adapter with a Walk of its own)
			var w cache.WalkDumpRestorer
			if a, ok := e.b.Raw().(interface{ WalkDumpRestorer() cache.WalkDumpRestorer }); ok {
				w = a.WalkDumpRestorer()
			} else {
				w = e.b.Raw().(cache.WalkDumpRestorer)
			}
			_, _ = w.Walk(func(cache.Entry) error { return nil })
		}},
		{"Dump", func(e *raceEnv, i int) { var w bytes.Buffer; _, _ = e.b.Dump(&w) }},
		{"Restore", func(e *raceEnv, i int) { _, _ = e.b.Restore(bytes.NewReader(e.buf.Bytes())) }},
		{"Cleanup", func(e *raceEnv, i int) { e.b.Cleanup() }},
		{"LoadStore", func(e *raceEnv, i int) { e.b.Store(e.keys[i%4], i+1); _, _ = e.b.Load(e.keys[i%4]) }},
		// a second instance configured with UnlimitedTTL: per-call ttls maintain the janitor's "expirations were set" counter
		{"UnlimitedWriteTTL", func(e *raceEnv, i int) { _ = e.bu.Write(cache.WithTTL(e.ctx, time.Hour, false), e.keys[i%6], i+1) }},
		{"UnlimitedBatch", func(e *raceEnv, i int) {
			if i%2 == 0 {
				e.bu.ExpireAll(e.ctx)
			} else {
				e.bu.Cleanup()
			}
		}},
	}
}

func frontOps() []raceOp {
	build := func(ctx context.Context) (interface{}, error) { return 7, nil }
	buildOf := func(ctx context.Context) (int, error) { return 7, nil }
	fail := func(ctx context.Context) (interface{}, error) { return nil, tokErr{n: 3} }
	slow := func(ctx context.Context) (interface{}, error) { time.Sleep(30 * time.Microsecond); return 8, nil }
	return []raceOp{
		{"Failover.GetSlowBuild", func(e *raceEnv, i int) {
			_ = e.b.Delete(e.ctx, e.keys[i%3])
			_, _ = e.fe.Get(e.ctx, e.keys[i%3], slow)
		}},
		{"Failover.Get", func(e *raceEnv, i int) { _, _ = e.fe.Get(e.ctx, e.keys[i%3], build) }},
		{"Failover.GetFail", func(e *raceEnv, i int) { _, _ = e.fe.Get(e.ctx, e.keys[3], fail) }},
		{"Failover.GetStale", func(e *raceEnv, i int) {
			_ = e.b.Write(cache.WithTTL(e.ctx, -time.Second, false), e.keys[i%3], 5)
			_, _ = e.fe.Get(e.ctx, e.keys[i%3], build)
		}},
		{"FailoverOf.Get", func(e *raceEnv, i int) { _, _ = e.feOf.Get(e.ctx, e.keys[i%3], buildOf) }},
		{"Index.AddLabels", func(e *raceEnv, i int) {
			e.ix.AddLabels([]string{"default", "other", "failing"}[i%3], e.keys[i%4], "l1", "l2", "lf")
		}},
		{"Index.InvalidateFailing", func(e *raceEnv, i int) {
			// the deleter registered under "failing" is down: the error path puts the unprocessed keys back
			e.ix.AddLabels("failing", e.keys[i%4], "lf")
			_, _ = e.ix.InvalidateByLabels(e.ctx, "lf")
		}},
		{"Index.AddCache", func(e *raceEnv, i int) { e.ix.AddCache("other", e.b.Raw().(cache.Deleter)) }},
		{"Index.Invalidate", func(e *raceEnv, i int) { _, _ = e.ix.InvalidateByLabels(e.ctx, "l1", "l2") }},
		{"Invalidator.Invalidate", func(e *raceEnv, i int) { _ = e.inv.Invalidate(e.ctx) }},
		{"Backend.Write", func(e *raceEnv, i int) { _ = e.b.Write(e.ctx, e.keys[i%4], i+1) }},
		{"Backend.ExpireAll", func(e *raceEnv, i int) { e.b.ExpireAll(e.ctx) }},
	}
}

type downDeleter struct{}

func (downDeleter) Delete(context.Context, []byte) error { return errInjected }

func newRaceEnv(kind string, strategy int) *raceEnv {
	keys := NewKeyTable()
	e := &raceEnv{ctx: context.Background()}
	e.b = NewBackend(BCfg{Kind: kind, TTL: time.Hour, Jitter: Rat{1, 10, 0.1}, Strategy: strategy, CSL: 3, EF: Rat{1, 2, 0.5}, DEA: time.Millisecond, Name: "race"}, keys)
	e.bu = NewBackend(BCfg{Kind: kind, TTL: cache.UnlimitedTTL, Jitter: Rat{-1, 1, -1}, Strategy: strategy, DEA: time.Millisecond, Name: "race-unlimited"}, NewKeyTable())
	for i := 0; i < 6; i++ {
		e.keys = append(e.keys, []byte(fmt.Sprintf("race-key-%d", i)))
	}
	for i := 0; i < 4; i++ {
		_ = e.b.Write(e.ctx, e.keys[i], i+1)
	}
	for i := 4; i < 6; i++ {
		_ = e.b.Write(cache.WithTTL(e.ctx, -time.Hour, false), e.keys[i], i+1)
	}
	e.buf = &bytes.Buffer{}
	_, _ = e.b.Dump(e.buf)
	return e
}

// racechild: -profile "<kind>:<strategy>:<group>" runs all pairs of the group's catalogue.
func runRaceChild(o Opts) *Result {
	parts := strings.Split(o.Profile, ":")
	kind := parts[0]
	strategy := 0
	fmt.Sscanf(parts[1], "%d", &strategy)
	group := parts[2]
	ops := backendOps()
	if group == "front" {
		ops = frontOps()
	}
	rng := rand.New(rand.NewSource(o.Seed))
	iters := o.N
	for a := 0; a < len(ops); a++ {
		for b := a; b < len(ops); b++ {
			if o.Tier != "thorough" && rng.Intn(3) == 0 && a != b {
				continue // quick tier: a seeded two thirds of the pairs
			}
			e := newRaceEnv(kind, strategy)
			if group == "front" {
				var bk cache.ReadWriter
				switch kind {
				case "sync":
					bk = e.b.Raw().(*cache.SyncMap)
				default:
					e.b = NewBackend(BCfg{Kind: "sharded", TTL: time.Hour, Jitter: Rat{1, 10, 0.1}, Name: "race"}, NewKeyTable())
					bk = e.b.Raw().(*cache.ShardedMap)
				}
				e.fe = cache.NewFailover(func(c *cache.FailoverConfig) {
					c.Backend = bk
					c.FailedUpdateTTL = time.Millisecond
					c.SyncRead = strategy == 1
				})
				e.feOf = cache.NewFailoverOf[int](func(c *cache.FailoverConfigOf[int]) { c.SyncRead = strategy == 1 })
				e.ix = cache.NewInvalidationIndex(e.b.Raw().(cache.Deleter))
				e.ix.AddCache("failing", downDeleter{})
				e.inv = &cache.Invalidator{SkipInterval: time.Microsecond, Callbacks: []func(context.Context){func(context.Context) {}}}
			}
			var wg sync.WaitGroup
			start := make(chan struct{})
			for _, op := range []raceOp{ops[a], ops[b]} {
				op := op
				for g := 0; g < 2; g++ {
					wg.Add(1)
					go func(g int) {
						defer wg.Done()
						<-start
						for i := 0; i < iters; i++ {
							op.run(e, i+g)
						}
					}(g)
				}
			}
			close(start)
			wg.Wait()
		}
	}
	time.Sleep(20 * time.Millisecond) // let background builds finish
	os.Exit(0)
	return nil
}

var raceFrame = regexp.MustCompile(`^\s+(github\.com/bool64/cache\.[^\s(]*(?:\([^)]*\))?[^\s(]*)\(`)

// parseRaces reduces detector output to signatures "race:<f>|<g>".
func parseRaces(out string) map[string]string {
	res := map[string]string{}
	for _, rep := range strings.Split(out, "==================") {
		if !strings.Contains(rep, "WARNING: DATA RACE") {
			continue
		}
		// the two accessing stacks: "Write at ... by goroutine N:" / "Previous read at ... by goroutine M:"
		var tops []string
		sections := regexp.MustCompile(`(?m)^(?:Previous )?(?:[Rr]ead|[Ww]rite|Atomic [a-z]+) at .*$`).Split(rep, -1)
		for _, sec := range sections[1:] {
			top := ""
			for _, line := range strings.Split(sec, "\n") {
				if strings.HasPrefix(line, "Goroutine ") || strings.HasPrefix(line, "Previous ") {
					break
				}
				t := strings.TrimSpace(line)
				if strings.HasPrefix(t, "github.com/bool64/cache.") && !strings.Contains(t, "verif_hooks") {
					f := t
					if i := strings.Index(f, "("); i >= 0 && strings.HasPrefix(f[i:], "(*") {
						if j := strings.Index(f[i:], ")"); j >= 0 {
							k := strings.Index(f[i+j:], "(")
							if k >= 0 {
								f = f[:i+j+k]
							}
						}
					} else if i >= 0 {
						f = f[:i]
					}
					f = regexp.MustCompile(`\[[^\]]*\]`).ReplaceAllString(f, "")
					f = strings.TrimPrefix(f, "github.com/bool64/cache.")
					top = f
					break
				}
			}
			if top != "" {
				tops = append(tops, top)
			}
			if len(tops) == 2 {
				break
			}
		}
		if len(tops) < 2 {
			if len(tops) == 1 {
				tops = append(tops, "?")
			} else {
				continue
			}
		}
		sort.Strings(tops)
		sig := "race:" + tops[0] + "|" + tops[1]
		if _, ok := res[sig]; !ok {
			if len(rep) > 5000 {
				rep = rep[:5000]
			}
			res[sig] = rep
		}
	}
	return res
}

// classifyBySite is the fallback when the race detector names a function pair the footprint table does not list (frames of
// tiny closures and inlined callers are elided differently from build to build): the report is classified by the racing
// *call site*. A known finding is identified by its call site: F9a = one side is the in-place store to entry.E inside an
// ExpireAll implementation; F9b = one side is PrepareRead's atomic update of entry.C and the other a plain read.
// Anything else stays "unpredicted".
var reRaceSection = regexp.MustCompile(`(?m)^((?:Previous )?(?:[Rr]ead|[Ww]rite|[Aa]tomic [a-z]+)) at .*$`)
var reFrameLoc = regexp.MustCompile(`^\s+(/\S+\.go):(\d+)`)

func classifyBySite(rep string) string {
	idx := reRaceSection.FindAllStringSubmatchIndex(rep, -1)
	type side struct {
		kind, fn, src string
		atomic        bool
	}
	var sides []side
	for n, m := range idx {
		end := len(rep)
		if n+1 < len(idx) {
			end = idx[n+1][0]
		}
		kind := strings.ToLower(strings.TrimPrefix(rep[m[2]:m[3]], "Previous "))
		lines := strings.Split(rep[m[1]:end], "\n")
		sd := side{kind: kind}
		for li, line := range lines {
			if strings.HasPrefix(line, "Goroutine ") {
				break
			}
			t := strings.TrimSpace(line)
			if strings.HasPrefix(t, "sync/atomic.") {
				sd.atomic = true
			}
			if strings.HasPrefix(t, "github.com/bool64/cache.") && !strings.Contains(t, "verif_hooks") && li+1 < len(lines) {
				if fm := reFrameLoc.FindStringSubmatch(lines[li+1]); fm != nil {
					sd.fn = t
					if b, err := os.ReadFile(fm[1]); err == nil {
						var ln int
						fmt.Sscan(fm[2], &ln)
						if sl := strings.Split(string(b), "\n"); ln >= 1 && ln <= len(sl) {
							sd.src = sl[ln-1]
						}
					}
				}
				break
			}
		}
		sides = append(sides, sd)
		if len(sides) == 2 {
			break
		}
	}
	if len(sides) < 2 {
		return ""
	}
	reEStore := regexp.MustCompile(`\.E\s*=[^=]`)
	reCUpd := regexp.MustCompile(`atomic\.(AddInt64|StoreInt64)\(&\w+\.C\b`)
	for i, sd := range sides {
		other := sides[1-i]
		if sd.kind == "write" && !sd.atomic && strings.Contains(sd.fn, "ExpireAll") && reEStore.MatchString(sd.src) {
			return "entryE"
		}
		// F9b is PrepareRead's atomic counter update against the plain struct copies of Walk / Dump / the entry accessors -
		// a plain read of C anywhere else is a different race
		if sd.atomic && reCUpd.MatchString(sd.src) && other.kind == "read" && !other.atomic &&
			(strings.Contains(other.fn, ").Walk") || strings.Contains(other.fn, ").Dump") || strings.Contains(other.fn, "TraitEntry).") || strings.Contains(other.fn, "TraitEntryOf[")) {
			return "entryC"
		}
	}
	return ""
}

func runRace(o Opts) *Result {
	res := &Result{Rule: "every unordered pair (self-pairs included; quick tier: a seeded two thirds) of a 15-op backend catalogue on each of the three backends under the " +
		"default and the LFU strategy, and of a 12-op frontend catalogue (Failover, FailoverOf, InvalidationIndex, Invalidator, backend batch ops), 4 goroutines per pair, " +
		"in child processes built with -race; a report is reduced to the two accessing functions of package cache; " +
		"non-trivial = a child that completed all its pairs; distinct = distinct child configurations"}
	self, _ := os.Executable()
	// the model's prediction: unprotected conflicting pairs of the footprint table
	predicted := map[string]string{} // signature -> location
	if d, err := StartDriver(o.Driver); err == nil {
		for _, f := range strings.Fields(d.Ask("fp racy")) {
			if i := strings.Index(f, ":"); i > 0 {
				predicted[f[i+1:]] = f[:i]
			}
		}
		d.Close()
	} else {
		infra("%v", err)
	}
	iters := 150
	if o.Tier == "thorough" {
		iters = 1500
	}
	type job struct{ profile string }
	var jobs []job
	for _, kind := range kinds {
		for _, st := range []int{0, 2} {
			jobs = append(jobs, job{fmt.Sprintf("%s:%d:backend", kind, st)})
		}
	}
	jobs = append(jobs, job{"sharded:0:front"}, job{"sync:1:front"})
	all := map[string]string{}
	where := map[string]string{}
	var mu sync.Mutex
	var wg sync.WaitGroup
	sem := make(chan struct{}, 8)
	for _, j := range jobs {
		j := j
		wg.Add(1)
		sem <- struct{}{}
		go func() {
			defer wg.Done()
			defer func() { <-sem }()
			dir, _ := os.MkdirTemp(filepath.Dir(o.Out), "race")
			defer os.RemoveAll(dir)
			cmd := exec.Command(self, "racechild", "-profile", j.profile, "-n", fmt.Sprint(iters), "-seed", fmt.Sprint(o.Seed), "-tier", o.Tier)
			cmd.Env = append(os.Environ(), "GORACE=halt_on_error=0 history_size=3 log_path="+filepath.Join(dir, "r"))
			var stderr bytes.Buffer
			cmd.Stderr = &stderr
			err := cmd.Run()
			out := ""
			logs, _ := filepath.Glob(filepath.Join(dir, "r.*"))
			for _, l := range logs {
				b, _ := os.ReadFile(l)
				out += string(b)
			}
			mu.Lock()
			defer mu.Unlock()
			res.Evaluations++
			res.count("child:" + j.profile)
			crashed := err != nil && !strings.Contains(err.Error(), "exit status 66")
			if ee, ok := err.(*exec.ExitError); ok && ee.ExitCode() == 66 {
				crashed = false // the race detector's exit code when races were reported
			}
			if crashed {
				res.Violations = append(res.Violations, Violation{Property: "C16", Kind: "crash", Sig: "race:crash:" + j.profile,
					Detail: fmt.Sprintf("child %s ended with %v (runtime fault such as concurrent map access?)\n%s", j.profile, err, tailStr(stderr.String(), 1500)),
					Replay: map[string]interface{}{"rerun": "GORACE=halt_on_error=0 harness_race racechild -profile " + j.profile}})
				return
			}
			res.TracesValidated++
			for sig, rep := range parseRaces(out) {
				if _, ok := all[sig]; !ok {
					all[sig] = rep
					where[sig] = j.profile
				}
			}
		}()
	}
	wg.Wait()
	sigs := []string{}
	for s := range all {
		sigs = append(sigs, s)
	}
	sort.Strings(sigs)
	for _, sig := range sigs {
		// a report the footprint model predicts is classified by the racing location; anything else is a disagreement
		// between model and implementation AND a race: reported as unpredicted
		cls := "unpredicted"
		if loc, ok := predicted[sig]; ok {
			cls = loc
		} else if loc := classifyBySite(all[sig]); loc != "" {
			cls = loc
			res.count("race-classified-by-call-site:" + strings.TrimPrefix(sig, "race:"))
		}
		res.count("race-class:" + cls)
		res.Violations = append(res.Violations, Violation{Property: "C16", Kind: "monitor", Sig: "race:" + cls + ":" + strings.TrimPrefix(sig, "race:"),
			Detail: "data race reported by the Go race detector between " + strings.TrimPrefix(sig, "race:") + " (footprint model: " + cls + ")",
			Replay: map[string]interface{}{"engine": "race", "child": where[sig], "detector_report": all[sig],
				"rerun_child": "GORACE=halt_on_error=0 <harness built with -race> racechild -profile " + where[sig] + " -n 1500 -tier thorough"}})
	}
	res.DistinctNontrivial = res.TracesValidated
	res.Samples = append(res.Samples, map[string]interface{}{"children": len(jobs), "iterations_per_pair": iters, "race_signatures": sigs, "model_predicts": len(predicted)})
	return res
}

func tailStr(s string, n int) string {
	if len(s) > n {
		return s[len(s)-n:]
	}
	return s
}
