package main

import (
	"context"
	"errors"
	"fmt"
	"hash/fnv"
	"math/rand"
	"sort"
	"strings"
	"sync"
	"sync/atomic"
	"time"

	"github.com/bool64/cache"
)

// E4: free-running goroutines on a real backend; invocation / response stamps from one atomic counter; per-slot histories
// are judged by the Lean linearizability checker (sequential specification = the proved backend model).

func init() { engines["linz"] = runLinz }

type lzEvent struct {
	id       int
	op       string // w:k:v:e | r:k | d:k | xa | da | cl
	res      string
	inv, ret int64
	keys     []int // keys (slots) the event belongs to; nil = every slot
}

func runLinz(o Opts) *Result {
	res := &Result{Rule: "2-8 free-running goroutines issuing random Write (fresh / long expired) / Read / Delete / ExpireAll / DeleteAll / cleanup-cycle mixes over " +
		"3 plain keys and a pair of xxhash64-colliding keys, three backends, default / LRU / LFU; every slot's history is checked by the Lean WGL checker; " +
		"a concurrent Walk must report only stored values and each untouched entry exactly once; non-trivial = a history with at least two overlapping operations on one slot; " +
		"distinct by hash of the judged histories"}
	d, err := StartDriver(o.Driver)
	if err != nil {
		infra("%v", err)
	}
	defer d.Close()
	uniq := map[uint64]bool{}
	walkStrictE = false
	ctx := context.Background()
	for idx := 0; idx < o.N; idx++ {
		if timeUp() {
			break
		}
		if o.Only >= 0 && idx != o.Only {
			continue
		}
		rng := rand.New(rand.NewSource(o.Seed*9176 + int64(idx)*37))
		kind := kinds[idx%3]
		if o.Profile == "c09pair" {
			kind = []string{"sharded", "shardedOf"}[idx%2] // (SyncMap keys entries by the key itself: no collisions)
		}
		strategy := rng.Intn(3)
		stress := o.Profile == "c08cleanup"
		if stress {
			kind = []string{"sync", "shardedOf", "sharded", "shardedOf"}[idx%4]
		}
		keysT := NewKeyTable()
		stats := NewStats()
		b := NewBackend(BCfg{Kind: kind, TTL: cache.UnlimitedTTL, Jitter: Rat{-1, 1, -1}, Strategy: strategy, DEA: 30 * time.Minute, Name: "lz", Stats: stats}, keysT)
		// key 1..3 plain, 4/5 a colliding pair (one slot on the sharded maps), 6/7 stable entries nobody touches
		k64 := make([]byte, 64)
		rng.Read(k64)
		keyBytes := [][]byte{nil, []byte("lz-a"), []byte("lz-b"), []byte(""), k64, CollidingTwin(k64, rng), []byte("stable-1"), []byte("stable-2")}
		slotOf := func(k int) int {
			if k == 5 && kind != "sync" {
				return 4
			}
			return k
		}
		_ = b.Write(ctx, keyBytes[6], 900)
		_ = b.Write(ctx, keyBytes[7], 901)
		// filler entries, written once and never touched again except by the batch operations: several per shard
		nFill := 0
		if idx%2 == 0 && o.Profile != "c09pair" {
			nFill = 400
		}
		for i := 0; i < nFill; i++ {
			_ = b.Write(ctx, []byte(fmt.Sprintf("filler-%d", i)), 1000+i)
		}
		var daDone int64 // response stamp of the first completed DeleteAll (0 = none yet)
		res.count("scenarios")
		res.count("backend:" + kind)
		var ctr int64
		var mu sync.Mutex
		var events []lzEvent
		nextID := 0
		record := func(e lzEvent) {
			mu.Lock()
			nextID++
			e.id = nextID
			events = append(events, e)
			mu.Unlock()
		}
		written := map[int]map[int]bool{} // key -> values ever written (Walk provenance)
		for k := 1; k <= 7; k++ {
			written[k] = map[int]bool{}
		}
		written[6][900], written[7][901] = true, true
		nG := 2 + rng.Intn(7)
		nOps := 2 + rng.Intn(4)
		if o.Profile == "c09pair" {
			nG, nOps = 2+rng.Intn(3), 4+rng.Intn(5)
		}
		type plan struct {
			kind string
			k, v int
			exp  bool
		}
		plans := make([][]plan, nG)
		val := 0
		for g := 0; g < nG; g++ {
			for i := 0; i < nOps; i++ {
				p := plan{k: 1 + rng.Intn(5)}
				if o.Profile == "c09pair" {
					// the colliding pair only, many deletes and writes of both twins: an operation on one key of the pair must
					// never act on the entry of the other, whatever happens between its key check and its removal
					p.k = 4 + rng.Intn(2)
					switch x := rng.Intn(20); {
					case x < 7:
						val++
						p.kind, p.v = "w", val
						written[p.k][p.v] = true
					case x < 16:
						p.kind = "d"
					default:
						p.kind = "r"
					}
					plans[g] = append(plans[g], p)
					continue
				}
				if o.Profile == "c18del" {
					// one key, many concurrent deletes, no batch operations: every successful delete must remove a stored entry
					p.k = 1
					switch x := rng.Intn(10); {
					case x < 3:
						val++
						p.kind, p.v = "w", val
						written[p.k][p.v] = true
					case x < 9:
						p.kind = "d"
					default:
						p.kind = "r"
					}
					plans[g] = append(plans[g], p)
					continue
				}
				if stress {
					// ancient entries, cleanup cycles and fresh rewrites of the same key, then reads
					p.k = 1
					switch x := rng.Intn(10); {
					case x < 3:
						val++
						p.kind, p.v, p.exp = "w", val, true
						written[p.k][p.v] = true
					case x < 5:
						val++
						p.kind, p.v, p.exp = "w", val, false
						written[p.k][p.v] = true
					case x < 8:
						p.kind = "cl"
					default:
						p.kind = "r"
					}
					plans[g] = append(plans[g], p)
					continue
				}
				switch x := rng.Intn(20); {
				case x < 7:
					val++
					p.kind, p.v, p.exp = "w", val, rng.Intn(3) == 0
					written[p.k][p.v] = true
				case x < 14:
					p.kind = "r"
				case x < 17:
					p.kind = "d"
				case x < 18:
					p.kind = "xa"
				case x < 19:
					p.kind = "da"
				default:
					p.kind = "cl"
				}
				plans[g] = append(plans[g], p)
			}
		}
		hasDA := false
		for _, ps := range plans {
			for _, p := range ps {
				if p.kind == "da" {
					hasDA = true
				}
			}
		}
		stop := make(chan struct{})
		var walkErr atomic.Value
		var wg, wwg sync.WaitGroup
		wwg.Add(1)
		go func() { // concurrent Walk monitor: every reported entry is a read of that key at the moment the iteration produced it
			defer wwg.Done()
			walks := 0
			for {
				select {
				case <-stop:
					return
				default:
				}
				if walks >= 2 {
					time.Sleep(20 * time.Microsecond)
					continue
				}
				walks++
				seen := map[string]int{}
				prev := atomic.AddInt64(&ctr, 1)
				b.WalkCB(func(e EntryObs) {
					ret := atomic.AddInt64(&ctr, 1)
					seen[e.Key]++
					if strings.HasPrefix(e.Key, "filler-") {
						if d := atomic.LoadInt64(&daDone); d != 0 && d < prev {
							walkErr.Store(fmt.Sprintf("Walk reported %s although a DeleteAll had completed (stamp %d) before the iteration reached it (stamp %d) and nothing re-wrote it", e.Key, d, prev))
						}
					}
					for k := 1; k <= 7; k++ {
						if string(keyBytes[k]) != e.Key {
							continue
						}
						if !written[k][e.V] {
							walkErr.Store(fmt.Sprintf("Walk reported value %d for key k%d that was never written for it", e.V, k))
						}
						if k <= 5 {
							r := fmt.Sprintf("hit:%d", e.V)
							if e.E != 0 {
								r = fmt.Sprintf("exp:%d", e.V)
							}
							record(lzEvent{op: fmt.Sprintf("r:%d", k), res: r, inv: prev, ret: ret, keys: []int{k}})
						}
					}
					prev = atomic.AddInt64(&ctr, 1)
				})
				for _, k := range []int{6, 7} {
					if !hasDA && seen[string(keyBytes[k])] != 1 {
						walkErr.Store(fmt.Sprintf("Walk visited the untouched entry k%d %d times", k, seen[string(keyBytes[k])]))
					}
				}
				res.count("walks")
			}
		}()
		start := make(chan struct{})
		for g := 0; g < nG; g++ {
			g := g
			wg.Add(1)
			go func() {
				defer wg.Done()
				<-start
				for _, p := range plans[g] {
					e := lzEvent{}
					key := keyBytes[p.k]
					switch p.kind {
					case "w":
						c := ctx
						if p.exp {
							c = cache.WithTTL(ctx, -time.Hour, false)
						}
						e.op = fmt.Sprintf("w:%d:%d:%d", p.k, p.v, map[bool]int{true: 1, false: 0}[p.exp])
						e.keys = []int{p.k}
						e.inv = atomic.AddInt64(&ctr, 1)
						_ = b.Write(c, key, p.v)
						e.ret = atomic.AddInt64(&ctr, 1)
						e.res = "unit"
					case "r":
						e.op = fmt.Sprintf("r:%d", p.k)
						e.keys = []int{p.k}
						e.inv = atomic.AddInt64(&ctr, 1)
						v, err := b.Read(ctx, key)
						e.ret = atomic.AddInt64(&ctr, 1)
						switch {
						case err == nil:
							e.res = fmt.Sprintf("hit:%d", v)
						case errors.Is(err, cache.ErrNotFound):
							e.res = "miss"
						default:
							if ev, _, ok := b.Expired(err); ok {
								e.res = fmt.Sprintf("exp:%d", ev)
							} else {
								e.res = "hit:999999" // an error the specification never produces
							}
						}
					case "d":
						e.op = fmt.Sprintf("d:%d", p.k)
						e.keys = []int{p.k}
						e.inv = atomic.AddInt64(&ctr, 1)
						err := b.Delete(ctx, key)
						e.ret = atomic.AddInt64(&ctr, 1)
						if err == nil {
							e.res = "ok"
						} else {
							e.res = "nf"
						}
					case "xa":
						e.op, e.res = "xa", "unit"
						e.inv = atomic.AddInt64(&ctr, 1)
						b.ExpireAll(ctx)
						e.ret = atomic.AddInt64(&ctr, 1)
					case "da":
						e.op, e.res = "da", "unit"
						e.inv = atomic.AddInt64(&ctr, 1)
						b.DeleteAll(ctx)
						e.ret = atomic.AddInt64(&ctr, 1)
						atomic.CompareAndSwapInt64(&daDone, 0, e.ret)
					case "cl":
						e.op, e.res = "cl", "unit"
						e.inv = atomic.AddInt64(&ctr, 1)
						b.Cleanup()
						e.ret = atomic.AddInt64(&ctr, 1)
					}
					record(e)
				}
			}()
		}
		close(start)
		wg.Wait()
		close(stop)
		wwg.Wait()
		res.TracesValidated++
		fail := func(prop, sig, detail string, hist string) {
			var also []string
			if sig == "cleanup-deleted-live-entry" {
				also = []string{"C11"}
			}
			if strings.Contains(detail, "[slot of the colliding pair]") {
				also = append(also, "C09") // (an operation on one key of the pair acted on the entry of the other)
			}
			res.Violations = append(res.Violations, Violation{Property: prop, Also: also, Kind: "monitor", Sig: "linz:" + sig + ":" + kind, Detail: detail,
				Replay: map[string]interface{}{"engine": "linz", "seed": o.Seed, "index": idx, "backend": kind, "strategy": strategy, "history": hist,
					"note":  "free-running schedule: re-running the same seed may interleave differently; the history above is the witness",
					"rerun": fmt.Sprintf("harness linz -profile c08 -seed %d -only %d", o.Seed, idx)}})
		}
		if w := walkErr.Load(); w != nil {
			fail("C08", "walk", w.(string), "")
		}
		// C18 under concurrency: without batch deletions, cache_delete counts exactly the Deletes that reported success
		okDeletes, batch := 0, false
		for _, e := range events {
			if strings.HasPrefix(e.op, "d:") && e.res == "ok" {
				okDeletes++
			}
			if e.op == "da" || e.op == "cl" {
				batch = true
			}
		}
		if !batch && stats.Get(cache.MetricDelete, "lz") != okDeletes {
			fail("C18", "delete-metric", fmt.Sprintf("%d Delete calls reported success but cache_delete=%d", okDeletes, stats.Get(cache.MetricDelete, "lz")), "")
		}
		// … and no key can have more entries counted as deleted than were ever stored for it
		if !batch {
			wr, dl := map[int]int{}, map[int]int{}
			for _, e := range events {
				if strings.HasPrefix(e.op, "w:") {
					wr[e.keys[0]]++
				}
				if strings.HasPrefix(e.op, "d:") && e.res == "ok" {
					dl[e.keys[0]]++
				}
			}
			for k, n := range dl {
				// colliding keys share a slot: a write of the twin also ends this key's entry, never adds one
				if n > wr[k] {
					fail("C18", "delete-overcount", fmt.Sprintf("key k%d: %d entries were ever stored but %d deletes succeeded and were counted (cache_delete=%d)", k, wr[k], n, stats.Get(cache.MetricDelete, "lz")), "")
				}
			}
		}
		nWrites := 2 + nFill
		for _, e := range events {
			if strings.HasPrefix(e.op, "w:") {
				nWrites++
			}
		}
		if stats.Get(cache.MetricWrite, "lz") != nWrites {
			fail("C18", "write-metric", fmt.Sprintf("%d Writes but cache_write=%d", nWrites, stats.Get(cache.MetricWrite, "lz")), "")
		}
		// judge each slot
		slots := map[int]bool{}
		for k := 1; k <= 5; k++ {
			slots[slotOf(k)] = true
		}
		slotIDs := []int{}
		for s := range slots {
			slotIDs = append(slotIDs, s)
		}
		sort.Ints(slotIDs)
		// DeleteAll/ExpireAll do not touch the stable entries' slots here (they do in reality; the stable keys are
		// excluded from batch-op scenarios): only scenarios without batch ops check the stable entries through Walk
		// values written with a ttl of -1h: born long expired, no linearization lets a Read return them as a hit
		bornExpired := map[string]bool{}
		for _, e := range events {
			if f := strings.Split(e.op, ":"); len(f) == 4 && f[0] == "w" && f[3] == "1" {
				bornExpired[f[2]] = true
			}
		}
		for _, slot := range slotIDs {
			var evs []string
			overlap := false
			var sel []lzEvent
			for _, e := range events {
				in := e.keys == nil
				for _, k := range e.keys {
					if slotOf(k) == slot {
						in = true
					}
				}
				if in && strings.HasPrefix(e.op, "r:") && strings.HasPrefix(e.res, "hit:") && bornExpired[strings.TrimPrefix(e.res, "hit:")] {
					// known finding F9a in its semantic form: ExpireAll stamps entry.E in place; a Read that took its clock reading
					// before the stamp and loads E after it sees "expires in the future" and returns the long-expired value as a
					// hit. Recognised by exactly this shape (the read overlaps an ExpireAll); the read is taken out of the history,
					// the rest is judged as usual. The same result WITHOUT an overlapping ExpireAll stays in and fails the history.
					during := false
					for _, x := range events {
						if x.op == "xa" && x.inv < e.ret && e.inv < x.ret {
							during = true
						}
					}
					if during {
						fail("C08", "read-fresh-during-expireall", fmt.Sprintf("Read of k%d returned value %s as a hit although that entry was written with a ttl of -1h; the Read [%d,%d] overlaps an ExpireAll, which rewrites the expiry of the stored entry in place while the Read compares it with a clock reading taken earlier", e.keys[0], strings.TrimPrefix(e.res, "hit:"), e.inv, e.ret), "")
						continue
					}
				}
				if in {
					sel = append(sel, e)
				}
			}
			for i, e := range sel {
				evs = append(evs, fmt.Sprintf("%d;%s;%s;%d;%d", e.id, e.op, e.res, e.inv, e.ret))
				for _, f := range sel[:i] {
					if e.inv < f.ret && f.inv < e.ret {
						overlap = true
					}
				}
			}
			if len(evs) == 0 {
				continue
			}
			res.count("slot-histories")
			res.Evaluations++ // the unit that is judged is one slot history
			res.countN("events", len(evs))
			hist := strings.Join(evs, " ")
			r := d.Ask("lz check - " + hist)
			if r == "inconclusive" {
				// the bounded search gave up on this history (node budget): no verdict, counted, never an alarm
				res.count("slot-histories-inconclusive")
				continue
			}
			if strings.HasPrefix(r, "notlin") {
				sig, extra := "not-linearizable", ""
				if strings.Contains(r, "cleanup-deleted-live-entry") {
					sig = "cleanup-deleted-live-entry"
					extra = " — it becomes linearizable only if a cleanup cycle is allowed to delete an entry that was not long expired at any instant of the cycle (a write lost to a check-then-delete race)"
				}
				if len(slotKeys(slot, kind)) > 1 {
					extra += " [slot of the colliding pair]"
				}
				fail("C08", sig, fmt.Sprintf("the history of slot %d (keys %v) admits no linearization w.r.t. the sequential backend model%s", slot, slotKeys(slot, kind), extra), hist)
			} else if overlap {
				h := fnv.New64a()
				h.Write([]byte(hist))
				uniq[h.Sum64()] = true
			}
			if len(res.Samples) < 2 && overlap {
				res.Samples = append(res.Samples, map[string]interface{}{"backend": kind, "slot": slot, "history": hist, "verdict": r})
			}
		}
		if res.full() {
			break
		}
	}
	res.DistinctNontrivial = len(uniq)
	return res
}

func slotKeys(slot int, kind string) []int {
	if slot == 4 && kind != "sync" {
		return []int{4, 5}
	}
	return []int{slot}
}
