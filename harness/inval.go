package main

import (
	"context"
	"errors"
	"fmt"
	"hash/fnv"
	"math/rand"
	"sort"
	"strings"
	"sync"
	"time"

	"github.com/bool64/cache"
)

// E6: InvalidationIndex (profile c15) and Invalidator (profile c17).

func init() { engines["inval"] = runInval }

func runInval(o Opts) *Result {
	switch o.Profile {
	case "c15":
		return runC15(o)
	case "c17":
		return runC17(o)
	}
	infra("inval: unknown profile %q", o.Profile)
	return nil
}

var errInjected = errors.New("injected deleter failure")

// ---------------------------------------------------------------------------------------------------- C15

type ixOp struct {
	Kind   string // addlabels | put | inval
	Name   int
	Key    int
	Labels []int
	Did    int
	Fault  int  // inval: relative index of the failing delete call (-1 none)
	Mid    bool // inval: AddLabels of a fresh key to Labels[0] from inside the failing delete (monitor only)
	Panic  bool // inval: the failing deleter does not return an error, it panics (the caller recovers)
	Retry  bool
}

func (o ixOp) String() string {
	switch o.Kind {
	case "addlabels":
		return fmt.Sprintf("AddLabels(n%d,k%d,%v)", o.Name, o.Key, o.Labels)
	case "put":
		return fmt.Sprintf("put(c%d,k%d)", o.Did, o.Key)
	}
	s := fmt.Sprintf("Invalidate(%v,fault@%d", o.Labels, o.Fault)
	if o.Mid {
		s += ",addlabels-inside-delete"
	}
	if o.Panic {
		s += ",deleter-panics"
	}
	if o.Retry {
		s += ",then-retry"
	}
	return s + ")"
}

type ixScenario struct {
	Names  int
	Caches [][]string // per name (1-based index-1): backend kinds of its deleters
	Ops    []ixOp
	// Embedded != "": the index under test is the one EMBEDDED in a backend of this kind (ShardedMap, SyncMap and
	// ShardedMapOf each create an InvalidationIndex with themselves registered under "default"); no deleter can be made to
	// fail there, labels are added through AddInvalidationLabels
	Embedded string
}

func (s ixScenario) opsString() string {
	p := make([]string, len(s.Ops))
	for i, o := range s.Ops {
		p[i] = o.String()
	}
	return strings.Join(p, " ")
}

func genIx(seed int64, idx int, tier string) ixScenario {
	rng := rand.New(rand.NewSource(seed*7777 + int64(idx)*131 + 5))
	sc := ixScenario{Names: 1 + rng.Intn(2)}
	if idx%5 == 3 {
		sc.Embedded = kinds[(idx/5)%3]
		sc.Names = 1
	}
	for n := 0; n < sc.Names; n++ {
		var ks []string
		for c := 0; c < 1+rng.Intn(2); c++ {
			ks = append(ks, kinds[rng.Intn(3)])
		}
		if sc.Embedded != "" {
			ks = []string{sc.Embedded}
		}
		sc.Caches = append(sc.Caches, ks)
	}
	nKeys, nLabels := 2+rng.Intn(4), 1+rng.Intn(3)
	did := func(n int) int { // a deleter id of name n
		base := 0
		for i := 0; i < n-1; i++ {
			base += len(sc.Caches[i])
		}
		return base + 1 + rng.Intn(len(sc.Caches[n-1]))
	}
	nOps := 6 + rng.Intn(14)
	if tier == "thorough" {
		nOps += rng.Intn(20)
	}
	for i := 0; i < nOps; i++ {
		n := 1 + rng.Intn(sc.Names)
		switch x := rng.Intn(10); {
		case x < 4:
			var ls []int
			for j := 0; j < 1+rng.Intn(2); j++ {
				ls = append(ls, 1+rng.Intn(nLabels))
			}
			sc.Ops = append(sc.Ops, ixOp{Kind: "addlabels", Name: n, Key: 1 + rng.Intn(nKeys), Labels: ls})
		case x < 7:
			sc.Ops = append(sc.Ops, ixOp{Kind: "put", Did: did(n), Key: 1 + rng.Intn(nKeys)})
		default:
			var ls []int
			for j := 0; j < 1+rng.Intn(3); j++ {
				ls = append(ls, 1+rng.Intn(nLabels+1)) // may name an unknown label, may repeat
			}
			op := ixOp{Kind: "inval", Labels: ls, Fault: -1}
			if rng.Intn(2) == 0 && sc.Embedded == "" {
				op.Fault = rng.Intn(6)
				op.Retry = rng.Intn(3) != 0
				op.Mid = rng.Intn(4) == 0
				op.Panic = !op.Mid && rng.Intn(4) == 0
			}
			sc.Ops = append(sc.Ops, op)
		}
	}
	return sc
}

type ixDeleter struct {
	inner Backend
	did   int
	run   *ixRun
}

type ixRun struct {
	calls    int
	callLog  []int    // did per call
	keyLog   []string // key per call
	outLog   []int    // outcome per call: 0 removed, 1 not found, 2 injected failure, 3 other error
	faults   map[int]bool
	panics   bool // a fault is a panic, not an error
	midHook  func()
	midFired bool
}

func (d *ixDeleter) Delete(ctx context.Context, key []byte) error {
	idx := d.run.calls
	d.run.calls++
	d.run.callLog = append(d.run.callLog, d.did)
	d.run.keyLog = append(d.run.keyLog, string(key))
	if d.run.faults[idx] {
		d.run.outLog = append(d.run.outLog, 2)
		if d.run.midHook != nil && !d.run.midFired {
			d.run.midFired = true
			d.run.midHook()
		}
		if d.run.panics {
			panic(errInjected)
		}
		return errInjected
	}
	err := d.inner.Delete(ctx, key)
	switch {
	case err == nil:
		d.run.outLog = append(d.run.outLog, 0)
	case errors.Is(err, cache.ErrNotFound):
		d.run.outLog = append(d.run.outLog, 1)
	default:
		d.run.outLog = append(d.run.outLog, 3)
	}
	return err
}

func keyBytes(k int) []byte {
	switch k {
	case 1:
		return []byte("")
	case 2:
		return []byte{0, 255, 10}
	}
	return []byte(fmt.Sprintf("key-%d", k))
}

func joinInts(l []int) string {
	if len(l) == 0 {
		return "-"
	}
	p := make([]string, len(l))
	for i, x := range l {
		p[i] = fmt.Sprint(x)
	}
	return strings.Join(p, ",")
}

var nameStr = []string{"", "default", "other"}

func runIxScenario(d *Driver, id string, sc ixScenario, res *Result) *seqFail {
	ctx := context.Background()
	ix := cache.NewInvalidationIndex()
	d.Ask("ix new " + id)
	run := &ixRun{faults: map[int]bool{}}
	keys := NewKeyTable()
	var backs []Backend // by did-1
	didName := map[int]int{}
	for n := 1; n <= sc.Names; n++ {
		for _, kind := range sc.Caches[n-1] {
			b := NewBackend(BCfg{Kind: kind, TTL: cache.UnlimitedTTL, Jitter: Rat{-1, 1, -1}, Name: "ix"}, keys)
			backs = append(backs, b)
			did := len(backs)
			didName[did] = n
			if sc.Embedded != "" {
				ix = b.Index() // (the constructor registered the cache itself under "default")
				if ix == nil {
					return &seqFail{"monitor", "C15", "inval:no-embedded-index", "the " + kind + " backend was constructed without its invalidation index", 0, nil}
				}
			} else {
				ix.AddCache(nameStr[n], &ixDeleter{inner: b, did: did, run: run})
			}
			d.Ask(fmt.Sprintf("ix addcache %s %d %d", id, n, did))
		}
	}
	// shadow of what was labelled and is still owed a removal (monitor's own bookkeeping): a key leaves a label's set when an
	// invalidation naming the label returns nil, or when a failing invalidation naming the label completed the key (every deleter
	// of its name was asked to delete it and none failed: "not yet deleted" in the property's second sentence no longer applies).
	// maybe holds the keys that left by the second route: an implementation may keep them indexed until the whole call
	// succeeds, so removing them later is tolerated by the precision monitor, but completeness no longer demands it.
	shadow := map[int]map[int]map[int]bool{} // name -> label -> keys
	maybe := map[int]map[int]map[int]bool{}
	freshKey := 100

	contents := func() map[int]map[int]bool {
		m := map[int]map[int]bool{}
		for i, b := range backs {
			m[i+1] = map[int]bool{}
			for _, e := range b.Walk() {
				for k := 1; k < 200; k++ {
					if string(keyBytes(k)) == e.Key {
						m[i+1][k] = true
						break
					}
				}
			}
		}
		return m
	}
	implDump := func() string {
		dump := ix.VerifDump()
		var names []string
		for n := 1; n <= sc.Names; n++ {
			lk := dump[nameStr[n]]
			var ls []string
			labels := []int{}
			for l := range lk {
				var li int
				fmt.Sscanf(l, "L%d", &li)
				labels = append(labels, li)
			}
			sort.Ints(labels)
			for _, li := range labels {
				ks := []int{}
				for _, k := range lk[fmt.Sprintf("L%d", li)] {
					for kk := 1; kk < 200; kk++ {
						if string(keyBytes(kk)) == k {
							ks = append(ks, kk)
							break
						}
					}
				}
				if len(ks) == 0 {
					continue
				}
				sort.Ints(ks)
				ls = append(ls, fmt.Sprintf("%d=%s", li, joinInts(ks)))
			}
			if len(ls) > 0 {
				names = append(names, fmt.Sprintf("%d:[%s]", n, strings.Join(ls, ";")))
			}
		}
		c := contents()
		var cs []string
		for did := 1; did <= len(backs); did++ {
			ks := []int{}
			for k := range c[did] {
				ks = append(ks, k)
			}
			sort.Ints(ks)
			cs = append(cs, fmt.Sprintf("%d:%s", did, joinInts(ks)))
		}
		return "idx " + strings.Join(names, " ") + " | caches " + strings.Join(cs, " ")
	}
	modelDump := func() string {
		// the model lists only caches it has seen; normalise by listing all deleters
		md := d.Ask("ix dump " + id)
		parts := strings.SplitN(md, " | caches ", 2)
		have := map[string]string{}
		for _, f := range strings.Fields(parts[1]) {
			kv := strings.SplitN(f, ":", 2)
			have[kv[0]] = kv[1]
		}
		var cs []string
		for did := 1; did <= len(backs); did++ {
			v, ok := have[fmt.Sprint(did)]
			if !ok {
				v = "-"
			}
			cs = append(cs, fmt.Sprintf("%d:%s", did, v))
		}
		return parts[0] + " | caches " + strings.Join(cs, " ")
	}

	midUsed := false
	var firstCorr *seqFail // a model/implementation disagreement is remembered; the scenario continues under the monitors alone
	invalidate := func(i int, op ixOp, faultAbs int, mid bool) (fail *seqFail, failed bool) {
		labels := make([]string, len(op.Labels))
		for j, l := range op.Labels {
			labels[j] = fmt.Sprintf("L%d", l)
		}
		before := contents()
		run.faults = map[int]bool{}
		if faultAbs >= 0 {
			run.faults[faultAbs] = true
		}
		run.midFired = false
		run.midHook = nil
		run.panics = op.Panic && faultAbs >= 0
		var midKeys []int
		if mid {
			for j := 0; j < 3; j++ {
				freshKey++
				midKeys = append(midKeys, freshKey)
			}
			run.midHook = func() {
				// concurrent-looking AddLabels calls while the invalidation is inside a deleter: three new keys are written to
				// every cache of every name and labelled, one call each, with the first label under every name (several calls:
				// a key list that aliases the one being iterated is overwritten beyond the position already visited)
				for _, mk := range midKeys {
					for _, b := range backs {
						_ = b.Write(ctx, keyBytes(mk), 1)
					}
					for n := 1; n <= sc.Names; n++ {
						ix.AddLabels(nameStr[n], keyBytes(mk), labels[0])
					}
				}
			}
		}
		callsBefore := run.calls
		logBefore := len(run.callLog)
		var n int
		var err error
		var panicked interface{}
		func() {
			defer func() { panicked = recover() }()
			n, err = ix.InvalidateByLabels(ctx, labels...)
		}()
		if panicked != nil && panicked == interface{}(errInjected) && run.panics {
			// the deleter itself panicked and the caller recovered: to the index this is a failed delete like any other - what
			// was cut and not deleted goes back, a retry after recovery removes it
			err = errInjected
			n = -1 // (no count was returned)
			res.count("inval:deleter-panic-recovered")
		} else if panicked != nil {
			return &seqFail{"monitor", "C15", "inval:panic", fmt.Sprintf("op #%d %s panicked: %v", i, op, panicked), i, nil}, true
		}
		if err != nil && !errors.Is(err, errInjected) {
			return &seqFail{"monitor", "C15", "inval:foreign-error", fmt.Sprintf("op #%d %s returned %v", i, op, err), i, nil}, true
		}
		after := contents()
		removed := 0
		for did := range before {
			for k := range before[did] {
				if !after[did][k] {
					removed++
				}
			}
		}
		if run.midFired {
			// the hook wrote midKey everywhere; none of those writes count as removed/added here
			for did := range after {
				for _, mk := range midKeys {
					if !after[did][mk] {
						return &seqFail{"monitor", "C15", "inval:precision", fmt.Sprintf("op #%d %s: key k%d, labelled while the call was in flight (after its keys were cut), was removed by it", i, op, mk), i, nil}, err != nil
					}
					delete(after[did], mk)
				}
			}
		}
		// monitor: count
		if n != removed && n >= 0 {
			return &seqFail{"monitor", "C15", "inval:count", fmt.Sprintf("op #%d %s: returned count %d but %d cache entries were removed", i, op, n, removed), i, nil}, err != nil
		}
		inL := func(name, k int) bool {
			for _, l := range op.Labels {
				if shadow[name][l][k] {
					return true
				}
			}
			return false
		}
		mayL := func(name, k int) bool {
			for _, l := range op.Labels {
				if maybe[name][l][k] {
					return true
				}
			}
			return false
		}
		// monitor: precision (always) and completeness (on success)
		for did := range before {
			name := didName[did]
			for k := range before[did] {
				if !after[did][k] && !inL(name, k) && !mayL(name, k) {
					return &seqFail{"monitor", "C15", "inval:precision", fmt.Sprintf("op #%d %s: key k%d in cache c%d carries none of the labels but was removed", i, op, k, did), i, nil}, err != nil
				}
			}
			if err == nil {
				for k := range after[did] {
					if inL(name, k) {
						return &seqFail{"monitor", "C15", "inval:completeness", fmt.Sprintf("op #%d %s returned nil but labelled key k%d is still in cache c%d", i, op, k, did), i, nil}, false
					}
				}
			}
		}
		if err == nil {
			for name := range shadow {
				for _, l := range op.Labels {
					delete(shadow[name], l)
					delete(maybe[name], l)
				}
			}
		} else {
			// keys this failing call completed: every deleter of the name answered removed / not found for the key
			for name := range shadow {
				nd := 0
				for _, nn := range didName {
					if nn == name {
						nd++
					}
				}
				for _, l := range op.Labels {
					for k := range shadow[name][l] {
						okDids := map[int]bool{}
						for ci := logBefore; ci < len(run.callLog); ci++ {
							if run.keyLog[ci] == string(keyBytes(k)) && didName[run.callLog[ci]] == name && run.outLog[ci] <= 1 {
								okDids[run.callLog[ci]] = true
							}
						}
						if len(okDids) == nd && nd > 0 {
							for _, l2 := range op.Labels {
								if shadow[name][l2][k] {
									delete(shadow[name][l2], k)
									if maybe[name] == nil {
										maybe[name] = map[int]map[int]bool{}
									}
									if maybe[name][l2] == nil {
										maybe[name][l2] = map[int]bool{}
									}
									maybe[name][l2][k] = true
								}
							}
							res.count("inval:completed-by-failing-call")
						}
					}
				}
			}
		}
		if faultAbs >= 0 && faultAbs < run.calls && err == nil {
			return &seqFail{"monitor", "C15", "inval:error-swallowed", fmt.Sprintf("op #%d %s: delete call %d failed but the call returned nil", i, op, faultAbs-callsBefore), i, nil}, false
		}
		res.count(fmt.Sprintf("inval:err=%v", err != nil))
		if run.midFired {
			if shadow[1] == nil {
				shadow[1] = map[int]map[int]bool{}
			}
			for nn := 1; nn <= sc.Names; nn++ {
				if shadow[nn] == nil {
					shadow[nn] = map[int]map[int]bool{}
				}
				if shadow[nn][op.Labels[0]] == nil {
					shadow[nn][op.Labels[0]] = map[int]bool{}
				}
				for _, mk := range midKeys {
					shadow[nn][op.Labels[0]][mk] = true
				}
			}
			res.count("inval:addlabels-inside-delete")
			midUsed = true
		}
		if midUsed {
			return nil, err != nil // correspondence not compared from here on: the model's invalidation is atomic
		}
		// correspondence with the model: order of names as observed from the delete calls
		order := []int{}
		seenN := map[int]bool{}
		for _, did := range run.callLog[logBefore:] {
			if nn := didName[did]; !seenN[nn] {
				seenN[nn] = true
				order = append(order, nn)
			}
		}
		for nn := 1; nn <= sc.Names; nn++ {
			if !seenN[nn] {
				order = append(order, nn)
			}
		}
		faults := "-"
		if faultAbs >= 0 {
			faults = fmt.Sprint(faultAbs)
		}
		r := d.Ask(fmt.Sprintf("ix inval %s order=%s labels=%s faults=%s", id, joinInts(order), joinInts(op.Labels), faults))
		okb := 1
		if err != nil {
			okb = 0
		}
		impl := fmt.Sprintf("n=%d ok=%d calls=%d", n, okb, run.calls)
		if sc.Embedded != "" {
			// the delete calls of the embedded index go to the cache itself and cannot be counted
			impl = fmt.Sprintf("n=%d ok=%d", n, okb)
			if j := strings.Index(r, " calls="); j >= 0 {
				r = r[:j]
			}
		}
		if n < 0 {
			// the call ended in the deleter's panic: no count came back, the rest is compared
			impl = impl[strings.Index(impl, " ")+1:]
			if j := strings.Index(r, " "); j >= 0 && strings.HasPrefix(r, "n=") {
				r = r[j+1:]
			}
		}
		if r != impl && firstCorr == nil {
			firstCorr = &seqFail{"correspondence", "", "inval:result", fmt.Sprintf("op #%d %s: impl %q model %q", i, op, impl, r), i, nil}
			midUsed = true
		}
		return nil, err != nil
	}

	for i, op := range sc.Ops {
		res.count("op:" + op.Kind)
		switch op.Kind {
		case "addlabels":
			ls := make([]string, len(op.Labels))
			for j, l := range op.Labels {
				ls[j] = fmt.Sprintf("L%d", l)
			}
			buf := keyBytes(op.Key)
			if sc.Embedded != "" && i%2 == 0 {
				ix.AddInvalidationLabels(buf, ls...)
			} else {
				ix.AddLabels(nameStr[op.Name], buf, ls...)
			}
			for j := range buf {
				buf[j] ^= 0x33 // caller reuses the key buffer (C09)
			}
			d.Ask(fmt.Sprintf("ix addlabels %s %d %d %s", id, op.Name, op.Key, joinInts(op.Labels)))
			if shadow[op.Name] == nil {
				shadow[op.Name] = map[int]map[int]bool{}
			}
			for _, l := range op.Labels {
				if shadow[op.Name][l] == nil {
					shadow[op.Name][l] = map[int]bool{}
				}
				shadow[op.Name][l][op.Key] = true
			}
		case "put":
			_ = backs[op.Did-1].Write(ctx, keyBytes(op.Key), 1)
			d.Ask(fmt.Sprintf("ix cacheput %s %d %d", id, op.Did, op.Key))
		case "inval":
			fa := -1
			if op.Fault >= 0 {
				fa = run.calls + op.Fault
			}
			f, failed := invalidate(i, op, fa, op.Mid && fa >= 0)
			if f != nil {
				return f
			}
			if failed {
				res.count("inval:failed-call")
			}
			if failed && op.Retry {
				op2 := op
				op2.Fault = -1
				f, _ = invalidate(i, op2, -1, false)
				if f != nil {
					f.sig += "-after-retry"
					f.detail = "retry after failure: " + f.detail
					return f
				}
				res.count("inval:retry")
			}
		}
		if !midUsed {
			if a, b := implDump(), modelDump(); a != b {
				firstCorr = &seqFail{"correspondence", "", "inval:state", fmt.Sprintf("after op #%d %s: impl %q model %q", i, op, a, b), i, nil}
				midUsed = true
			}
		}
	}
	return firstCorr
}

func runC15(o Opts) *Result {
	res := &Result{Rule: "random incidence structures (1-2 cache names, 1-2 caches per name over the three backends, <=5 keys, <=3 labels, repeated labelling, " +
		"label argument lists with repeats and unknown labels), a deleter failure injected at a random delete position, retries, AddLabels issued from inside a failing delete; " +
		"non-trivial = at least one failing invalidation followed by a retry; distinct by hash of the op list"}
	d, err := StartDriver(o.Driver)
	if err != nil {
		infra("%v", err)
	}
	defer d.Close()
	uniq := map[uint64]bool{}
	nCorr, nMon := 0, 0
	for idx := 0; idx < o.N; idx++ {
		if timeUp() {
			break
		}
		if o.Only >= 0 && idx != o.Only {
			continue
		}
		sc := genIx(o.Seed, idx, o.Tier)
		res.Evaluations++
		before := res.Distribution["inval:retry"]
		f := runIxScenario(d, fmt.Sprintf("x%d", idx), sc, res)
		res.TracesValidated++
		if len(res.Samples) < 3 {
			res.Samples = append(res.Samples, map[string]interface{}{"caches": sc.Caches, "ops": sc.opsString(), "embedded_index_of": sc.Embedded})
		}
		if res.Distribution["inval:retry"] > before {
			h := fnv.New64a()
			h.Write([]byte(sc.opsString()))
			uniq[h.Sum64()] = true
		}
		if f == nil {
			continue
		}
		if f.kind == "correspondence" {
			nCorr++
			if nCorr > 3 {
				continue // keep looking for a scenario on which a monitor fails
			}
		}
		min := sc
		n := 0
		for i := len(min.Ops) - 1; i >= 0; i-- {
			cand := min
			cand.Ops = append(append([]ixOp(nil), min.Ops[:i]...), min.Ops[i+1:]...)
			n++
			if g := runIxScenario(d, fmt.Sprintf("x%dm%d", idx, n), cand, &Result{}); g != nil && g.sig == f.sig {
				min, f = cand, g
			}
		}
		res.Violations = append(res.Violations, Violation{Property: f.prop, Kind: f.kind, Sig: f.sig, Detail: f.detail,
			Replay: map[string]interface{}{"engine": "inval", "profile": "c15", "seed": o.Seed, "index": idx, "caches": min.Caches, "embedded_index_of": min.Embedded,
				"ops": min.opsString(), "original_ops": sc.opsString(), "driver_log_tail": tail(d.Log, 20),
				"rerun": fmt.Sprintf("harness inval -profile c15 -seed %d -only %d", o.Seed, idx)}})
		if f.kind != "correspondence" {
			nMon++
		}
		if nMon >= 3 {
			break
		}
	}
	res.DistinctNontrivial = len(uniq)
	return res
}

// ---------------------------------------------------------------------------------------------------- C17

type cbEvent struct {
	call, idx   int
	enter, exit int64
}

func runC17(o Opts) *Result {
	res := &Result{Rule: "Invalidator scenarios: sequential call sequences with sleeps around SkipInterval (5ms, 50ms, -1, default via 0) and 0-5 callbacks " +
		"(nil, empty and populated slices), compared call by call with the model through clock brackets; concurrent callers (2-8) with slow callbacks checked by the " +
		"block/spacing monitor; non-trivial = a scenario with at least one accepted and one rejected call; distinct by hash of the observed result sequence"}
	d, err := StartDriver(o.Driver)
	if err != nil {
		infra("%v", err)
	}
	defer d.Close()
	uniq := map[uint64]bool{}
	ctx := context.Background()
	for idx := 0; idx < o.N; idx++ {
		if timeUp() {
			break
		}
		if o.Only >= 0 && idx != o.Only {
			continue
		}
		rng := rand.New(rand.NewSource(o.Seed*991 + int64(idx)))
		res.Evaluations++
		skip := []time.Duration{5 * time.Millisecond, 50 * time.Millisecond, -1, 0, 20 * time.Millisecond}[rng.Intn(5)]
		ncb := rng.Intn(6)
		var mu sync.Mutex
		var log []cbEvent
		curCall := 0
		var cancelInCb func()
		inv := &cache.Invalidator{SkipInterval: skip}
		slow := time.Duration(0)
		concurrent := idx%3 == 2
		if concurrent {
			slow = time.Duration(rng.Intn(3)) * time.Millisecond
		}
		if ncb > 0 || rng.Intn(2) == 0 {
			inv.Callbacks = []func(context.Context){}
		}
		for c := 0; c < ncb; c++ {
			c := c
			inv.Callbacks = append(inv.Callbacks, func(ctx context.Context) {
				e := cbEvent{call: curCall, idx: c, enter: now()}
				if v := ctx.Value(callKey{}); v != nil {
					e.call = v.(int)
				}
				if c == 0 && cancelInCb != nil {
					cancelInCb() // the caller's context is cancelled while the callbacks run: the remaining callbacks still have to run
				}
				if slow > 0 {
					time.Sleep(slow)
				}
				e.exit = now()
				mu.Lock()
				log = append(log, e)
				mu.Unlock()
			})
		}
		var fail *Violation
		trace := []string{}
		effSkip := int64(skip)
		if skip == 0 {
			effSkip = int64(15 * time.Second)
		}
		if !concurrent {
			id := fmt.Sprintf("i%d", idx)
			d.Ask(fmt.Sprintf("iv new %s skip=%d", id, int64(skip)))
			nCalls := 3 + rng.Intn(6)
			for c := 0; c < nCalls && fail == nil; c++ {
				curCall = c
				// sleep relative to the interval: well below, or well above (never close to the boundary)
				if c > 0 && skip > 0 {
					if rng.Intn(2) == 0 {
						time.Sleep(skip + skip/2 + time.Millisecond)
					} else if rng.Intn(2) == 0 {
						time.Sleep(skip / 4)
					}
				}
				mu.Lock()
				nBefore := len(log)
				mu.Unlock()
				// caller contexts: live, already cancelled, or cancelled by the first callback (abandoned requests)
				cctx, cancel := context.WithCancel(context.WithValue(ctx, callKey{}, c))
				cancelInCb = nil
				switch rng.Intn(5) {
				case 0:
					cancel()
					res.count("ctx:cancelled-before")
				case 1:
					cancelInCb = cancel
					res.count("ctx:cancelled-in-callback")
				}
				t0 := now()
				err := inv.Invalidate(cctx)
				t1 := now()
				cancel()
				cancelInCb = nil
				mu.Lock()
				ran := log[nBefore:]
				mu.Unlock()
				obs := ""
				switch {
				case err == nil:
					obs = fmt.Sprintf("ran:%d", len(ran))
				case errors.Is(err, cache.ErrAlreadyInvalidated):
					obs = "already"
				case errors.Is(err, cache.ErrNothingToInvalidate):
					obs = "nothing"
				default:
					obs = "error:" + strings.ReplaceAll(err.Error(), " ", "_")
				}
				trace = append(trace, obs)
				res.count("call:" + strings.SplitN(obs, ":", 2)[0])
				// monitor: callbacks of this call = 0..n-1 in order exactly once (accepted) or none (rejected)
				okOrder := true
				if err == nil {
					if len(ran) != ncb {
						okOrder = false
					}
					for j, e := range ran {
						if e.idx != j {
							okOrder = false
						}
					}
				} else if len(ran) != 0 {
					okOrder = false
				}
				if !okOrder {
					fail = &Violation{Property: "C17", Kind: "monitor", Sig: "inval:callbacks", Detail: fmt.Sprintf("call #%d (%s) ran callbacks %v, registered %d", c, obs, ran, ncb)}
					break
				}
				if r := d.Ask(fmt.Sprintf("iv call %s %d %d %d %s", id, ncb, t0, t1, obs)); r != "ok" {
					fail = &Violation{Property: "C17", Kind: "monitor", Sig: "inval:spacing-or-result", Detail: fmt.Sprintf("call #%d: observed %q at [%d,%d], skip=%d: %s; results so far %v", c, obs, t0, t1, effSkip, r, trace)}
				}
			}
		} else {
			// concurrent callers: monitor only
			nG := 2 + rng.Intn(7)
			type callRec struct {
				t0, t1 int64
				err    error
			}
			recs := make([][]callRec, nG)
			var wg sync.WaitGroup
			for g := 0; g < nG; g++ {
				g := g
				wg.Add(1)
				go func() {
					defer wg.Done()
					for c := 0; c < 6; c++ {
						t0 := now()
						err := inv.Invalidate(context.WithValue(ctx, callKey{}, g*100+c))
						recs[g] = append(recs[g], callRec{t0, now(), err})
						time.Sleep(time.Duration(g+1) * time.Millisecond)
					}
				}()
			}
			wg.Wait()
			// blocks: group log by call id, in order of first enter
			sort.Slice(log, func(i, j int) bool { return log[i].enter < log[j].enter })
			type block struct {
				call       int
				start, end int64
				idxs       []int
			}
			var blocks []block
			for _, e := range log {
				if len(blocks) == 0 || blocks[len(blocks)-1].call != e.call {
					blocks = append(blocks, block{call: e.call, start: e.enter})
				}
				b := &blocks[len(blocks)-1]
				b.idxs = append(b.idxs, e.idx)
				b.end = e.exit
			}
			accepted := 0
			t0of := map[int]int64{}
			for g := range recs {
				for c, r := range recs[g] {
					t0of[g*100+c] = r.t0
					switch {
					case r.err == nil:
						accepted++
						trace = append(trace, "ran")
					case errors.Is(r.err, cache.ErrAlreadyInvalidated):
						trace = append(trace, "already")
					case errors.Is(r.err, cache.ErrNothingToInvalidate):
						trace = append(trace, "nothing")
					default:
						fail = &Violation{Property: "C17", Kind: "monitor", Sig: "inval:foreign-error", Detail: r.err.Error()}
					}
				}
			}
			sort.Strings(trace)
			if ncb > 0 && fail == nil {
				if len(blocks) != accepted {
					fail = &Violation{Property: "C17", Kind: "monitor", Sig: "inval:overlap-or-partial", Detail: fmt.Sprintf("%d accepted calls but the callback log splits into %d blocks (interleaved or partial runs): %v", accepted, len(blocks), blocks)}
				}
				for bi, b := range blocks {
					if fail != nil {
						break
					}
					if len(b.idxs) != ncb {
						fail = &Violation{Property: "C17", Kind: "monitor", Sig: "inval:callbacks", Detail: fmt.Sprintf("accepted call %d ran callbacks %v, registered %d", b.call, b.idxs, ncb)}
					}
					for j, x := range b.idxs {
						if x != j && fail == nil {
							fail = &Violation{Property: "C17", Kind: "monitor", Sig: "inval:callbacks", Detail: fmt.Sprintf("accepted call %d ran callbacks out of order %v", b.call, b.idxs)}
						}
					}
					if bi > 0 && fail == nil {
						prev := blocks[bi-1]
						if b.start < prev.end {
							fail = &Violation{Property: "C17", Kind: "monitor", Sig: "inval:overlap", Detail: fmt.Sprintf("callbacks of accepted calls %d and %d overlap", prev.call, b.call)}
						}
						// lastRun of prev >= max(its call entry, end of the block before it); the check of b happened no later than b.start
						lower := t0of[prev.call]
						if bi > 1 && blocks[bi-2].end > lower {
							lower = blocks[bi-2].end
						}
						if effSkip > 0 && b.start-lower < effSkip && fail == nil {
							fail = &Violation{Property: "C17", Kind: "monitor", Sig: "inval:spacing", Detail: fmt.Sprintf("accepted calls %d and %d are at most %dns apart, SkipInterval %dns", prev.call, b.call, b.start-lower, effSkip)}
						}
					}
				}
			}
			res.count("concurrent-scenarios")
		}
		res.TracesValidated++
		if len(res.Samples) < 4 {
			res.Samples = append(res.Samples, map[string]interface{}{"skipInterval": int64(skip), "callbacks": ncb, "concurrent": concurrent, "results": trace})
		}
		hasRan, hasRej := false, false
		for _, t := range trace {
			if strings.HasPrefix(t, "ran") {
				hasRan = true
			}
			if t == "already" {
				hasRej = true
			}
		}
		if hasRan && hasRej {
			h := fnv.New64a()
			h.Write([]byte(fmt.Sprint(skip, ncb, concurrent, trace)))
			uniq[h.Sum64()] = true
		}
		if fail != nil {
			fail.Replay = map[string]interface{}{"engine": "inval", "profile": "c17", "seed": o.Seed, "index": idx, "skipInterval": int64(skip), "callbacks": ncb,
				"concurrent": concurrent, "results": trace, "rerun": fmt.Sprintf("harness inval -profile c17 -seed %d -only %d", o.Seed, idx)}
			res.Violations = append(res.Violations, *fail)
			if res.full() {
				break
			}
		}
	}
	res.DistinctNontrivial = len(uniq)
	return res
}

type callKey struct{}
