package main

import (
	"encoding/json"
	"flag"
	"fmt"
	"os"
	"sort"
	"strings"
	"time"
)

// Violation is one finding of an engine run.
type Violation struct {
	Property string                 `json:"property"`       // property whose monitor failed; "" for a pure model/impl disagreement
	Also     []string               `json:"also,omitempty"` // further properties the same observation violates
	Kind     string                 `json:"kind"`           // monitor | correspondence | crash
	Sig      string                 `json:"sig"`            // machine-readable signature (known-findings matching)
	Detail   string                 `json:"detail"`
	Replay   map[string]interface{} `json:"replay"`
}

// Result is what an engine run reports to bin/verif.
type Result struct {
	Engine             string         `json:"engine"`
	Profile            string         `json:"profile"`
	Seed               int64          `json:"seed"`
	Evaluations        int            `json:"evaluations"`
	DistinctNontrivial int            `json:"distinct_nontrivial"`
	Rule               string         `json:"rule"`
	Samples            []interface{}  `json:"samples"`
	TracesValidated    int            `json:"traces_validated_against_impl"`
	Distribution       map[string]int `json:"distribution"`
	Violations         []Violation    `json:"violations"`
	Ambiguous          int            `json:"ambiguous_time"`
	Exhaustive         bool           `json:"exhaustive"`
	Notes              []string       `json:"notes,omitempty"`
}

func (r *Result) count(k string) {
	if r.Distribution == nil {
		r.Distribution = map[string]int{}
	}
	r.Distribution[k]++
}

// full tells an engine to stop early: the tree is broken in many ways. The cap is on the total, not on the first few, so that
// violations of one property cannot crowd out the (later) ones of another; trimViolations keeps a few per attribution class.
func (r *Result) full() bool {
	concrete := 0
	for _, v := range r.Violations {
		if v.Kind != "correspondence" {
			concrete++
		}
	}
	// model/implementation disagreements come in floods once the code changed; they must not end the search for a concrete one
	return concrete >= 60 || len(r.Violations) >= 1500
}

func (r *Result) trimViolations() {
	per := map[string]int{}
	out := []Violation{}
	for _, v := range r.Violations {
		sp := strings.SplitN(v.Sig, ":", 3)
		if len(sp) > 2 {
			sp = sp[:2]
		}
		k := v.Property + "|" + strings.Join(v.Also, ",") + "|" + v.Kind + "|" + strings.Join(sp, ":")
		if per[k] < 4 {
			out = append(out, v)
		}
		per[k]++
	}
	r.Violations = out
}

func (r *Result) countN(k string, n int) {
	if r.Distribution == nil {
		r.Distribution = map[string]int{}
	}
	r.Distribution[k] += n
}

type Opts struct {
	Profile string
	Seed    int64
	N       int
	Tier    string
	Driver  string
	Out     string
	Only    int
	Replay  string
}

var engines = map[string]func(o Opts) *Result{}

// timeUp: engines stop generating new cases once the wall-clock budget (-budget seconds, 0 = none) is used up. The search
// that follows a broken proof obligation / correspondence runs at the thorough case count under such a budget.
var budgetDeadline time.Time

func timeUp() bool { return !budgetDeadline.IsZero() && time.Now().After(budgetDeadline) }

// checkFor is the property whose check runs this engine ("" = stop at the first violation of anything).
var checkFor string

func main() {
	if len(os.Args) < 2 {
		names := []string{}
		for k := range engines {
			names = append(names, k)
		}
		sort.Strings(names)
		fmt.Fprintln(os.Stderr, "usage: harness <engine> [flags]; engines:", names)
		os.Exit(3)
	}
	eng := os.Args[1]
	fs := flag.NewFlagSet(eng, flag.ExitOnError)
	var o Opts
	fs.StringVar(&o.Profile, "profile", "", "scenario profile")
	fs.Int64Var(&o.Seed, "seed", 1, "PRNG seed")
	fs.IntVar(&o.N, "n", 100, "number of cases")
	fs.StringVar(&o.Tier, "tier", "quick", "quick|thorough")
	fs.StringVar(&o.Driver, "driver", "", "path of the Lean driver executable")
	fs.StringVar(&o.Out, "out", "", "result JSON path")
	fs.IntVar(&o.Only, "only", -1, "run only the case with this index (replay)")
	fs.StringVar(&o.Replay, "replay", "", "replay file")
	budget := fs.Int("budget", 0, "wall-clock budget in seconds for generating cases (0 = none)")
	fs.StringVar(&checkFor, "for", "", "property under check: monitor violations that do not speak about it do not end a scenario")
	_ = fs.Parse(os.Args[2:])
	if *budget > 0 {
		budgetDeadline = time.Now().Add(time.Duration(*budget) * time.Second)
	}
	f, ok := engines[eng]
	if !ok {
		infra("unknown engine %q", eng)
	}
	switch eng {
	case "seq", "fo", "inval", "linz", "conserve":
		startWatchdog()
	}
	res := f(o)
	res.Engine = eng
	res.Profile = o.Profile
	res.Seed = o.Seed
	if res.Violations == nil {
		res.Violations = []Violation{}
	}
	if res.Samples == nil {
		res.Samples = []interface{}{}
	}
	if res.Distribution == nil {
		res.Distribution = map[string]int{}
	}
	res.trimViolations()
	buf, _ := json.MarshalIndent(res, "", " ")
	if o.Out != "" {
		if err := os.WriteFile(o.Out, buf, 0o644); err != nil {
			infra("write result: %v", err)
		}
	} else {
		os.Stdout.Write(buf)
		fmt.Println()
	}
	if len(res.Violations) > 0 {
		os.Exit(1)
	}
}
