module verifharness

go 1.18

require (
	github.com/bool64/cache v0.0.0
	github.com/cespare/xxhash/v2 v2.2.0
)

replace github.com/bool64/cache => /repo
